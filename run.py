#!/usr/bin/env python3
"""Entry point.

    run.py check C07 [--tier quick|thorough]     exit 0 held / 1 violation / 3 inconclusive
    run.py replay <replay.json>
    run.py selftest [C07 ...]                    apply mutants/<ID>-*.patch to a scratch copy

VERIF_SEED, VERIF_TIER, VERIF_REPO (default /repo), VERIF_JOBS (default: all cores).
"""
import fnmatch
import json
import os
import re
import shutil
import subprocess
import sys
import tempfile
import time

HERE = os.path.dirname(os.path.abspath(__file__))
sys.path.insert(0, HERE)
import build as B  # noqa: E402

PY = "/venv/bin/python"
DEFAULT_BUDGET = {"quick": 60.0, "thorough": 900.0}
DEFAULT_CASE_TIMEOUT = {"quick": 120, "thorough": 600}


def load_known():
    p = os.path.join(HERE, "known_findings.json")
    if not os.path.exists(p):
        return []
    with open(p) as f:
        return json.load(f)["findings"]


def prop_meta(prop_id):
    """Static attributes of a property module, read without importing tskit."""
    from types import SimpleNamespace

    from lib.props.meta import META

    return SimpleNamespace(**META[prop_id])


# --------------------------------------------------------------------------- reports


def parse_crash(stderr_text, returncode):
    """Mechanism key + summary from a dead worker's stderr."""
    t = stderr_text
    m = re.search(r"ERROR: AddressSanitizer: ([\w-]+)", t)
    frames = re.findall(r"#\d+ 0x[0-9a-f]+ in (\w+) [^\n]*?/(?:c/tskit|python|c/subprojects/kastore)/", t)
    frames = [f for f in frames if not f.startswith("__")]
    pyfn = None
    pm = re.findall(r'File "[^"]*/python/tskit/(\w+)\.py", line \d+ in (\w+)', t)
    if pm:
        pyfn = f"{pm[0][0]}.{pm[0][1]}"
    if m:
        return f"crash/asan/{m.group(1)}/{frames[0] if frames else '?'}", _excerpt(t, m.start())
    m = re.search(r"(\S+\.[ch]):\d+:\d+: runtime error: ([^\n]*)", t)
    if m:
        kind = re.sub(r"0x[0-9a-f]+|\d+", "N", m.group(2))[:60].strip().replace(" ", "-")
        fn = os.path.basename(m.group(1))
        return f"crash/ubsan/{fn}/{frames[0] if frames else '?'}/{kind}", _excerpt(t, m.start())
    m = re.search(r"Bug detected in (\S+) at line (\d+)", t)
    if m:
        return f"crash/bug-assert/{os.path.basename(m.group(1))}/{pyfn or '?'}", _excerpt(t, m.start())
    m = re.search(r"Timeout \(", t)
    if m:
        return f"hang/{pyfn or '?'}", _excerpt(t, m.start())
    m = re.search(r"Fatal Python error: ([^\n]*)", t)
    if m:
        return f"crash/fatal/{m.group(1).strip().replace(' ', '-')[:40]}/{pyfn or '?'}", _excerpt(t, m.start())
    return f"crash/exit{returncode}/{pyfn or '?'}", t[-1500:]


def _excerpt(t, pos):
    return t[max(0, pos - 200) : pos + 2500]


# --------------------------------------------------------------------------- check


def run_workers(prop_id, tier, seed, variant, builddir, repo, outdir, budget, case_timeout, nshards,
                replay_case=None, extra_env=None):
    env = B.run_env(variant, builddir, repo, extra_env)
    launcher = [PY]
    if variant == "tsan":
        launcher = [os.path.join(builddir, "pylaunch")]
    procs = {}
    state = {s: {"attempt": 0, "skip": [], "skip_until": 0} for s in range(nshards)}
    crashes = []

    def start(s):
        st = state[s]
        a = {
            "prop": prop_id, "tier": tier, "seed": seed, "shard": s, "nshards": nshards,
            "outdir": outdir, "skip_until": st["skip_until"], "skip": st["skip"],
            "budget": budget, "case_timeout": case_timeout, "attempt": st["attempt"],
        }
        if replay_case is not None:
            a["replay_case"] = replay_case
        errp = os.path.join(outdir, f"stderr-{s}-{st['attempt']}.txt")
        errf = open(errp, "w")
        p = subprocess.Popen(
            launcher + ["-X", "faulthandler", "-m", "lib.harness", json.dumps(a)],
            env=env, cwd=HERE, stdout=errf, stderr=errf,
        )
        procs[s] = (p, errp, errf, time.time())

    for s in range(nshards):
        start(s)
    hard_deadline = time.time() + budget * 3 + case_timeout + 120
    while procs:
        time.sleep(0.05)
        for s in list(procs):
            p, errp, errf, t0 = procs[s]
            rc = p.poll()
            if rc is None:
                if time.time() > hard_deadline:
                    p.kill()
                    p.wait()
                    errf.close()
                    del procs[s]
                    crashes.append({"shard": s, "key": "HARNESS-WATCHDOG", "case": None,
                                    "excerpt": "worker exceeded the hard deadline", "rc": -9})
                continue
            errf.close()
            del procs[s]
            journal = os.path.join(outdir, f"journal-{s}.json")
            if rc == 0 and not os.path.exists(journal):
                continue
            if rc == 3 and not os.path.exists(journal):
                crashes.append({"shard": s, "key": "IMPORT-GUARD", "case": None,
                                "excerpt": open(errp).read()[-800:], "rc": rc})
                continue
            text = open(errp, errors="replace").read()
            case = None
            if os.path.exists(journal):
                try:
                    case = json.load(open(journal))
                except Exception:
                    case = None
                os.unlink(journal)
            key, excerpt = parse_crash(text, rc)
            crashes.append({"shard": s, "key": key, "case": case, "excerpt": excerpt, "rc": rc})
            st = state[s]
            if key.startswith("hang/"):
                st["hangs"] = st.get("hangs", 0) + 1
            # a shard that keeps hanging is not restarted: each hang costs a full case timeout
            if case is not None and replay_case is None and st["attempt"] < 40 and st.get("hangs", 0) < 2:
                # restart after the last durable result, skipping the cases that killed a worker
                last = -1
                rp = os.path.join(outdir, f"result-{s}-{st['attempt']}.json")
                if os.path.exists(rp):
                    try:
                        last = json.load(open(rp))["last_idx"]
                    except Exception:
                        last = -1
                st["skip"] = st["skip"] + [case["idx"]]
                st["skip_until"] = max(st["skip_until"], last + 1)
                st["attempt"] += 1
                start(s)
    return crashes


def aggregate(outdir):
    agg = {"cases": 0, "counters": {}, "features": {}, "sigs": set(), "violations": [],
           "samples": [], "exhausted": True, "incomplete_workers": 0}
    for fn in sorted(os.listdir(outdir)):
        if not (fn.startswith("result-") and fn.endswith(".json")):
            continue
        r = json.load(open(os.path.join(outdir, fn)))
        agg["cases"] += r["cases"]
        for k, v in r["counters"].items():
            agg["counters"][k] = agg["counters"].get(k, 0) + v
        for k, v in r["features"].items():
            agg["features"][k] = agg["features"].get(k, 0) + v
        agg["sigs"].update(r["sigs"])
        agg["violations"].extend(r["violations"])
        if len(agg["samples"]) < 4:
            agg["samples"].extend(r["samples"][:2])
        if not r["done"]:
            agg["incomplete_workers"] += 1
        if not r.get("exhausted", True):
            agg["exhausted"] = False
    return agg


def match_known(key, prop_id, known):
    for k in known:
        if k.get("status") != "known" or k.get("property") != prop_id:
            continue
        if fnmatch.fnmatchcase(key, k["key"]):
            return k
    return None


def cmd_check(prop_id, tier, seed, replay_case=None, repo=None, quiet=False):
    t0 = time.time()
    repo = repo or os.environ.get("VERIF_REPO", "/repo")
    meta = prop_meta(prop_id)
    variant = getattr(meta, "VARIANT", "asan")
    budget = getattr(meta, "BUDGET", DEFAULT_BUDGET)[tier]
    case_timeout = getattr(meta, "CASE_TIMEOUT", DEFAULT_CASE_TIMEOUT)[tier]
    jobs = int(os.environ.get("VERIF_JOBS", os.cpu_count() or 4))
    nshards = min(jobs, getattr(meta, "MAX_SHARDS", 16)) if replay_case is None else 1
    try:
        builddir = B.build(variant, repo)
        extra_env = {}
        for v in getattr(meta, "EXTRA_VARIANTS", []):
            extra_env[f"VERIF_BUILD_{v.upper()}"] = B.build(v, repo)
        # per-property environment for the workers (e.g. C09: PYTHONMALLOC=malloc so that ASan also sees the small
        # blocks the extension module takes from CPython's own allocator)
        extra_env.update(getattr(meta, "ENV", {}))
        if getattr(meta, "SHIM", False):
            sd = B.build("shim")
            extra_env["LD_PRELOAD"] = B.asan_runtime() + ":" + os.path.join(sd, "libtskfail.so")
            extra_env["LD_LIBRARY_PATH"] = sd + os.pathsep + os.environ.get("LD_LIBRARY_PATH", "")
    except Exception as e:
        print(f"INCONCLUSIVE property={prop_id} build failed: {e}")
        return 3
    outdir = tempfile.mkdtemp(prefix=f"verif-{prop_id}-")
    try:
        crashes = run_workers(prop_id, tier, seed, variant, builddir, repo, outdir, budget,
                              case_timeout, nshards, replay_case, extra_env)
        agg = aggregate(outdir)
    finally:
        shutil.rmtree(outdir, ignore_errors=True)
    known = load_known()
    inconclusive = []
    viols = []
    for v in agg["violations"]:
        if v["key"] == "HARNESS-ERROR":
            inconclusive.append(f"harness error: {v['msg']} case={json.dumps(v['case'])[:300]}\n{v.get('detail')}")
        else:
            viols.append(v)
    for c in crashes:
        if c["key"] in ("IMPORT-GUARD", "HARNESS-WATCHDOG") or c["case"] is None:
            inconclusive.append(f"{c['key']}: {c['excerpt'][-600:]}")
            continue
        viols.append({"property": prop_id, "key": c["key"], "msg": f"worker died rc={c['rc']}",
                      "case": c["case"], "detail": c["excerpt"]})
    # hangs are confirmed by an isolated re-run with a 5x budget before they count
    watchdog_notes = []
    if replay_case is None:
        confirmed, verdict = [], {}
        for v in viols:
            if v["key"].startswith("hang/"):
                k = v["key"] + "|" + str((v["case"] or {}).get("name", ""))
                if k not in verdict:
                    if len(verdict) >= 4:
                        verdict[k] = None
                    else:
                        verdict[k] = _confirm_hang(prop_id, tier, seed, v["case"], variant, builddir, repo,
                                                   case_timeout * 3, extra_env)
                if not verdict[k]:
                    watchdog_notes.append(f"unconfirmed watchdog firing: {json.dumps(v['case'])[:300]}")
                    continue
                if not getattr(meta, "HANG_IS_VIOLATION", False):
                    # only C06/C09 state "returns or raises"; elsewhere a slow case is a harness matter
                    watchdog_notes.append(f"case exceeded the watchdog twice (not a verdict for this property): "
                                          f"{json.dumps(v['case'])[:300]}")
                    continue
            confirmed.append(v)
        viols = confirmed
    new, seen_known = [], {}
    for v in viols:
        k = match_known(v["key"], prop_id, known)
        if k is not None:
            seen_known.setdefault(k["key"], [k, 0])[1] += 1
        else:
            new.append(v)
    rdir = os.path.join(HERE, "replays", prop_id)
    lines = []
    seen_keys = {}
    for v in new:
        seen_keys.setdefault(v["key"], []).append(v)
    for key, vs in seen_keys.items():
        os.makedirs(rdir, exist_ok=True)
        v = vs[0]
        name = re.sub(r"[^\w.-]+", "_", key)[:80] + f"-{v['case'].get('idx', 0) if v['case'] else 0}.json"
        path = os.path.join(rdir, name)
        with open(path, "w") as f:
            json.dump({"property": prop_id, "key": key, "msg": v["msg"], "case": v["case"],
                       "detail": v.get("detail"), "occurrences": len(vs)}, f, indent=1, default=repr)
        lines.append(f"VIOLATION property={prop_id} replay={path}")
        if not quiet:
            print(f"  [{key}] x{len(vs)}: {v['msg'][:600]}")
    for key, (k, n) in seen_known.items():
        print(f"KNOWN-FINDING: property={prop_id} {k['key']}: {k['description']} (observed {n}x this run)")
    required = getattr(meta, "REQUIRED", [])
    missing = [r for r in required if agg["counters"].get(r, 0) == 0]
    distinct = len(agg["sigs"])
    if len(watchdog_notes) > 5:
        inconclusive.append(f"{len(watchdog_notes)} watchdog firings: {watchdog_notes[0]}")
    if replay_case is None:
        if missing:
            inconclusive.append(f"deciding monitors never evaluated: {missing}")
        if distinct < 2:
            inconclusive.append(f"only {distinct} distinct non-trivial cases observed")
        minc = getattr(meta, "MIN_CASES", {"quick": 1, "thorough": 1})[tier]
        if agg["cases"] < minc:
            inconclusive.append(f"only {agg['cases']} cases ran (minimum {minc})")
    wall = time.time() - t0
    if replay_case is None:
        ev = {
            "property_id": prop_id,
            "tier": tier,
            "seed": seed,
            "level": getattr(meta, "LEVEL", "exploration"),
            "coverage": {
                "evaluations": agg["cases"],
                "distinct_nontrivial": distinct,
                "rule": getattr(meta, "RULE", ""),
                "samples": agg["samples"][:4] or ["<none>"],
                "monitor_evaluations": dict(sorted(agg["counters"].items())),
                "features_observed": dict(sorted(agg["features"].items())),
                "exhaustive": bool(getattr(meta, "EXHAUSTIVE", {}).get(tier, False) and agg["exhausted"]),
                "case_space_exhausted_within_budget": agg["exhausted"],
                "build": os.path.basename(builddir),
                "workers": nshards,
                "worker_crashes": len(crashes),
                "known_findings_observed": {k: n for k, (_, n) in seen_known.items()},
                "inconclusive": inconclusive,
                "watchdog_notes": watchdog_notes,
            },
            "assumptions": getattr(meta, "ASSUMPTIONS", []),
            "wall_s": round(wall, 2),
            "violations": len(new),
        }
        os.makedirs(os.path.join(HERE, "evidence"), exist_ok=True)
        with open(os.path.join(HERE, "evidence", f"{prop_id}.json"), "w") as f:
            json.dump(ev, f, indent=1, default=repr)
    print(f"{prop_id} tier={tier} seed={seed} cases={agg['cases']} distinct={distinct} "
          f"monitors={sum(agg['counters'].values())} crashes={len(crashes)} "
          f"violations={len(new)} known={sum(n for _, n in seen_known.values())} wall={wall:.1f}s")
    for ln in lines:
        print(ln)
    if new:
        return 1
    if inconclusive:
        for i in inconclusive[:10]:
            print(f"INCONCLUSIVE property={prop_id} {i[:1500]}")
        return 3
    return 0


def _confirm_hang(prop_id, tier, seed, case, variant, builddir, repo, timeout, extra_env=None):
    outdir = tempfile.mkdtemp(prefix=f"verif-{prop_id}-hang-")
    try:
        crashes = run_workers(prop_id, tier, seed, variant, builddir, repo, outdir, 10 ** 6, timeout, 1,
                              replay_case=case, extra_env=extra_env)
        return any(c["key"].startswith("hang/") for c in crashes)
    finally:
        shutil.rmtree(outdir, ignore_errors=True)


def cmd_replay(path):
    r = json.load(open(path))
    prop_id = r["property"]
    case = r["case"]
    rc = cmd_check(prop_id, case.get("tier", "quick"), case.get("seed", 0), replay_case=case)
    return rc


def main(argv):
    if len(argv) < 2:
        print(__doc__)
        return 2
    cmd = argv[1]
    if cmd == "check":
        prop_id = argv[2]
        tier = os.environ.get("VERIF_TIER", "quick")
        if "--tier" in argv:
            tier = argv[argv.index("--tier") + 1]
        seed = int(os.environ.get("VERIF_SEED", "0") or 0)
        return cmd_check(prop_id, tier, seed)
    if cmd == "replay":
        return cmd_replay(argv[2])
    if cmd == "selftest":
        from lib import selftest

        return selftest.main(argv[2:])
    print(__doc__)
    return 2


if __name__ == "__main__":
    sys.exit(main(sys.argv))
