#!/usr/bin/env python3
"""Out-of-tree builds of /repo's _tskit extension (never touches /repo).

    build.py <variant>      -> prints the build directory

Variants: asan (gate: ASan+UBSan, reports fatal), asanx (recover mode, for triage),
tsan (+ pylaunch launcher), plain (gcc -O2), shim (LD_PRELOAD tsk_malloc failure shim).
Builds are cached under /verif/.build/<variant>-<hash of sources+flags>.
"""
import hashlib
import os
import shutil
import subprocess
import sys
import sysconfig
from concurrent.futures import ThreadPoolExecutor

HERE = os.path.dirname(os.path.abspath(__file__))
REPO = os.environ.get("VERIF_REPO", "/repo")
BUILD_ROOT = os.path.join(HERE, ".build")
PY = "/venv/bin/python"
PYINC = "/root/.pyenv/versions/3.12.1/include/python3.12"
PYLIB = "/root/.pyenv/versions/3.12.1/lib"
NPINC = "/venv/lib/python3.12/site-packages/numpy/_core/include"
SO = "_tskit.cpython-312-x86_64-linux-gnu.so"

SOURCES = [
    "python/_tskitmodule.c",
    "c/tskit/core.c",
    "c/tskit/tables.c",
    "c/tskit/trees.c",
    "c/tskit/genotypes.c",
    "c/tskit/stats.c",
    "c/tskit/convert.c",
    "c/tskit/haplotype_matching.c",
    "c/subprojects/kastore/kastore.c",
]
HEADER_DIRS = ["c/tskit", "c/subprojects/kastore", "python/lwt_interface", "c"]

COMMON = ["-std=c99", "-g", "-DNDEBUG", "-fPIC", "-fno-strict-overflow", "-w"]
SAN = ["-fsanitize=address,undefined", "-fno-sanitize=nonnull-attribute", "-fno-omit-frame-pointer"]
VARIANTS = {
    "asan": ("clang", COMMON + ["-O1"] + SAN + ["-fno-sanitize-recover=all", "-shared-libasan"]),
    "asanx": ("clang", COMMON + ["-O1"] + SAN + ["-fsanitize-recover=all", "-shared-libasan"]),
    "tsan": ("clang", COMMON + ["-O1", "-fsanitize=thread", "-fno-omit-frame-pointer"]),
    "plain": ("gcc", COMMON + ["-O2"]),
}


def _includes(repo):
    return [
        f"-I{repo}/python/lwt_interface",
        f"-I{repo}/c",
        f"-I{repo}/c/subprojects/kastore",
        f"-I{NPINC}",
        f"-I{PYINC}",
    ]


def source_hash(repo, extra=""):
    h = hashlib.sha1()
    files = [os.path.join(repo, s) for s in SOURCES]
    for d in HEADER_DIRS:
        dd = os.path.join(repo, d)
        for fn in sorted(os.listdir(dd)):
            if fn.endswith(".h"):
                files.append(os.path.join(dd, fn))
    for f in sorted(set(files)):
        h.update(f.encode())
        with open(f, "rb") as fh:
            h.update(fh.read())
    h.update(extra.encode())
    return h.hexdigest()[:16]


def asan_runtime():
    return subprocess.check_output(
        ["clang", "-print-file-name=libclang_rt.asan-x86_64.so"], text=True
    ).strip()


def build(variant, repo=None, quiet=True):
    repo = repo or REPO
    if variant == "shim":
        return build_shim()
    cc, flags = VARIANTS[variant]
    hh = source_hash(repo, variant + " ".join(flags) + repo)
    out = os.path.join(BUILD_ROOT, f"{variant}-{hh}")
    so = os.path.join(out, SO)
    if os.path.exists(so) and (variant != "tsan" or os.path.exists(os.path.join(out, "pylaunch"))):
        return out
    tmp = out + f".tmp{os.getpid()}"
    shutil.rmtree(tmp, ignore_errors=True)
    os.makedirs(tmp)
    inc = _includes(repo)

    def comp(src):
        obj = os.path.join(tmp, os.path.basename(src)[:-2] + ".o")
        cmd = [cc] + flags + inc + ["-c", os.path.join(repo, src), "-o", obj]
        r = subprocess.run(cmd, capture_output=True, text=True)
        if r.returncode != 0:
            raise RuntimeError(f"compile failed: {' '.join(cmd)}\n{r.stderr}")
        return obj

    with ThreadPoolExecutor(len(SOURCES)) as ex:
        objs = list(ex.map(comp, SOURCES))
    link = [cc, "-shared"] + [f for f in flags if f.startswith("-fsanitize") or f == "-shared-libasan"]
    link += objs + ["-o", os.path.join(tmp, SO), "-lm"]
    r = subprocess.run(link, capture_output=True, text=True)
    if r.returncode != 0:
        raise RuntimeError(f"link failed: {r.stderr}")
    for o in objs:
        os.unlink(o)
    if variant == "tsan":
        lsrc = os.path.join(HERE, "lib", "shim", "pylaunch.c")
        cmd = [
            "clang", "-fsanitize=thread", "-O1", "-g", f"-I{PYINC}", lsrc,
            "-o", os.path.join(tmp, "pylaunch"), f"-L{PYLIB}", f"-Wl,-rpath,{PYLIB}",
            "-lpython3.12", "-Wl,--export-dynamic",
        ]
        r = subprocess.run(cmd, capture_output=True, text=True)
        if r.returncode != 0:
            raise RuntimeError(f"launcher build failed: {r.stderr}")
    # keep only the newest few builds of this variant (disk is limited)
    os.makedirs(BUILD_ROOT, exist_ok=True)
    if os.path.exists(out):
        shutil.rmtree(tmp, ignore_errors=True)
    else:
        os.rename(tmp, out)
    olds = sorted(
        (d for d in os.listdir(BUILD_ROOT) if d.startswith(variant + "-") and ".tmp" not in d),
        key=lambda d: os.path.getmtime(os.path.join(BUILD_ROOT, d)),
    )
    for d in olds[:-60]:
        shutil.rmtree(os.path.join(BUILD_ROOT, d), ignore_errors=True)
    return out


def build_shim():
    src = os.path.join(HERE, "lib", "shim", "tskfail.c")
    h = hashlib.sha1(open(src, "rb").read()).hexdigest()[:16]
    out = os.path.join(BUILD_ROOT, f"shim-{h}")
    so = os.path.join(out, "libtskfail.so")
    if os.path.exists(so):
        return out
    os.makedirs(out, exist_ok=True)
    r = subprocess.run(
        ["gcc", "-O1", "-g", "-shared", "-fPIC", src, "-o", so, "-ldl"],
        capture_output=True, text=True,
    )
    if r.returncode != 0:
        raise RuntimeError(f"shim build failed: {r.stderr}")
    return out


def run_env(variant, builddir, repo=None, extra=None):
    """Environment for a worker process that must import /repo's tskit on `builddir`."""
    repo = repo or REPO
    env = dict(os.environ)
    env["PYTHONPATH"] = os.pathsep.join([builddir, os.path.join(repo, "python"), HERE])
    env["PYTHONHASHSEED"] = "0"
    env["VERIF_BUILDDIR"] = builddir
    env["VERIF_REPO"] = repo
    env["TSKIT_VERIF"] = "1"
    env.pop("PYTHONSTARTUP", None)
    if variant in ("asan", "asanx"):
        env["LD_PRELOAD"] = asan_runtime()
        halt = "1" if variant == "asan" else "0"
        env["ASAN_OPTIONS"] = (
            f"detect_leaks=0:abort_on_error=1:halt_on_error={halt}:allocator_may_return_null=1:"
            "max_allocation_size_mb=3072:handle_segv=1:detect_stack_use_after_return=0:"
            # malloc'ed memory is filled with 0xbe up to 16 MiB per block (ASan's default stops at 4 KiB and fresh pages
            # beyond that read as zero): a read of uninitialised heap memory then yields garbage that the value oracles see
            "max_malloc_fill_size=16777216"
        )
        env["UBSAN_OPTIONS"] = "print_stacktrace=1" + (":halt_on_error=1" if variant == "asan" else "")
    if variant == "tsan":
        env["PYTHONPATH"] += os.pathsep + "/venv/lib/python3.12/site-packages"
        env["TSAN_OPTIONS"] = "halt_on_error=0:exitcode=66:second_deadlock_stack=1"
    if extra:
        env.update(extra)
    return env


if __name__ == "__main__":
    v = sys.argv[1] if len(sys.argv) > 1 else "asan"
    print(build(v, quiet=False))
