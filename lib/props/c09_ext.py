"""C09 catalogue extension (audit): entry points, argument forms, object states and table states that the main
catalogue in c09.py did not reach.  `register(ns)` is called by c09.py with its module namespace and appends to CAT.

What is here (see lib/props/AUDIT-C09.md for the gap list):
  * low-level record / row accessors a user reaches through `ts.ll_tree_sequence` and `table.ll_table`
    (get_<record>, get_row, update_row, extend) and the Python-level integer row index of every table, each with the
    identifier clause (row count, negative, huge -> must raise);
  * `add_row` identifier fields (ids that do not fit a 32-bit id must raise, never wrap);
  * every column of every table replaced by a malformed array (length, dtype, rank, offsets, special values) through
    seven entry forms (set_columns / append_columns / property setter / low-level dict forms / fromdict / LWT);
  * table and collection comparison / replacement with OTHER objects (other row count, other table class, self);
  * self-aliasing calls (`tc.union(tc, ...)`, `replace_with(self)`, `append_columns(own columns)`);
  * low-level objects that were never initialised (`cls.__new__(cls)`), re-initialised, and attribute deletion;
  * object lifetimes: arrays / trees / variants / segment lists / tables used after their owner was dropped;
  * low-level Tree / IdentitySegments / statistics arguments the high-level wrappers normally sanitise
    (newick buffer size, sample_set_sizes that do not add up, IBD pair lookups);
  * alternative keyword forms (tracked_leaves, leaf_lists, at/first/last/aslist options).

Soundness: 'must raise' is only attached where the documentation or the property's identifier clause fixes the range;
tskit raises SystemError("... not initialised") ON PURPOSE for low-level objects created without __init__ - that message
is accepted (EITHER: SystemError with that text, or any other exception), every other SystemError stays a violation.
"""
import dataclasses
import gc
import os
import tempfile
import pickle
import re

import numpy as np
import tskit
import _tskit

TABLES = ("nodes", "edges", "sites", "mutations", "individuals", "populations", "migrations", "provenances")
NOT_INIT = re.compile(r"not initiali[sz]ed", re.I)


class Uninitialised(ValueError):
    """tskit's deliberate SystemError('X not initialised') translated, so that it is not taken for a C-API breach."""


def guarded(f, *args, **kw):
    try:
        return f(*args, **kw)
    except SystemError as e:
        if NOT_INIT.search(str(e)):
            raise Uninitialised(str(e)) from None
        raise


def seq(*thunks):
    """Run every thunk; ordinary exceptions end that thunk only, SystemError (C-API breach) propagates."""
    out = []
    for f in thunks:
        try:
            out.append(guarded(f))
        except SystemError:
            raise
        except Exception as e:  # noqa: BLE001
            out.append(type(e).__name__)
    return out


def _noschema(tab):
    if hasattr(tab, "metadata_schema"):
        tab.metadata_schema = tskit.MetadataSchema(None)
    return tab


def _cols(tab):
    d = tab.asdict()
    d.pop("metadata_schema", None)
    return d


# ----------------------------------------------------------------------------- column mutations

OFFSET_MODES = ("off-swap", "off-first1", "off-last+1", "off-last-1", "off-zeros", "off-huge31", "off-huge63", "off-neg",
                "off-short", "off-long", "off-i64", "off-f64")
PLAIN_MODES = ("drop-last", "append-one", "empty", "dtype", "2d", "special-last", "remove", "scalar", "string", "list",
               "strided", "byteswapped", "readonly", "none")


def mutate_column(v, mode):
    """One malformed replacement for column array `v` (REMOVE = delete the key)."""
    v = np.asarray(v)
    if mode == "drop-last":
        return v[:-1] if len(v) else np.append(v, v.dtype.type(0))
    if mode == "append-one":
        return np.append(v, v.dtype.type(1))
    if mode == "empty":
        return v[:0]
    if mode == "dtype":
        return v.astype(np.float32) if v.dtype != np.float32 else v.astype(np.int8)
    if mode == "2d":
        return v.reshape(len(v), 1)
    if mode == "special-last":
        w = v.copy()
        if len(w):
            w[-1] = np.iinfo(w.dtype).max if np.issubdtype(w.dtype, np.integer) else np.nan
        return w
    if mode == "remove":
        return REMOVE
    if mode == "scalar":
        return 3
    if mode == "string":
        return "abc"
    if mode == "list":
        return v.tolist()
    if mode == "strided":
        return np.repeat(v, 2)[::2]
    if mode == "byteswapped":
        return v.astype(v.dtype.newbyteorder())
    if mode == "readonly":
        w = v.copy()
        w.setflags(write=False)
        return w
    if mode == "none":
        return None
    # offset columns
    w = v.astype(np.uint64)
    if mode == "off-swap":
        if len(w) >= 3:
            w[1], w[-1] = w[-1], w[1]
        return w
    if mode == "off-first1":
        if len(w):
            w[0] = 1
        return w
    if mode == "off-last+1":
        if len(w):
            w[-1] += 1
        return w
    if mode == "off-last-1":
        if len(w) and w[-1] > 0:
            w[-1] -= 1
        return w
    if mode == "off-zeros":
        return np.zeros_like(w)
    if mode == "off-huge31":
        if len(w):
            w[-1] = 2 ** 31
        return w
    if mode == "off-huge63":
        if len(w):
            w[-1] = 2 ** 63
        return w
    if mode == "off-neg":
        x = v.astype(np.int64)
        if len(x):
            x[-1] = -1
        return x
    if mode == "off-short":
        return w[:-1]
    if mode == "off-long":
        return np.append(w, w[-1:] if len(w) else np.zeros(1, dtype=np.uint64))
    if mode == "off-i64":
        return v.astype(np.int64)
    if mode == "off-f64":
        return v.astype(np.float64)
    raise AssertionError(mode)


REMOVE = object()
FORMS = ("set_columns", "append_columns", "setter", "ll.set_columns", "ll.append_columns", "fromdict", "ll.fromdict", "lwt",
         "setstate")


def apply_columns(tc, tname, col, value, form, probe):
    tab = getattr(tc, tname)
    d = _cols(tab)
    if value is REMOVE:
        d.pop(col, None)
    else:
        d[col] = value
    if form == "set_columns":
        tab.set_columns(**d)
    elif form == "append_columns":
        tab.append_columns(**d)
    elif form == "setter":
        if value is REMOVE:
            delattr(tab, col)
        else:
            setattr(tab, col, value)
    elif form == "ll.set_columns":
        tab.ll_table.set_columns(d)
    elif form == "ll.append_columns":
        tab.ll_table.append_columns(d)
    elif form == "setstate":
        d2 = tab.asdict()
        d2.update(d)
        if value is REMOVE:
            d2.pop(col, None)
        fresh = type(tab)()
        fresh.__setstate__(d2)
        return list(fresh)
    else:
        full = tc.asdict()
        if value is REMOVE:
            full[tname].pop(col, None)
        else:
            full[tname][col] = value
        if form == "fromdict":
            tc = tskit.TableCollection.fromdict(full)
        elif form == "ll.fromdict":
            ll = _tskit.TableCollection(1.0)
            ll.fromdict(full)
            tc = tskit.TableCollection(ll_tables=ll)
        else:
            lwt = _tskit.LightweightTableCollection()
            lwt.fromdict(full)
            tc = tskit.TableCollection.fromdict(lwt.asdict())
        tab = getattr(tc, tname)
    return list(tab), probe(tc)


def column_mutations(o, tname):
    """[(column, mode, form)]: every offset mode of every offset column, a per-case sample of the plain modes, the entry
    form cycling so that each form is used in every case."""
    tab = getattr(o.tables, tname)
    cols = sorted(_cols(tab))
    out = []
    k = o.rng.randrange(len(FORMS))
    for col in cols:
        modes = list(OFFSET_MODES) + ["drop-last", "remove"] if col.endswith("_offset") else \
            o.rng.sample(PLAIN_MODES, 6)
        for mode in modes:
            out.append((col, mode, FORMS[k % len(FORMS)]))
            k += 1
    return out


# ----------------------------------------------------------------------------- other objects


def other_table(tc, tname, kind):
    tab = getattr(tc, tname)
    if kind == "copy":
        return tab.copy()
    if kind == "shorter":
        c = tab.copy()
        c.truncate(max(0, c.num_rows - 1))
        return c
    if kind == "longer":
        c = tab.copy()
        c.append_columns(**_cols(c))
        return c
    if kind == "empty":
        c = tab.copy()
        c.clear()
        return c
    if kind == "other-class":
        return getattr(tc, TABLES[(TABLES.index(tname) + 1) % len(TABLES)]).copy()
    if kind == "collection":
        return tc
    if kind == "self":
        return tab
    if kind == "ll-table":
        return tab.ll_table
    if kind == "none":
        return None
    if kind == "row":
        return tab[0] if tab.num_rows else None
    return 3


OTHER_KINDS = ("copy", "shorter", "longer", "empty", "other-class", "collection", "self", "ll-table", "none", "row", "int")


def table_vs_other(tc, tname, kind):
    tab = getattr(tc, tname)
    oth = other_table(tc, tname, kind)
    ll_oth = getattr(oth, "ll_table", oth)
    foreign = getattr(tc, TABLES[(TABLES.index(tname) + 1) % len(TABLES)])
    return seq(lambda: tab.equals(oth), lambda: tab == oth, lambda: tab.assert_equals(oth),
               lambda: tab.equals(oth, ignore_metadata=True) if tname != "provenances" else tab.equals(oth, ignore_timestamps=True),
               lambda: tab.ll_table.equals(ll_oth), lambda: oth.equals(tab),
               lambda: tab.ll_table.extend(ll_oth, row_indexes=np.arange(getattr(oth, "num_rows", 1), dtype=np.int32)),
               lambda: tab.append(foreign[0]), lambda: tab.__setitem__(0, foreign[0]),
               lambda: tab.replace_with(oth), lambda: list(tab), lambda: tab.copy().equals(tab))


def other_collection(tc, kind):
    c = tc.copy()
    if kind == "copy":
        return c
    if kind == "self":
        return tc
    if kind == "length":
        c.sequence_length = tc.sequence_length * 2
    elif kind == "no-nodes":
        c.nodes.clear()
    elif kind == "no-edges":
        c.edges.clear()
    elif kind == "one-node-less":
        c.nodes.truncate(max(0, c.nodes.num_rows - 1))
    elif kind == "no-populations":
        c.populations.clear()
    elif kind == "no-individuals":
        c.individuals.clear()
    elif kind == "no-sites":
        c.sites.clear()
    elif kind == "cleared":
        c.clear(clear_provenance=True, clear_metadata_schemas=True, clear_ts_metadata_and_schema=True)
    elif kind == "treeseq":
        return tc.tree_sequence() if tc.has_index() or True else None
    elif kind == "ll":
        return c._ll_tables
    elif kind == "none":
        return None
    return c


COLLECTION_KINDS = ("copy", "self", "length", "no-nodes", "no-edges", "one-node-less", "no-populations", "no-individuals",
                    "no-sites", "cleared", "treeseq", "ll", "none")


# ----------------------------------------------------------------------------- uninitialised / re-initialised low-level objects

LL_CLASSES = [n for n in dir(_tskit) if isinstance(getattr(_tskit, n), type) and not issubclass(getattr(_tskit, n), BaseException)
              and n not in ("LsHmm", "CompressedMatrix", "ViterbiMatrix")]  # the Li-Stephens classes are out of scope (DESIGN 0)


def members(cls):
    return [m for m in dir(cls) if not (m.startswith("__") and m.endswith("__"))]


FILE_MEMBERS = ("dump", "load", "print_state")  # an int argument would be taken for a file descriptor (0 = the worker's stdin)


def touch_member(x, member, extra=()):
    """getattr, then (methods) a handful of argument tuples, (data attributes) assignment and deletion."""
    m = guarded(getattr, x, member)
    out = []
    if callable(m) and member in FILE_MEMBERS:
        out += seq(lambda: m(), lambda: m(None), lambda: m("/nonexistent-dir/x"))
    elif callable(m):
        for args in ((), (0,), (0, 0), (None,), ([0],), (x,), (x, [0])) + tuple(extra):
            out += seq(lambda: m(*args))
    else:
        out.append(m)
        out += seq(lambda: setattr(x, member, m), lambda: setattr(x, member, 0), lambda: setattr(x, member, b"x"),
                   lambda: setattr(x, member, None), lambda: delattr(x, member), lambda: getattr(x, member))
    return out


def ll_instance(ts, cname):
    """A valid, initialised low-level object of class `cname` (None when there is no public way to make one)."""
    lts = ts.ll_tree_sequence
    if cname == "TreeSequence":
        new = _tskit.TreeSequence()
        new.load_tables(ts.dump_tables()._ll_tables, build_indexes=True)
        return new
    if cname == "TableCollection":
        return ts.dump_tables()._ll_tables
    if cname == "Tree":
        t = _tskit.Tree(lts)
        t.first()
        return t
    if cname == "Variant":
        v = _tskit.Variant(lts, isolated_as_missing=False)
        if ts.num_sites:
            v.decode(0)
        return v
    if cname == "LdCalculator":
        return _tskit.LdCalculator(lts)
    if cname == "LightweightTableCollection":
        lwt = _tskit.LightweightTableCollection()
        lwt.fromdict(ts.dump_tables().asdict())
        return lwt
    if cname == "IdentitySegments":
        return ts.dump_tables()._ll_tables.ibd_segments_within(store_pairs=True, store_segments=True)
    if cname == "IdentitySegmentList":
        r = ts.dump_tables()._ll_tables.ibd_segments_within(store_pairs=True, store_segments=True)
        keys = r.get_keys()
        return r.get(int(keys[0][0]), int(keys[0][1])) if len(keys) else None
    if cname == "ReferenceSequence":
        return ts.dump_tables()._ll_tables.reference_sequence
    if cname == "MetadataSchemas":
        return lts.get_table_metadata_schemas()
    if cname.endswith("Table"):
        tname = {"NodeTable": "nodes", "EdgeTable": "edges", "SiteTable": "sites", "MutationTable": "mutations",
                 "IndividualTable": "individuals", "PopulationTable": "populations", "MigrationTable": "migrations",
                 "ProvenanceTable": "provenances"}[cname]
        return getattr(ts.dump_tables(), tname).ll_table
    return None


def reinit(ts, cname):
    x = ll_instance(ts, cname)
    if x is None:
        return None
    lts = ts.ll_tree_sequence
    args = {"TreeSequence": (), "TableCollection": (2.0,), "Tree": (lts,), "Variant": (lts,), "LdCalculator": (lts,),
            "LightweightTableCollection": ()}.get(cname, ())
    out = seq(lambda: x.__init__(*args), lambda: x.__init__(*args), lambda: x.__init__(None), lambda: x.__init__())
    for m in members(type(x))[:60]:
        out += seq(lambda: touch_member(x, m))
    return out


# ----------------------------------------------------------------------------- lifetimes


def _own_ts(ts):
    """A tree sequence nobody else references."""
    tc = ts.dump_tables()
    return tc.tree_sequence()


def _drop():
    gc.collect()
    # churn the allocator so that freed blocks are reused / poisoned
    junk = [np.full(37, 7, dtype=np.int64) for _ in range(64)]
    del junk
    gc.collect()


def life_tree_arrays(ts):
    t = _own_ts(ts).first(sample_lists=True)
    arrs = [t.parent_array, t.left_child_array, t.right_child_array, t.left_sib_array, t.right_sib_array, t.num_children_array,
            t.edge_array]
    before = [a.copy() for a in arrs]
    t.next()
    t.last()
    t.clear()
    mid = [int(a.sum()) for a in arrs]
    del t
    _drop()
    return [int(a.sum()) for a in arrs], mid, [int(b.sum()) for b in before]


def life_ts_columns(ts):
    t2 = _own_ts(ts)
    names = ("nodes_time", "nodes_flags", "nodes_population", "nodes_individual", "edges_left", "edges_right", "edges_parent",
             "edges_child", "sites_position", "mutations_site", "mutations_node", "mutations_parent", "mutations_time",
             "migrations_left", "migrations_node", "individuals_flags", "indexes_edge_insertion_order",
             "indexes_edge_removal_order", "nodes_metadata", "edges_metadata", "sites_metadata", "mutations_metadata",
             "individuals_metadata", "populations_metadata", "migrations_metadata")
    arrs = [getattr(t2, n) for n in names if hasattr(t2, n)]
    arrs += [t2.samples(), t2.breakpoints(as_array=True), t2.individuals_time, t2.individuals_population]
    del t2
    _drop()
    return [a.tobytes() for a in arrs]


def life_tree_of_dropped_ts(ts):
    t2 = _own_ts(ts)
    t = t2.first(sample_lists=True)
    it = t2.trees(tracked_samples=list(t2.samples()[:1]))
    first = next(it)
    v = tskit.Variant(t2, isolated_as_missing=False)
    ld = tskit.LdCalculator(t2) if t2.num_sites else None
    del t2
    _drop()
    out = [list(t.nodes()), t.next(), t.num_edges, list(first.nodes()), [x.index for x in it]]
    if v.tree_sequence.num_sites:
        v.decode(0)
        out.append(v.genotypes)
    out.append(t.tree_sequence.num_nodes)
    if ld is not None:
        out += seq(lambda: ld.r2_matrix())
    return out


def life_variant_views(ts):
    t2 = _own_ts(ts)
    if t2.num_sites == 0:
        return None
    v = tskit.Variant(t2, samples=list(range(t2.num_nodes)), isolated_as_missing=False)
    v.decode(0)
    g0 = v.genotypes
    a0 = v.alleles
    c = v.copy()
    v.decode(t2.num_sites - 1)
    g1 = v.genotypes
    lv = _tskit.Variant(t2.ll_tree_sequence, isolated_as_missing=False)
    lv.decode(0)
    lg = lv.genotypes
    rc = lv.restricted_copy()
    del v, lv, t2
    _drop()
    return g0.tobytes(), a0, g1.tobytes(), c.genotypes.tobytes(), c.alleles, lg.tobytes(), rc.genotypes.tobytes(), rc.alleles, \
        seq(lambda: rc.decode(0))


def life_ibd(ts):
    t2 = _own_ts(ts)
    r = t2.ibd_segments(store_pairs=True, store_segments=True)
    pairs = [tuple(int(x) for x in p) for p in list(r.pairs)[:6]]
    lists = [r[p] for p in pairs]
    arrays = [(s.left, s.right, s.node) for s in lists]
    llr = r._ll_identity_segments
    del r, t2
    _drop()
    out = [(len(s), s.total_span, list(s)) for s in lists]
    del lists
    _drop()
    out += [(a.tobytes(), b.tobytes(), c.tobytes()) for a, b, c in arrays]
    out += [llr.num_segments, llr.get_keys().tobytes()]
    return out


def life_tables_of_dropped_collection(ts):
    tabs = [getattr(ts.dump_tables(), name) for name in TABLES]
    lls = [getattr(ts.dump_tables()._ll_tables, name) for name in TABLES]
    ref = ts.dump_tables().reference_sequence
    llref = ts.dump_tables()._ll_tables.reference_sequence
    idx = ts.dump_tables().indexes
    _drop()
    out = []
    for t in tabs:
        out += seq(lambda: list(t), lambda: t.append(t[0]), lambda: t.truncate(1), lambda: t.asdict(), lambda: t.clear(),
                   lambda: t.copy().num_rows)
    for t in lls:
        out += seq(lambda: t.num_rows, lambda: t.get_row(0), lambda: t.truncate(0), lambda: t.clear())
    out += seq(lambda: setattr(ref, "data", "ACGT"), lambda: ref.data, lambda: ref.is_null(), lambda: setattr(llref, "data", "AC"),
               lambda: llref.data, lambda: llref.is_null(), lambda: idx.edge_insertion_order.tobytes(), lambda: idx.asdict())
    return out


def life_self_alias(ts):
    """The same object on both sides of a call."""
    out = []
    for add_pops in (True, False):
        for kind in ("null", "identity", "half"):
            tc = ts.dump_tables()
            tc.migrations.clear()
            n = tc.nodes.num_rows
            m = {"null": np.full(n, -1, dtype=np.int32), "identity": np.arange(n, dtype=np.int32),
                 "half": np.where(np.arange(n) % 2 == 0, np.arange(n), -1).astype(np.int32)}[kind]
            out += seq(lambda: tc.union(tc, m, check_shared_equality=False, add_populations=add_pops),
                       lambda: tc._ll_tables.union(tc._ll_tables, m, check_shared_equality=True), lambda: list(tc.nodes),
                       lambda: list(tc.edges), lambda: list(tc.individuals), lambda: tc.sort(), lambda: tc.tree_sequence().num_trees)
    tc = ts.dump_tables()
    for name in TABLES:
        t = getattr(tc, name)
        out += seq(lambda: t.replace_with(t), lambda: t.set_columns(**_cols(t)), lambda: t.append_columns(**_cols(t)),
                   lambda: t.ll_table.extend(t.ll_table, row_indexes=[0]), lambda: t.equals(t), lambda: list(t))
    out += seq(lambda: tc.equals(tc), lambda: tc.assert_equals(tc), lambda: tc.subset(np.arange(tc.nodes.num_rows)),
               lambda: tskit.TableCollection.fromdict(tc.asdict()).equals(tc), lambda: tc.tree_sequence().num_trees)
    t = ts.first(sample_lists=True)
    out += seq(lambda: t.kc_distance(t), lambda: t._ll_tree.equals(t._ll_tree), lambda: t._ll_tree.get_kc_distance(t._ll_tree, 0.5),
               lambda: ts.kc_distance(ts), lambda: ts.ll_tree_sequence.get_kc_distance(ts.ll_tree_sequence, 0.0),
               lambda: [iv.left for iv, _, _ in ts.coiterate(ts)], lambda: ts.equals(ts), lambda: ts.union(ts, np.arange(ts.num_nodes)).num_nodes)
    return out


def life_pickle_copy(ts):
    """copy()/pickle of an object rather than the fresh object, then use."""
    t2 = pickle.loads(pickle.dumps(ts))
    tc = pickle.loads(pickle.dumps(ts.dump_tables()))
    tabs = [pickle.loads(pickle.dumps(getattr(tc, n))) for n in TABLES]
    tr = ts.first(sample_lists=True, tracked_samples=list(ts.samples()[:1])).copy()
    out = [t2.num_trees, tc.nodes.num_rows, [len(list(t)) for t in tabs], list(tr.nodes()), tr.next(), tr.copy().prev()]
    out += seq(lambda: pickle.dumps(tr), lambda: pickle.dumps(ts.ll_tree_sequence), lambda: pickle.dumps(tc._ll_tables),
               lambda: pickle.dumps(tc.nodes.ll_table), lambda: tc.indexes.asdict(), lambda: t2.tables.nodes.clear(), lambda: t2.num_nodes,
               lambda: t2.tables.nodes.num_rows, lambda: t2.first().num_nodes)
    return out


def life_failed_load(ts):
    """A low-level object whose (re)load FAILED is used afterwards: it must report 'not initialised' (or still hold its
    previous valid content), never a half-built state."""
    out = []
    bad = ts.dump_tables()
    if bad.edges.num_rows:
        bad.edges.parent = bad.edges.child.copy()       # parent == child: refused by tsk_treeseq_init
    else:
        bad.sequence_length = -1.0
    fd, path = tempfile.mkstemp(suffix=".junk")
    os.write(fd, b"\x89KAS\r\n\x1a\n" + b"\0" * 100)
    os.close(fd)
    try:
        for prior in (False, True):
            for how in ("load_tables", "load_tables+index", "load-file"):
                ll = _tskit.TreeSequence()
                if prior:
                    ll.load_tables(ts.dump_tables()._ll_tables, build_indexes=True)
                try:
                    if how == "load-file":
                        with open(path, "rb") as f:
                            ll.load(f)
                    else:
                        ll.load_tables(bad._ll_tables, build_indexes=how.endswith("index"))
                    out.append("accepted")
                except Exception as e:  # noqa: BLE001 - the refusal is expected; what follows is the point
                    out.append(type(e).__name__)
                out += seq(ll.get_num_nodes, ll.get_breakpoints, ll.get_sequence_length, lambda: ll.get_node(0), ll.get_samples,
                           lambda: _tskit.Tree(ll), lambda: ll.dump_tables(tskit.TableCollection(1)._ll_tables),
                           lambda: ll.get_num_trees(), lambda: _tskit.Variant(ll), lambda: _tskit.LdCalculator(ll))
                del ll
                _drop()
        # the same for a low-level TableCollection whose load failed
        for prior in (False, True):
            lt = _tskit.TableCollection(1.0)
            if prior:
                lt.fromdict(ts.dump_tables().asdict())
            try:
                with open(path, "rb") as f:
                    lt.load(f)
                out.append("accepted")
            except Exception as e:  # noqa: BLE001
                out.append(type(e).__name__)
            out += seq(lambda: lt.sequence_length, lambda: lt.nodes.num_rows, lambda: lt.asdict(), lambda: lt.build_index(),
                       lambda: lt.sort(), lambda: lt.has_index())
            del lt
            _drop()
    finally:
        os.unlink(path)
    return out


LIFETIMES = {"failed-load": life_failed_load, "tree-arrays": life_tree_arrays, "ts-columns": life_ts_columns, "tree-of-dropped-ts": life_tree_of_dropped_ts,
             "variant-views": life_variant_views, "ibd": life_ibd, "tables-of-dropped-collection": life_tables_of_dropped_collection,
             "self-alias": life_self_alias, "pickle-copy": life_pickle_copy}


# ----------------------------------------------------------------------------- low-level argument forms


def ll_stat(ts, which, sizes, flat):
    ll = ts.ll_tree_sequence
    L = ts.sequence_length
    w = np.array([0, L])
    if which == "diversity":
        return ll.diversity(sizes, flat, w, "site", True, False)
    if which == "afs":
        return ll.allele_frequency_spectrum(sizes, flat, w, "branch", True, False)
    if which == "divergence":
        return ll.divergence(sizes, flat, np.array([[0, 0]], dtype=np.int32), w, "branch", True, False, True)
    if which == "divergence_matrix":
        return ll.divergence_matrix(w, sizes, flat, "branch", True)
    if which == "pair_coalescence_counts":
        return ll.pair_coalescence_counts(w, sizes, flat, np.array([[0, 0]], dtype=np.int32), np.zeros(ts.num_nodes, dtype=np.int32), True, False)
    if which == "ibd_between":
        r = ts.dump_tables()._ll_tables.ibd_segments_between(sizes, flat, store_pairs=True, store_segments=True)
        return r.num_segments, r.get_keys()
    if which == "ld":
        return ll.D_matrix(sizes, flat, None, None, None, None, "site")
    raise AssertionError(which)


LL_STATS = ("diversity", "afs", "divergence", "divergence_matrix", "pair_coalescence_counts", "ibd_between", "ld")


def sizes_adv(o):
    ns = len(o.samples)
    out = []
    for sizes in ([ns], [ns + 1], [max(ns - 1, 0)], [ns, 1], [1] * (ns + 1), [0], [], [ns, 0], [2 ** 31], [2 ** 32 - 1], [2 ** 32],
                  [2 ** 32 + ns], [2 ** 63], [1] * ns, [ns // 2, ns - ns // 2]):
        for dt in (np.uint64, np.uint32, np.int32):
            try:
                arr = np.array(sizes, dtype=dt)
            except (OverflowError, ValueError):
                continue
            # more ids claimed than supplied: a call that returns must have read past the end of sample_sets
            must = True if sum(sizes) > ns else None
            out.append((arr, must))
    out += [(None, None), ("a", None), (np.zeros((1, 1), dtype=np.uint64), None), ([ns], None), (np.array([float(ns)]), None),
            (np.array([-1], dtype=np.int64), None)]
    return out


def ll_newick(ts, root, precision, buffer_size, legacy):
    t = _tskit.Tree(ts.ll_tree_sequence)
    t.first()
    return t.get_newick(root=root, precision=precision, buffer_size=buffer_size, legacy_ms_labels=legacy)


def buffer_adv(o):
    t = o.ts.first()
    root = t.roots[0] if t.num_roots else 0
    try:
        exact = len(ll_newick(o.ts, root, 3, 1 << 20, False)) + 1
    except Exception:  # noqa: BLE001
        exact = 8
    vals = sorted(set([-1, 0, 1, 2, 3, exact - 2, exact - 1, exact, exact + 1, 2 * exact, 2 ** 31 - 1, 2 ** 31, 2 ** 63 - 1]))
    return [(v, None) for v in vals] + [(None, None), ("a", None), (1.5, None), (2 ** 63, None)]


def tree_options_forms(ts, form, ids):
    """The tracked-samples / sample-lists options through every constructor form, incl. the deprecated keyword names."""
    vr = ts.num_nodes
    if form == "Tree":
        t = tskit.Tree(ts, tracked_samples=ids, sample_lists=True)
        t.first()
    elif form == "trees":
        return [t.num_tracked_samples(vr) for t in ts.trees(tracked_samples=ids, sample_lists=True)]
    elif form == "trees/tracked_leaves":
        return [t.num_tracked_samples(vr) for t in ts.trees(tracked_leaves=ids, leaf_lists=True, leaf_counts=True)]
    elif form == "aslist":
        return [t.num_tracked_samples(vr) for t in ts.aslist(tracked_samples=ids, sample_lists=True)]
    elif form == "first":
        t = ts.first(tracked_samples=ids, sample_lists=True)
    elif form == "last":
        t = ts.last(tracked_samples=ids)
    elif form == "at":
        t = ts.at(0.0, tracked_samples=ids, sample_lists=True)
    elif form == "at_index":
        t = ts.at_index(-1, tracked_samples=ids)
    elif form == "reversed":
        return [t.num_tracked_samples(vr) for t in reversed(ts.trees(tracked_samples=ids))]
    elif form == "lowlevel":
        t = _tskit.Tree(ts.ll_tree_sequence, tracked_samples=ids)
        t.first()
        return t.get_num_tracked_samples(vr)
    else:
        raise AssertionError(form)
    return t.num_tracked_samples(vr), t.copy().num_tracked_samples(vr)


TREE_FORMS = ("Tree", "trees", "trees/tracked_leaves", "aslist", "first", "last", "at", "at_index", "reversed", "lowlevel")


def ibd_lookup(ts, form, a, b):
    r = ts.ibd_segments(store_pairs=True, store_segments=True)
    if form == "getitem":
        s = r[(a, b)]
    elif form == "get":
        s = r.get((a, b))
    elif form == "contains":
        return (a, b) in r
    elif form == "lowlevel":
        s = r._ll_identity_segments.get(a, b)
    else:
        raise AssertionError(form)
    if s is None:
        return None
    return s.num_segments if hasattr(s, "num_segments") else len(s), s.total_span, np.asarray(s.left), np.asarray(s.node)


def undecoded_variant(ts, member, ll):
    """A Variant that was never decoded (or whose decode failed): every accessor must answer or raise, and must not hand out
    memory that was never written (checked by the fill-pattern / memcheck monitors on the returned arrays)."""
    if ll:
        v = _tskit.Variant(ts.ll_tree_sequence, isolated_as_missing=False)
        seq(lambda: v.decode(ts.num_sites))  # a refused decode must leave it usable
        x = getattr(v, member)
        return x() if callable(x) else x
    v = tskit.Variant(ts, isolated_as_missing=False)
    seq(lambda: v.decode(ts.num_sites))
    x = getattr(v, member)
    return x() if callable(x) else x


LD_NSITES = 4


def ld_ts(ts):
    tc = ts.dump_tables()
    tc.sites.clear()
    tc.mutations.clear()
    L = tc.sequence_length
    for j in range(LD_NSITES):
        pos = L * (j + 0.5) / LD_NSITES
        s = tc.sites.add_row(position=pos, ancestral_state="0")
        under = [e.child for e in tc.edges if e.left <= pos < e.right]
        tc.mutations.add_row(site=s, node=under[j % len(under)] if under else 0, derived_state="1")
    return tc.tree_sequence()


# ----------------------------------------------------------------------------- registration


def register(ns):
    C, Slot, idslot = ns["C"], ns["Slot"], ns["idslot"]
    TYPE_JUNK, BIG = ns["TYPE_JUNK"], ns["BIG"]
    probe_tables = ns["_probe_tables"]
    idlist_adv = ns["_idlist_adv"]
    NODE, NODE_VR = ns["NODE"], ns["NODE_VR"]
    SAMPLE_LIST, BOOLANY, PRECISION = ns["SAMPLE_LIST"], ns["BOOLANY"], ns["PRECISION"]

    def choice(name, values, valid=None):
        values = list(values)
        return Slot(lambda o: values[0] if valid is None else valid, lambda o: [(v, None) for v in values], name)

    # -- record getters of the low-level tree sequence (no Python-level index check in front of them)
    for rec, n_of in (("node", lambda o: o.n), ("edge", lambda o: o.ts.num_edges), ("site", lambda o: o.ts.num_sites),
                      ("mutation", lambda o: o.ts.num_mutations), ("individual", lambda o: o.ts.num_individuals),
                      ("population", lambda o: o.ts.num_populations), ("migration", lambda o: o.ts.num_migrations),
                      ("provenance", lambda o: o.ts.num_provenances)):
        C(f"lowlevel.TreeSequence.get_{rec}", "ts", (lambda rec: lambda ts, a: getattr(ts.ll_tree_sequence, "get_" + rec)(a[0]))(rec),
          [idslot(f"{rec}-id", n_of)])

    # -- table rows by integer, high level (Python indexing) and low level (plain ids)
    for tname in TABLES:
        nrows = (lambda tname: lambda o: getattr(o.tables, tname).num_rows)(tname)
        C(f"{tname}.__getitem__/int", "tables", (lambda tname: lambda tc, a: getattr(tc, tname)[a[0]])(tname),
          [idslot("row(py-index)", nrows, pyindex=True)])
        C(f"{tname}.ll_table.get_row", "tables", (lambda tname: lambda tc, a: getattr(tc, tname).ll_table.get_row(a[0]))(tname),
          [idslot("row-id", nrows)])
        C(f"{tname}.__setitem__/int", "tables",
          (lambda tname: lambda tc, a: (lambda tab: (tab.__setitem__(a[0], tab[0]), list(tab), probe_tables(tc)))(_noschema(getattr(tc, tname))))(tname),
          [idslot("row(py-index)", nrows, pyindex=True)])
        C(f"{tname}.ll_table.update_row", "tables",
          (lambda tname: lambda tc, a: (lambda tab: (tab.ll_table.update_row(row_index=a[0], **dataclasses.asdict(tab[0])), list(tab)))(_noschema(getattr(tc, tname))))(tname),
          [idslot("row-id", nrows)])
        C(f"{tname}.ll_table.extend", "tables",
          (lambda tname: lambda tc, a: (lambda other: (getattr(tc, tname).ll_table.extend(getattr(other, tname).ll_table, row_indexes=a[0]),
                                                       list(getattr(tc, tname)), probe_tables(tc)))(tc.copy()))(tname),
          [Slot((lambda nrows: lambda o: list(range(nrows(o))))(nrows), idlist_adv(nrows), "row-id-list")])
        C(f"{tname}.columns/malformed", "tables",
          (lambda tname: lambda tc, a: apply_columns(tc, tname, a[0][0], mutate_column(_cols(getattr(tc, tname))[a[0][0]], a[0][1]), a[0][2], probe_tables))(tname),
          [Slot((lambda tname: lambda o: (sorted(_cols(getattr(o.tables, tname)))[0], "readonly", "set_columns"))(tname),
                (lambda tname: lambda o: [(v, None) for v in column_mutations(o, tname)])(tname), "column/mutation/form")])
        C(f"{tname}.equals/other-object", "tables", (lambda tname: lambda tc, a: table_vs_other(tc, tname, a[0]))(tname),
          [choice("other-object", OTHER_KINDS)])

    # -- identifier fields of add_row: a value that is not a 32-bit id (or below NULL) must raise, never wrap
    def id_field_adv(o):
        out = [(v, True if (v < -1 or v >= 2 ** 31) else None)
               for v in (-(2 ** 63), -(2 ** 31) - 1, -(2 ** 31), -2, -1, 0, 2 ** 31 - 2, 2 ** 31 - 1, 2 ** 31, 2 ** 32, 2 ** 32 + 1, 2 ** 63 - 1, 2 ** 63)]
        return out + [(v, None) for v in TYPE_JUNK]

    addrow = {"nodes": (dict(flags=0, time=0.0), ("population", "individual")),
              "edges": (dict(left=0.0, right=1.0, parent=0, child=0), ("parent", "child")),
              "mutations": (dict(site=0, node=0, derived_state="A"), ("site", "node", "parent")),
              "migrations": (dict(left=0.0, right=1.0, node=0, source=0, dest=0, time=0.0), ("node", "source", "dest"))}
    for tname, (base, fields) in addrow.items():
        for field in fields:
            def f(tc, a, tname=tname, base=base, field=field):
                tab = getattr(tc, tname)
                kw = dict(base)
                kw[field] = a[0]
                return tab.add_row(**kw), tab.ll_table.add_row(**kw), list(tab)[-2:], probe_tables(tc)
            C(f"{tname}.add_row({field}=)", "tables", f, [Slot(lambda o: 0, id_field_adv, f"{field}-id")])

    # -- growth policy of freshly constructed tables
    def grow(ts, cname, inc):
        tname = {"NodeTable": "nodes", "EdgeTable": "edges", "SiteTable": "sites", "MutationTable": "mutations",
                 "IndividualTable": "individuals", "PopulationTable": "populations", "MigrationTable": "migrations",
                 "ProvenanceTable": "provenances"}[cname]
        src = getattr(ts.tables, tname)
        t = getattr(tskit, cname)(max_rows_increment=inc)
        ll = getattr(_tskit, cname)(max_rows_increment=inc)
        d = _cols(src)
        return seq(lambda: t.set_columns(**d), lambda: t.append_columns(**d), lambda: [t.append(r) for r in _noschema(src.copy())],
                   lambda: (t.max_rows, t.max_rows_increment, t.num_rows), lambda: list(t), lambda: ll.append_columns(d),
                   lambda: ll.append_columns(d), lambda: (ll.max_rows, ll.max_rows_increment, ll.num_rows), lambda: t.copy().equals(t))
    C("Table(max_rows_increment=)", "ts", lambda ts, a: grow(ts, a[0], a[1]),
      [choice("table-class", ["NodeTable", "EdgeTable", "SiteTable", "MutationTable", "IndividualTable", "PopulationTable",
                              "MigrationTable", "ProvenanceTable"]),
       Slot(lambda o: 0, lambda o: [(v, None) for v in [-1, 0, 1, 2, 3, 1024, 2 ** 31 - 1, 2 ** 31, 2 ** 32, 2 ** 62, 2 ** 63 - 1, 2 ** 63,
                                                         None, "a", 1.5]], "max_rows_increment")], reps=2, memcheck=False)

    # -- collections against other collections
    def coll_vs(tc, kind, flag):
        oth = other_collection(tc, kind)
        n = tc.nodes.num_rows
        m = np.arange(n, dtype=np.int32)
        return seq(lambda: tc.equals(oth, ignore_provenance=flag, ignore_metadata=flag), lambda: tc == oth, lambda: tc.assert_equals(oth),
                   lambda: oth.equals(tc), lambda: tc.copy().union(oth, m, check_shared_equality=not flag, add_populations=flag),
                   lambda: tc.copy().union(oth, np.full(getattr(getattr(oth, "nodes", None), "num_rows", 0), -1, dtype=np.int32),
                                           check_shared_equality=False, add_populations=not flag),
                   lambda: oth.copy().union(tc, m, check_shared_equality=flag), lambda: tc._ll_tables.equals(getattr(oth, "_ll_tables", oth)),
                   lambda: probe_tables(tc))
    C("TableCollection.equals/union(other-object)", "tables", lambda tc, a: coll_vs(tc, a[0], a[1]),
      [choice("other-collection", COLLECTION_KINDS), BOOLANY])

    # -- low-level objects that never saw __init__, saw it twice, or lose an attribute
    for cname in LL_CLASSES:
        cls = getattr(_tskit, cname)
        C(f"lowlevel.uninitialised/{cname}", "ts", (lambda cls: lambda ts, a: touch_member(cls.__new__(cls), a[0], extra=((ts.ll_tree_sequence,),)))(cls),
          [choice("member", members(cls) or ["__class__"])], reps=1)
        C(f"lowlevel.initialised-members/{cname}", "ts",
          (lambda cname: lambda ts, a: (lambda x: None if x is None else touch_member(x, a[0]))(ll_instance(ts, cname)))(cname),
          [choice("member", members(cls) or ["__class__"])], reps=3)
    C("lowlevel.reinit", "ts", lambda ts, a: reinit(ts, a[0]), [choice("class", LL_CLASSES)], reps=2)

    # -- lifetimes and aliasing
    C("lifetime", "ts", lambda ts, a: LIFETIMES[a[0]](ts), [choice("scenario", sorted(LIFETIMES))])

    # -- low-level argument forms behind the high-level wrappers
    C("lowlevel.stat(sample_set_sizes)", "ts", lambda ts, a: ll_stat(ts, a[0], a[1], np.array(ts.samples(), dtype=np.int32)),
      [choice("stat", LL_STATS), Slot(lambda o: np.array([len(o.samples)], dtype=np.uint64), sizes_adv, "sample_set_sizes")])
    C("lowlevel.Tree.get_newick", "ts", lambda ts, a: ll_newick(ts, a[0], a[1], a[2], a[3]),
      [Slot(lambda o: (o.ts.first().roots or [0])[0], NODE_VR.adversarial, "root"), PRECISION,
       Slot(lambda o: 1 << 16, buffer_adv, "buffer_size"), BOOLANY], memcheck=False)
    C("lowlevel.Tree.traversals", "ts",
      lambda ts, a: (lambda t: (t.first(), t.get_preorder(a[0]), t.get_postorder(a[0]), t.seek_index(a[1]), t.get_preorder(-1), t.get_sites(),
                                t.get_num_lineages(0.5), t.get_options(), t.get_root_threshold(), seq(lambda: t.set_root_threshold(2)),
                                t.equals(t.copy()), t.clear(), t.get_postorder(-1)))(_tskit.Tree(ts.ll_tree_sequence)),
      [ns["NODE_NULLOK"], ns["TREE_IDX"]])
    C("TableCollection.ibd_segments/between", "tables",
      lambda tc, a: ns["_ibd"](tc.ibd_segments(between=a[0], min_span=a[1], max_time=a[2], store_pairs=True, store_segments=a[3])),
      [ns["SAMPLE_SETS"], ns["FLOATANY"], ns["FLOATANY"], BOOLANY])
    C("Tree options/forms", "ts", lambda ts, a: tree_options_forms(ts, a[0], a[1]), [choice("form", TREE_FORMS), SAMPLE_LIST])
    C("IdentitySegments.lookup", "ts", lambda ts, a: ibd_lookup(ts, a[0], a[1], a[2]),
      [choice("form", ("getitem", "get", "contains", "lowlevel")),
       Slot(lambda o: int(o.samples[0]) if o.samples else 0, NODE.adversarial, "node-a"),
       Slot(lambda o: int(o.samples[-1]) if o.samples else 0, NODE.adversarial, "node-b")])
    hl_members = [m for m in dir(tskit.Variant) if not m.startswith("_")] + ["__str__", "_repr_html_"]
    C("Variant.undecoded", "ts", lambda ts, a: undecoded_variant(ts, a[0], False), [choice("member", hl_members)])
    C("lowlevel.Variant.undecoded", "ts", lambda ts, a: undecoded_variant(ts, a[0], True), [choice("member", members(_tskit.Variant))])
    C("TreeSequence.site-algorithms/wrong-mutation-parents", "ts", lambda ts, a: wrong_parent_entry(ts, a[0][0], a[0][1]),
      [choice("shape/call", [(sh, c) for sh in WRONG_PARENT_SHAPES for c in WRONG_PARENT_CALLS])])
    C("TreeSequence.metadata-columns", "ts", lambda ts, a: seq(*[(lambda n: lambda: getattr(ts, n + "_metadata"))(n) for n in (
        "nodes", "edges", "sites", "mutations", "individuals", "populations", "migrations")])
      + [ts.get_ll_tree_sequence().get_num_nodes(), ts.metadata_schema, ts.time_units, ts.reference_sequence, ts.tables.nbytes]
      + [getattr(ts.ll_tree_sequence, n + "_metadata" + sfx) for n in ("nodes", "edges", "sites", "mutations", "individuals", "populations", "migrations")
         for sfx in ("", "_offset")], [])
    # LdCalculator only accepts infinite-sites data, which the generated models rarely are (the main catalogue's LdCalculator
    # entries mostly stop at the constructor): rebuild the sites as NSITES single-mutation sites on the same trees
    ld_site = idslot("site", lambda o: LD_NSITES)
    C("LdCalculator/infinite-sites", "ts", lambda ts, a: (lambda ld: (ld.r2(a[0], a[1]), ld.get_r2(a[1], a[0]), ld.r2_array(a[0], direction=a[2], max_mutations=a[3], max_distance=a[4]), ld.r2_array(a[1], direction=a[2], max_sites=a[3]),
                                                                     ld.get_r2_array(a[0], direction=tskit.REVERSE), ld.r2_matrix(), ld.get_r2_matrix()))(tskit.LdCalculator(ld_ts(ts))),
      [ld_site, ld_site, choice("direction", [tskit.FORWARD, tskit.REVERSE, 0, 2, -2, None, "a"]),
       choice("max_mutations", [None, -2, -1, 0, 1, LD_NSITES, LD_NSITES + 1, 2 ** 31 - 1, 2 ** 31, 2 ** 60, 2 ** 61, 2 ** 61 + 1, 2 ** 62, 2 ** 63 - 1, "a"]), ns["FLOATANY"]])
    C("lowlevel.LdCalculator/infinite-sites", "ts", lambda ts, a: (lambda ld: (ld.get_r2(a[0], a[1]), ld.get_r2_array(a[0], direction=a[2], max_sites=a[3]), ld.get_r2_array(a[1], a[2], a[3], 0.0)))(
                                                                       _tskit.LdCalculator(ld_ts(ts).ll_tree_sequence)),
      [ld_site, ld_site, choice("direction", [tskit.FORWARD, tskit.REVERSE, 0, 2]), choice("max_sites", [LD_NSITES, 0, 1, LD_NSITES - 1, LD_NSITES + 1, 100, -1, 2 ** 31, 2 ** 60, 2 ** 61, 2 ** 61 + 1, 2 ** 62, 2 ** 63 - 1])])


# ----------------------------------------------------------------------------- more table states (program workload)

NAN, INF = float("nan"), float("inf")
REFS = [("edges", "parent", "nodes"), ("edges", "child", "nodes"), ("mutations", "node", "nodes"), ("mutations", "site", "sites"),
        ("mutations", "parent", "mutations"), ("nodes", "population", "populations"), ("nodes", "individual", "individuals"),
        ("migrations", "node", "nodes"), ("migrations", "source", "populations"), ("migrations", "dest", "populations")]


def _setcol(tab, col, fn):
    a = getattr(tab, col).copy()
    fn(a)
    setattr(tab, col, a)


def c_inrange_ref(rng, tc):
    """A stored id that is IN RANGE but inconsistent: self reference, later row, other site, parent == child."""
    t, c, ref = rng.choice(REFS)
    tab = getattr(tc, t)
    n = getattr(tc, ref).num_rows
    if tab.num_rows == 0 or n == 0:
        return "none"
    j = rng.randrange(tab.num_rows)
    mode = rng.choice(["self", "last", "first", "random", "next"])
    v = {"self": min(j, n - 1), "last": n - 1, "first": 0, "random": rng.randrange(n), "next": min(j + 1, n - 1)}[mode]
    if (t, c) == ("edges", "parent") and mode == "self":
        v = int(tab.child[j])
    _setcol(tab, c, lambda a: a.__setitem__(j, v))
    return f"inrange {t}.{c}:{mode}"


def c_individual_cycle(rng, tc):
    ind = tc.individuals
    if ind.num_rows == 0:
        return "none"
    k = ind.num_rows
    mode = rng.choice(["self", "two-cycle", "all-next", "many-parents"])
    if mode == "self":
        parents = [[j] if j == 0 else [] for j in range(k)]
    elif mode == "two-cycle":
        parents = [[(j + 1) % min(k, 2)] if j < 2 else [] for j in range(k)]
    elif mode == "all-next":
        parents = [[(j + 1) % k] for j in range(k)]
    else:
        parents = [[rng.randrange(k) for _ in range(rng.choice([0, 1, 5, 40]))] for _ in range(k)]
    ind.packset_parents([np.array(p, dtype=np.int32) for p in parents])
    return f"individual parents {mode}"


def c_coords(rng, tc):
    t = rng.choice(["edges", "edges", "migrations", "sites"])
    tab = getattr(tc, t)
    if tab.num_rows == 0:
        return "none"
    j = rng.randrange(tab.num_rows)
    L = tc.sequence_length
    if t == "sites":
        mode = rng.choice(["duplicate-position", "position-L", "position-below-L", "all-zero", "descending"])
        pos = tab.position.copy()
        if mode == "duplicate-position":
            pos[j] = pos[rng.randrange(len(pos))]
        elif mode == "position-L":
            pos[j] = L
        elif mode == "position-below-L":
            pos[j] = np.nextafter(L, 0)
        elif mode == "all-zero":
            pos[:] = 0
        else:
            pos = np.sort(pos)[::-1].copy()
        tab.position = pos
        return f"sites {mode}"
    mode = rng.choice(["left-eq-right", "swap", "both-L", "right-above-L", "left-negzero", "tiny", "zero-length-at-0", "left-below-right"])
    left, right = tab.left.copy(), tab.right.copy()
    if mode == "left-eq-right":
        left[j] = right[j]
    elif mode == "swap":
        left[j], right[j] = right[j], left[j]
    elif mode == "both-L":
        left[j] = right[j] = L
    elif mode == "right-above-L":
        right[j] = np.nextafter(L, INF)
    elif mode == "left-negzero":
        left[j] = -0.0
    elif mode == "tiny":
        left[j], right[j] = 0.0, 5e-324
    elif mode == "zero-length-at-0":
        left[j] = right[j] = 0.0
    else:
        left[j] = np.nextafter(right[j], -INF)
    tab.left = left
    tab.right = right
    return f"{t} {mode}"


def c_times(rng, tc):
    mode = rng.choice(["parent-eq-child-time", "parent-younger", "all-equal", "mutation-below-node", "mutation-above-parent",
                       "mixed-known-unknown-in-site", "plain-nan-mutation-time", "negative-times", "huge-times"])
    nodes, edges, muts = tc.nodes, tc.edges, tc.mutations
    if mode in ("parent-eq-child-time", "parent-younger"):
        if edges.num_rows == 0:
            return "none"
        j = rng.randrange(edges.num_rows)
        p, c = int(edges.parent[j]), int(edges.child[j])
        if not (0 <= p < nodes.num_rows and 0 <= c < nodes.num_rows):
            return "none"
        t = nodes.time.copy()
        t[p] = t[c] if mode == "parent-eq-child-time" else np.nextafter(t[c], -INF)
        nodes.time = t
    elif mode == "all-equal":
        nodes.time = np.zeros(nodes.num_rows)
    elif mode == "negative-times":
        nodes.time = -nodes.time
    elif mode == "huge-times":
        nodes.time = nodes.time * 1e300
    else:
        if muts.num_rows == 0:
            return "none"
        j = rng.randrange(muts.num_rows)
        t = muts.time.copy()
        u = int(muts.node[j])
        nt = nodes.time[u] if 0 <= u < nodes.num_rows else 0.0
        if mode == "mutation-below-node":
            t[j] = np.nextafter(nt, -INF)
        elif mode == "mutation-above-parent":
            t[j] = 1e300
        elif mode == "mixed-known-unknown-in-site":
            same = [k for k in range(muts.num_rows) if muts.site[k] == muts.site[j]]
            for n_, k in enumerate(same):
                t[k] = tskit.UNKNOWN_TIME if n_ % 2 else nt
        else:
            t[j] = NAN  # a NaN that is not tskit.UNKNOWN_TIME
        muts.time = t
    return f"times {mode}"


def c_duplicate_rows(rng, tc):
    t = rng.choice(["edges", "sites", "mutations", "migrations", "nodes", "individuals", "populations"])
    tab = getattr(tc, t)
    if tab.num_rows == 0:
        return "none"
    mode = rng.choice(["append-copy", "all-identical", "double"])
    d = _cols(tab)
    if mode == "append-copy":
        tab.ll_table.extend(tab.copy().ll_table, row_indexes=[rng.randrange(tab.num_rows)])
    elif mode == "double":
        tab.append_columns(**d)
    else:
        k = tab.num_rows
        tab.ll_table.truncate(1)
        tab.ll_table.extend(tab.copy().ll_table, row_indexes=[0] * (k - 1))
    return f"duplicate {t} {mode}"


def c_truncate_referenced(rng, tc):
    """Rows removed from a table that other tables point into: every reference >= the new row count dangles at once."""
    t = rng.choice(["nodes", "nodes", "sites", "populations", "individuals", "mutations"])
    tab = getattr(tc, t)
    if tab.num_rows == 0:
        return "none"
    k = rng.choice([0, tab.num_rows - 1, rng.randrange(tab.num_rows)])
    tab.truncate(k)
    return f"truncate {t}"


def c_sequence_length(rng, tc):
    L = tc.sequence_length
    v = rng.choice([L / 2, L / 4, np.nextafter(L, 0), np.nextafter(L, INF), 5e-324, 1e-300, 2.0 ** 53, 1e308, 1.0])
    try:
        tc.sequence_length = v
    except Exception:  # noqa: BLE001
        return "sequence_length rejected"
    return "sequence_length " + ("smaller" if v < L else "larger")


def c_flags(rng, tc):
    mode = rng.choice(["all-ones", "no-samples", "all-samples", "random", "high-bit"])
    n = tc.nodes.num_rows
    f = {"all-ones": np.full(n, 0xFFFFFFFF, dtype=np.uint32), "no-samples": np.zeros(n, dtype=np.uint32),
         "all-samples": np.ones(n, dtype=np.uint32), "random": np.array([rng.getrandbits(32) for _ in range(n)], dtype=np.uint32),
         "high-bit": np.full(n, 0x80000000, dtype=np.uint32)}[mode]
    tc.nodes.flags = f
    if tc.individuals.num_rows:
        tc.individuals.flags = np.full(tc.individuals.num_rows, 0xFFFFFFFF, dtype=np.uint32)
    return f"flags {mode}"


def c_stale_index(rng, tc):
    """An index that was right for rows that have been rearranged / replaced since (same number of edges)."""
    if tc.edges.num_rows < 2:
        return "none"
    try:
        tc.build_index()
    except Exception:  # noqa: BLE001
        return "none"
    mode = rng.choice(["reverse-rows", "rotate-rows", "rewrite-children", "rewrite-coords"])
    e = tc.edges
    d = _cols(e)
    if mode == "reverse-rows":
        idx = np.arange(e.num_rows)[::-1]
    elif mode == "rotate-rows":
        idx = np.roll(np.arange(e.num_rows), 1)
    else:
        idx = np.arange(e.num_rows)
    keep = tc.indexes
    new = e.copy()
    new.clear()
    new.ll_table.extend(e.ll_table, row_indexes=idx.astype(np.int32))
    if mode == "rewrite-children":
        new.child = new.child[::-1].copy()
    elif mode == "rewrite-coords":
        new.left = np.zeros(new.num_rows)
        new.right = np.full(new.num_rows, tc.sequence_length)
    e.replace_with(new)
    tc.indexes = keep
    return f"stale index {mode}"


def c_blobs(rng, tc):
    mode = rng.choice(["big-metadata-entry", "refseq", "undecodable-metadata", "top-level-metadata", "big-state", "time_units"])
    if mode == "big-metadata-entry":
        t = getattr(tc, rng.choice(["nodes", "edges", "sites", "mutations", "individuals", "populations", "migrations"]))
        if t.num_rows == 0:
            return "none"
        t.metadata_schema = tskit.MetadataSchema(None)
        md = [b""] * t.num_rows
        md[rng.randrange(t.num_rows)] = b"\xbd" * rng.choice([65535, 65536, 70000])
        t.packset_metadata(md)
    elif mode == "refseq":
        tc.reference_sequence.data = "ACGT" * rng.choice([0, 1, 20000])
        tc.reference_sequence.url = "u"
        tc.reference_sequence.metadata_schema = tskit.MetadataSchema({"codec": "json"})
        tc.reference_sequence.metadata = {"k": [1, 2]}
    elif mode == "undecodable-metadata":
        t = tc.nodes
        t.metadata_schema = tskit.MetadataSchema(None)
        t.packset_metadata([b"\xff{not json"] * t.num_rows)
        t.metadata_schema = tskit.MetadataSchema({"codec": "json"})
    elif mode == "top-level-metadata":
        tc.metadata_schema = tskit.MetadataSchema({"codec": "json"})
        tc.metadata = {"a": "x" * rng.choice([0, 10, 70000])}
    elif mode == "big-state":
        if tc.sites.num_rows == 0:
            return "none"
        st = ["A"] * tc.sites.num_rows
        st[rng.randrange(len(st))] = "G" * 70000
        tc.sites.packset_ancestral_state(st)
    else:
        tc.time_units = rng.choice(["", "generations", "x" * 70000, "é"])
    return f"blob {mode}"


MORE_CORRUPTIONS = [c_inrange_ref, c_inrange_ref, c_individual_cycle, c_coords, c_coords, c_times, c_times, c_duplicate_rows,
                    c_truncate_referenced, c_truncate_referenced, c_sequence_length, c_flags, c_stale_index, c_blobs]


def corrupt_more(rng, tc):
    f = rng.choice(MORE_CORRUPTIONS)
    try:
        return f(rng, tc)
    except (tskit.LibraryError, ValueError, TypeError, OverflowError, IndexError) as e:  # the setter refused: the state was not reached
        return f"refused {f.__name__}:{type(e).__name__}"


# ----------------------------------------------------------------------------- more later calls (program workload)


def use_ts_more(rng, ts):
    """A few randomly chosen queries on a tree sequence that was accepted from doubtful tables."""
    s = list(ts.samples())
    L = ts.sequence_length
    calls = [
        lambda: [v.genotypes.sum() for v in ts.variants(isolated_as_missing=rng.random() < 0.5)],
        lambda: list(ts.haplotypes(missing_data_character="N")),
        lambda: [t.as_newick(root=r) for t in ts.trees() for r in t.roots],
        lambda: (ts.diversity(mode="branch"), ts.diversity(mode="site"), ts.diversity(mode="node")),
        lambda: ts.allele_frequency_spectrum(mode="branch", polarised=True),
        lambda: (ts.allele_frequency_spectrum(mode="site", polarised=False), ts.allele_frequency_spectrum(mode="site", polarised=True)),
        lambda: [ts.allele_frequency_spectrum([[u]], mode="site", polarised=p) for u in s[:4] for p in (False, True)],
        lambda: (ts.diversity(mode="site"), ts.segregating_sites(mode="site"), ts.Tajimas_D(mode="site")),
        lambda: ts.ibd_segments(store_pairs=True, store_segments=True).num_segments,
        lambda: ts.kc_distance(ts),
        lambda: [len(e) for _, e, _ in ts.edge_diffs()],
        lambda: ts.extend_haplotypes().num_edges,
        lambda: ts.split_edges(0.75).num_nodes,
        lambda: ts.decapitate(0.75).num_nodes,
        lambda: ts.genealogical_nearest_neighbours(s, [s]) if s else None,
        lambda: ts.mean_descendants([s]) if s else None,
        lambda: ts.ld_matrix() if ts.num_sites else None,
        lambda: ts.pair_coalescence_counts() if len(s) > 1 else None,
        lambda: ts.divergence_matrix(mode="branch"),
        lambda: ts.genetic_relatedness_vector(np.ones((ts.num_samples, 1)), mode="branch"),
        lambda: ts.first().map_mutations(np.zeros(ts.num_samples, dtype=np.int8), ["0"]) if s else None,
        lambda: ts.as_vcf(allow_position_zero=True),
        lambda: ts.draw_text(),
        lambda: ts.delete_intervals([[0, L / 2]]).num_trees,
        lambda: ts.impute_unknown_mutations_time(),
        lambda: ts.subset(list(range(ts.num_nodes))[::2]).num_nodes,
        lambda: [t.num_tracked_samples(t.virtual_root) for t in ts.trees(tracked_samples=s[:2], sample_lists=True)],
        lambda: ts.tables.equals(ts.dump_tables()),
        lambda: pickle.loads(pickle.dumps(ts)).num_trees,
        lambda: (ts.max_root_time if s else None, ts.min_time, ts.max_time, ts.individuals_time, ts.individuals_population),
        lambda: tskit.LdCalculator(ts).r2_matrix() if ts.num_sites else None,
        lambda: ts.Fst([s[:1], s[1:]]) if len(s) > 1 else None,
        lambda: [list(t.nodes(order="minlex_postorder")) for t in ts.trees()],
    ]
    out = []
    for f in rng.sample(calls, 4):
        out += seq(f)
    return out


def more_ops(rng, tc, pristine):
    """(name, thunk) later calls added by the audit; `pristine` is the valid collection the corrupted one started from."""
    n = tc.nodes.num_rows
    L = tc.sequence_length
    some = lambda: [rng.randrange(n) for _ in range(rng.randint(1, 3))] if n else []  # noqa: E731
    tname = rng.choice(TABLES)
    tab = getattr(tc, tname)
    mask = np.array([rng.random() < 0.6 for _ in range(tab.num_rows)], dtype=bool)
    flag = lambda: rng.random() < 0.5  # noqa: E731

    def ts_more():
        return use_ts_more(rng, tc.tree_sequence())

    def mapping(m, other):
        k = other.nodes.num_rows
        if m == "identity":
            return np.array([j if j < n else -1 for j in range(k)], dtype=np.int32)
        if m == "null":
            return np.full(k, -1, dtype=np.int32)
        return np.array([rng.choice([-1, rng.randrange(n)]) if n else -1 for _ in range(k)], dtype=np.int32)

    return [
        (f"keep_rows:{tname}", lambda: (tab.keep_rows(mask), list(tab))),
        (f"getitem-mask:{tname}", lambda: tab[mask]),
        (f"truncate:{tname}", lambda: tab.truncate(rng.randint(0, tab.num_rows))),
        ("subset_opts", lambda: tc.subset(some(), reorder_populations=flag(), remove_unreferenced=flag())),
        ("subset_all", lambda: tc.subset(np.arange(n, dtype=np.int32)[::-1], remove_unreferenced=False)),
        ("union_valid_other", lambda: tc.union(pristine.copy(), mapping(rng.choice(["identity", "null", "random"]), pristine),
                                               check_shared_equality=flag(), add_populations=flag())),
        ("union_into_valid", lambda: pristine.copy().union(tc, mapping(rng.choice(["identity", "null", "random"]), tc),
                                                           check_shared_equality=flag(), add_populations=flag())),
        ("simplify_opts", lambda: tc.simplify(some() if flag() else None, filter_sites=flag(), filter_populations=flag(), filter_individuals=flag(),
                                              filter_nodes=flag(), keep_unary=flag(), keep_input_roots=flag(), reduce_to_site_topology=flag(),
                                              update_sample_flags=flag())),
        ("simplify_kuii", lambda: tc.simplify(keep_unary_in_individuals=True)),
        ("sort_starts", lambda: tc.sort(edge_start=rng.randint(0, tc.edges.num_rows), site_start=rng.choice([0, tc.sites.num_rows]),
                                        mutation_start=rng.choice([0, tc.mutations.num_rows]))),
        ("canonicalise_keep", lambda: tc.canonicalise(remove_unreferenced=False)),
        ("map_ancestors", lambda: list(tc.map_ancestors(some(), some()))),
        ("ts_more", ts_more),
        ("load_tables", lambda: tskit.TreeSequence.load_tables(tc.copy(), build_indexes=True).num_trees),
        ("delete_sites_all", lambda: tc.delete_sites(np.arange(tc.sites.num_rows, dtype=np.int32))),
        ("keep_intervals_edges", lambda: tc.keep_intervals([[0, L / 4], [L / 2, L]], simplify=flag(), record_provenance=False)),
        ("pickle", lambda: pickle.loads(pickle.dumps(tc)).equals(tc)),
        ("replace_with_valid", lambda: (tab.replace_with(getattr(pristine, tname)), list(tab))),
        ("extend_from_valid", lambda: tab.ll_table.extend(getattr(pristine, tname).copy().ll_table,
                                                          row_indexes=np.arange(getattr(pristine, tname).num_rows, dtype=np.int32))),
        ("equals_valid", lambda: (tc.equals(pristine), pristine.equals(tc, ignore_metadata=True), tab.equals(getattr(pristine, tname)))),
        ("assert_equals_valid", lambda: tc.assert_equals(pristine)),
        ("nbytes_copy_clear", lambda: (tc.nbytes, tc.copy().clear(clear_provenance=True, clear_metadata_schemas=True))),
        ("lwt", lambda: (lambda lwt: (lwt.fromdict(tc.asdict()), lwt.asdict()))(_tskit.LightweightTableCollection())),
        ("rows_decoded", lambda: [repr(r) for name in TABLES for r in getattr(tc, name)][:5]),
        ("html", lambda: (tc._repr_html_(), str(tc.nodes), tab._repr_html_())),
        ("ibd_opts", lambda: tc.ibd_segments(within=some() if flag() else None, min_span=rng.choice([0, L / 2, L, -1.0]),
                                             max_time=rng.choice([0, 0.5, 1e300, INF]), store_pairs=flag(), store_segments=flag()).num_segments),
        ("delete_older_opts", lambda: tc.delete_older(rng.choice([-INF, -1.0, 0.0, 0.5, 1e300, INF]))),
        ("cmp_after_sort", lambda: (tc.sort(), tc.compute_mutation_parents(), tc.compute_mutation_times())),
    ]


# ----------------------------------------------------------------------------- accepted tree sequences with WRONG mutation parents
# tree_sequence() checks that a mutation's parent is an earlier mutation of the same site, not that it is the nearest mutation
# above it in the tree.  Such a tree sequence is a legal argument of every TreeSequence method, and the site algorithms that
# add/subtract allele counts along mutation parents see counts outside [0, n] on it.

WRONG_PARENT_SHAPES = ("lower-null", "same-state-null", "back-to-ancestral-null", "sibling-parent", "parent-is-descendant",
                       "three-nested-null", "chain-to-first")


def wrong_parent_ts(ts, shape):
    """-> (tree sequence, site id, samples under the lower mutation) or None when `ts` has no parent-child pair to use.
    A deterministic function of (ts, shape): the candidate whose lower node has most samples below it is used."""
    best = None
    for tree in ts.trees():
        for d in tree.nodes():
            a = tree.parent(d)
            if a == tskit.NULL:
                continue
            k = tree.num_samples(d)
            if k > 0 and (best is None or k > best[0]):
                best = (k, tree.interval.left, tree.interval.right, a, d, list(tree.samples(d)),
                        [c for c in tree.children(a) if c != d], [c for c in tree.children(d)])
    if best is None:
        return None
    _, left, right, a, d, lower, sibs, kids = best
    tc = ts.dump_tables()
    used = set(tc.sites.position)
    pos = next((left + (right - left) * k / 16 for k in range(16) if left + (right - left) * k / 16 not in used), None)
    if pos is None:
        return None
    tc.mutations.time = np.full(tc.mutations.num_rows, tskit.UNKNOWN_TIME)  # unknown everywhere: no time-order requirement
    s = tc.sites.add_row(position=pos, ancestral_state="0")
    add = lambda node, state, parent=-1: tc.mutations.add_row(site=s, node=node, derived_state=state, parent=parent)  # noqa: E731
    if shape == "lower-null":
        add(a, "1")
        add(d, "2")
    elif shape == "same-state-null":
        add(a, "1")
        add(d, "1")
    elif shape == "back-to-ancestral-null":
        add(a, "1")
        add(d, "0")
    elif shape == "sibling-parent":
        m0 = add(sibs[0] if sibs else a, "1")
        add(d, "2", m0)
    elif shape == "parent-is-descendant":
        m0 = add(d, "1")
        add(a, "2", m0)
    elif shape == "three-nested-null":
        add(a, "1")
        add(d, "2")
        add(kids[0] if kids else d, "1")
    else:  # chain-to-first: everything hangs off the first mutation whatever the topology
        m0 = add(d, "1")
        add(a, "2", m0)
        add(kids[0] if kids else d, "3", m0)
        add(sibs[0] if sibs else a, "1", m0)
    tc.sort()
    site_id = int(np.where(tc.sites.position == pos)[0][0])
    tc.build_index()
    return tc.tree_sequence(), site_id, [int(u) for u in lower]


def wrong_parent_calls(w, site, lower):
    s = [int(u) for u in w.samples()]
    rest = [u for u in s if u not in set(lower)] or s[:1]
    L = w.sequence_length
    afs = lambda sets, pol, **kw: (lambda: w.allele_frequency_spectrum(sets, polarised=pol, mode="site", span_normalise=False, **kw))  # noqa: E731
    return {
        "afs-lower": [afs([lower], False), afs([lower], True)],
        "afs-lower-rest": [afs([lower, rest], False), afs([lower, rest], True), afs([rest], False), afs([rest], True)],
        "afs-all": [afs(None, False), afs(None, True), afs(None, False, windows="sites"), afs(None, True, windows=[0, L / 2, L]),
                    afs([s], False), afs([lower, lower], True)],
        "afs-singletons": [afs([[u]], pol) for u in s[:6] for pol in (False, True)],
        "one-way": [lambda: w.diversity([lower], mode="site"), lambda: w.segregating_sites([lower], mode="site"), lambda: w.Tajimas_D([lower], mode="site"),
                    lambda: w.Y1([lower + rest], mode="site"), lambda: w.diversity(mode="site", windows="sites")],
        "k-way": [lambda: w.divergence([lower, rest], mode="site"), lambda: w.Fst([lower, rest], mode="site"), lambda: w.f2([lower, rest], mode="site"),
                  lambda: w.Y2([lower, rest], mode="site"), lambda: w.f3([lower, rest, s], mode="site"), lambda: w.f4([lower, rest, s, s], mode="site"),
                  lambda: w.genetic_relatedness([lower, rest], mode="site"), lambda: w.divergence_matrix([lower, rest], mode="site"),
                  lambda: w.genetic_relatedness_matrix([lower, rest], mode="site")],
        "general": [lambda: w.general_stat(np.ones((w.num_samples, 1)), lambda x: x, 1, mode="site", strict=False, polarised=False),
                    lambda: w.general_stat(np.ones((w.num_samples, 1)), lambda x: x, 1, mode="site", strict=False, polarised=True),
                    lambda: w.sample_count_stat([lower, rest], lambda x: x, 2, mode="site", strict=False),
                    lambda: w.trait_covariance(np.arange(w.num_samples, dtype=float).reshape(-1, 1), mode="site"),
                    lambda: w.trait_linear_model(np.arange(w.num_samples, dtype=float).reshape(-1, 1), mode="site"),
                    lambda: w.genetic_relatedness_weighted(np.ones((w.num_samples, 2)), mode="site")],
        "genotypes": [lambda: w.genotype_matrix(isolated_as_missing=False), lambda: [v.genotypes for v in w.variants(samples=lower, isolated_as_missing=False)],
                      lambda: tskit.Variant(w, samples=list(range(w.num_nodes)), isolated_as_missing=False).decode(site),
                      lambda: list(w.haplotypes(missing_data_character="N")), lambda: w.as_vcf(allow_position_zero=True),
                      lambda: (lambda v: (v.decode(site), v.counts(), v.frequencies()))(tskit.Variant(w))],
        "simplify": [lambda: w.simplify(lower).allele_frequency_spectrum(mode="site"), lambda: w.simplify().genotype_matrix(),
                     lambda: w.simplify(lower, filter_sites=False, keep_unary=True).allele_frequency_spectrum(polarised=True),
                     lambda: w.subset(lower + rest).allele_frequency_spectrum(), lambda: w.keep_intervals([[0, L / 2]]).num_mutations,
                     lambda: w.delete_sites([site]).num_sites, lambda: w.trim().num_sites, lambda: w.decapitate(0.75).allele_frequency_spectrum()],
        "ld": [lambda: w.ld_matrix(stat=st) for st in ("r2", "D", "D2", "pi2", "Dz", "D_prime", "r", "D2_unbiased")]
              + [lambda: w.ld_matrix(sample_sets=[lower, rest]), lambda: tskit.LdCalculator(w).r2_matrix(),
                 lambda: w.ld_matrix(sites=[[site], [site]], stat="D")],
        "tables": [lambda: (lambda tc: (tc.compute_mutation_parents(), tc.tree_sequence().allele_frequency_spectrum()))(w.dump_tables()),
                   lambda: w.impute_unknown_mutations_time(), lambda: w.extend_haplotypes().num_mutations, lambda: w.split_edges(0.75).num_mutations,
                   lambda: (lambda tc: (tc.compute_mutation_times(), tc.tree_sequence()))(w.dump_tables()),
                   lambda: pickle.loads(pickle.dumps(w)).allele_frequency_spectrum(polarised=True),
                   lambda: [t.map_mutations(np.array([v.genotypes for v in w.variants(isolated_as_missing=False)][site]), list("0123")) for t in w.trees()][:1],
                   lambda: [(t.num_mutations, [m.parent for m in t.mutations()]) for t in w.trees()], lambda: w.draw_svg(), lambda: str(w.tables.mutations)],
    }


WRONG_PARENT_CALLS = ("afs-lower", "afs-lower-rest", "afs-all", "afs-singletons", "one-way", "k-way", "general", "genotypes", "simplify", "ld", "tables")


def wrong_parent_entry(ts, shape, call):
    r = wrong_parent_ts(ts, shape)
    if r is None:
        return None
    w, site, lower = r
    return seq(*wrong_parent_calls(w, site, lower)[call])


def c_wrong_mutation_parent(rng, tc):
    """Program workload: every parent at a site with several mutations becomes NULL or the site's first mutation (accepted by
    tree_sequence(): same site, earlier row)."""
    mu = tc.mutations
    sites = [int(s) for s in set(mu.site) if list(mu.site).count(s) >= 2]
    if not sites:
        return "none"
    s = rng.choice(sorted(sites))
    rows = [j for j in range(mu.num_rows) if mu.site[j] == s]
    mode = rng.choice(["all-null", "all-first", "shifted"])
    par = mu.parent.copy()
    for n_, j in enumerate(rows):
        par[j] = -1 if (mode == "all-null" or n_ == 0) else (rows[0] if mode == "all-first" else rows[max(0, n_ - 2)])
    mu.parent = par
    mu.time = np.full(mu.num_rows, tskit.UNKNOWN_TIME)
    return f"wrong mutation parents {mode}"


MORE_CORRUPTIONS += [c_wrong_mutation_parent, c_wrong_mutation_parent]


# ----------------------------------------------------------------------------- table algorithms on in-range but mis-ordered mutation parents
# (found by the memcheck companion during the audit: simplify read its mutation id map at a LATER row's slot before writing it)

PARENT_ORDER_SHAPES = ("next-row", "last-row", "two-cycle", "other-site-later", "chain-reversed")
PARENT_ORDER_CALLS = ("simplify", "simplify-samples", "subset", "union", "sort", "delete_older", "keep_intervals", "delete_sites", "trim",
                      "compute_mutation_parents", "compute_mutation_times", "canonicalise", "deduplicate_sites", "keep_rows", "tree_sequence",
                      "link_ancestors", "ibd", "fromdict", "dump-load")


def misordered_parents(tc, shape):
    """Give site 0 of a copy of `tc` three mutations whose parent column points at LATER rows."""
    tc = tc.copy()
    tc.migrations.clear()
    n = tc.nodes.num_rows
    if tc.sites.num_rows == 0:
        tc.sites.add_row(position=0.0, ancestral_state="0")
        tc.sort()
    mu = tc.mutations
    first = [j for j in range(mu.num_rows) if mu.site[j] == 0]
    base = (first[-1] + 1) if first else 0
    rows = list(mu)
    mu.clear()
    for r in rows[:base]:
        mu.append(r)
    k = base
    par = {"next-row": (k + 1, k + 2, -1), "last-row": (k + 2, k + 2, -1), "two-cycle": (k + 1, k, -1),
           "other-site-later": (mu.num_rows + 3 + max(0, len(rows) - base) - 1, -1, -1), "chain-reversed": (k + 2, k, k + 1)}[shape]
    for j in range(3):
        mu.add_row(site=0, node=j % n, derived_state=str(j + 1), parent=par[j], time=tskit.UNKNOWN_TIME)
    for r in rows[base:]:
        mu.append(r.replace(parent=-1 if r.parent == -1 else r.parent + 3))
    mu.time = np.full(mu.num_rows, tskit.UNKNOWN_TIME)
    return tc


def parent_order_entry(tc, shape, call):
    import tempfile
    t = misordered_parents(tc, shape)
    n = t.nodes.num_rows
    L = t.sequence_length
    samples = [j for j in range(n) if t.nodes.flags[j] & 1]
    f = {
        "simplify": lambda: t.simplify(),
        "simplify-samples": lambda: t.simplify(samples[:2] or [0], keep_unary=True, filter_sites=False),
        "subset": lambda: t.subset(np.arange(n, dtype=np.int32)[::-1]),
        "union": lambda: t.union(t.copy(), np.arange(n, dtype=np.int32), check_shared_equality=False),
        "sort": lambda: t.sort(),
        "delete_older": lambda: t.delete_older(0.5),
        "keep_intervals": lambda: t.keep_intervals([[0, L / 2]], simplify=False),
        "delete_sites": lambda: t.delete_sites([t.sites.num_rows - 1]),
        "trim": lambda: t.trim(),
        "compute_mutation_parents": lambda: t.compute_mutation_parents(),
        "compute_mutation_times": lambda: t.compute_mutation_times(),
        "canonicalise": lambda: t.canonicalise(),
        "deduplicate_sites": lambda: t.deduplicate_sites(),
        "keep_rows": lambda: t.mutations.keep_rows(np.arange(t.mutations.num_rows) % 2 == 0),
        "tree_sequence": lambda: t.tree_sequence().num_mutations,
        "link_ancestors": lambda: t.link_ancestors(samples or [0], list(range(n))).num_rows,
        "ibd": lambda: t.ibd_segments().num_segments,
        "fromdict": lambda: tskit.TableCollection.fromdict(t.asdict()).mutations.parent,
        "dump-load": None,
    }[call]
    if f is None:
        with tempfile.NamedTemporaryFile() as tmp:
            t.dump(tmp.name)
            return tskit.TableCollection.load(tmp.name).asdict()
    try:
        guarded(f)
    except SystemError:
        raise
    except Exception:  # noqa: BLE001 - refusing is fine; what matters is what the tables hold afterwards
        pass
    return t.asdict()


_register_core = register


def register(ns):  # noqa: F811
    _register_core(ns)
    C, Slot = ns["C"], ns["Slot"]
    values = [(sh, c) for sh in PARENT_ORDER_SHAPES for c in PARENT_ORDER_CALLS]
    C("TableCollection.algorithms/mutation-parent-after-child", "tables", lambda tc, a: parent_order_entry(tc, a[0][0], a[0][1]),
      [Slot(lambda o: values[0], lambda o: [(v, None) for v in values], "shape/call")])


# ----------------------------------------------------------------------------- bulk growth (class c: > 2^21 rows in ONE operation)
# The capacity code doubles, caps one growth step at 2^21 extra rows (ragged columns: 100 MiB extra bytes) and then takes the
# maximum with what is needed; only an operation that adds MORE than the cap beyond the current capacity reaches that last line.
# Every fixed-size column buffer is too small if it is wrong, on perfectly valid input.  Oracle: ASan at the memcpy, plus the
# rows read back (num_rows, first / middle / last element of every column).

CAP = 2 ** 21
N1 = CAP + 1
N2 = 2 * CAP + 1000


def bulk_columns(tname, n, k0=0):
    idx = np.arange(k0, k0 + n)
    one = (idx % 100).astype(np.int8)            # one byte per row in the ragged column that is filled
    off = np.arange(n + 1, dtype=np.uint64)
    zoff = np.zeros(n + 1, dtype=np.uint64)
    empty = np.zeros(0, dtype=np.int8)
    i32 = lambda a: a.astype(np.int32)  # noqa: E731
    if tname == "nodes":
        return dict(flags=(idx % 2).astype(np.uint32), time=idx.astype(np.float64), population=np.full(n, -1, dtype=np.int32),
                    individual=i32(idx % 7 - 1), metadata=one, metadata_offset=off)
    if tname == "edges":
        return dict(left=(idx % 5).astype(np.float64), right=(idx % 5 + 1).astype(np.float64), parent=i32(idx % 1000 + 1000), child=i32(idx % 1000),
                    metadata=empty, metadata_offset=zoff)
    if tname == "sites":
        return dict(position=idx.astype(np.float64), ancestral_state=one, ancestral_state_offset=off, metadata=empty, metadata_offset=zoff)
    if tname == "mutations":
        return dict(site=i32(idx % 1000), node=i32(idx % 77), derived_state=one, derived_state_offset=off, parent=np.full(n, -1, dtype=np.int32),
                    time=idx.astype(np.float64), metadata=empty, metadata_offset=zoff)
    if tname == "individuals":
        return dict(flags=(idx % 3).astype(np.uint32), location=idx.astype(np.float64), location_offset=off, parents=np.zeros(0, dtype=np.int32),
                    parents_offset=zoff, metadata=empty, metadata_offset=zoff)
    if tname == "populations":
        return dict(metadata=one, metadata_offset=off)
    if tname == "migrations":
        return dict(left=(idx % 5).astype(np.float64), right=(idx % 5 + 1).astype(np.float64), node=i32(idx % 77), source=i32(idx % 3), dest=i32(idx % 2),
                    time=idx.astype(np.float64), metadata=empty, metadata_offset=zoff)
    if tname == "provenances":
        return dict(timestamp=one, timestamp_offset=off, record=one, record_offset=off)
    raise AssertionError(tname)


def bulk_cases(tier):
    out = [("nodes", N2, "set_columns", 0, 0), ("nodes", N1, "append_columns", 10, 0), ("nodes", N2, "collection", 0, 0),
           ("edges", N2, "append_columns", 0, 0), ("mutations", N1, "set_columns", 10, 0), ("sites", N2, "extend", 10, 0),
           ("nodes", N2, "append_columns", 0, 1000), ("individuals", N1, "append_columns", 3, 0), ("migrations", N1, "extend", 0, 0),
           ("populations", N2, "set_columns", 0, 0), ("provenances", N1, "append_columns", 1, CAP + 5), ("provenances", 1, "one-big-entry", 0, 0),
           ("edges", N1, "fromdict", 0, 0), ("nodes", N1, "append_twice", 2000, 0)]
    if tier != "quick":
        out += [(t, n, f, s, 0) for t in TABLES for n in (N1, N2) for f in ("set_columns", "append_columns", "extend") for s in (0, 1500)]
    for t, n, form, start, inc in out:
        yield {"gen": "bulk", "table": t, "rows": n, "form": form, "start": start, "increment": inc}


def _check_rows(ctx, key, desc, tab, expect, n0):
    """`expect`: the columns appended last; they must be the last n rows of `tab`."""
    ctx.count("bulk-readbacks")
    n = len(next(v for k, v in expect.items() if k.endswith("_offset"))) - 1
    if tab.num_rows != n0 + n:
        ctx.violation(f"bulk/{key}/num_rows", f"{desc}: num_rows {tab.num_rows}, expected {n0 + n}")
        return
    for col, want in expect.items():
        if col in RAGGED or col.endswith("_offset"):
            continue
        got = getattr(tab, col)
        for pos in (0, n // 2, n - 1):
            if not (got[n0 + pos] == want[pos] or (want[pos] != want[pos] and got[n0 + pos] != got[n0 + pos])):
                ctx.violation(f"bulk/{key}/column-differs", f"{desc}: {col}[{n0 + pos}] = {got[n0 + pos]!r}, stored {want[pos]!r}")
                return
        del got
    for col in RAGGED:
        if col in expect and len(expect[col]) == n:  # one byte per row
            got = getattr(tab, col)
            o = getattr(tab, col + "_offset")
            if int(o[-1]) - int(o[n0]) != n or got[-1] != expect[col][-1] or got[int(o[n0])] != expect[col][0]:
                ctx.violation(f"bulk/{key}/ragged-differs", f"{desc}: ragged column {col}: last offset {int(o[-1])} - {int(o[n0])}, last byte {got[-1]!r}")
                return
            del got, o
    row = tab[tab.num_rows - 1]
    mid = tab[n0 + n // 2]
    del row, mid


RAGGED = ("metadata", "ancestral_state", "derived_state", "location", "parents", "timestamp", "record")


def run_bulk(case, ctx):
    import tempfile
    tname, n, form, start, inc = case["table"], case["rows"], case["form"], case["start"], case["increment"]
    desc = f"bulk {tname} +{n} rows via {form} (table had {start} rows, max_rows_increment={inc})"
    ctx.sig(("bulk", tname, n, form, start, inc), nontrivial=True)
    ctx.feature(f"bulk:{form}")
    ctx.feature(f"bulk-rows:{'>2*2^21' if n >= N2 else ('>2^21' if n >= N1 else 'few')}")
    ctx.step(desc)
    ctx.count("bulk-cases")
    cls = type(getattr(tskit.TableCollection(1.0), tname))
    key = f"{tname}/{form}"
    if form == "one-big-entry":
        # the ragged-column counterpart: one entry larger than the 100 MiB growth cap
        size = 104857600 + 4097
        t = cls()
        t.add_row(record="r" * size, timestamp="t")
        t.add_row(record="s" * 10, timestamp="t" * 70000)
        rec = t.record
        ok = t.num_rows == 2 and len(rec) == size + 10 and rec[size - 1] == ord("r") and rec[-1] == ord("s") and t[0].record[-3:] == "rrr"
        ctx.count("bulk-readbacks")
        if not ok:
            ctx.violation(f"bulk/{key}/ragged-differs", f"{desc}: record column of a {size}-byte entry read back differently")
        return
    t = cls(max_rows_increment=inc) if inc else cls()
    if start:
        t.append_columns(**bulk_columns(tname, start, k0=5))
    cols = bulk_columns(tname, n)
    n0 = t.num_rows
    if form == "set_columns":
        t.set_columns(**cols)
        n0 = 0
    elif form == "append_columns":
        t.append_columns(**cols)
    elif form == "append_twice":
        t.append_columns(**cols)
        _check_rows(ctx, key, desc, t, cols, n0)
        n0 = t.num_rows
        t.append_columns(**cols)  # capacity is now > 2^21: the doubling step is capped and less than what is needed
    elif form == "extend":
        src = cls()
        src.set_columns(**cols)
        t.ll_table.extend(src.ll_table, row_indexes=np.arange(n, dtype=np.int32))
        del src
    elif form == "fromdict":
        tc = tskit.TableCollection(1.0)
        getattr(tc, tname).set_columns(**cols)
        d = tc.asdict()
        del tc
        tc2 = tskit.TableCollection.fromdict(d)
        del d
        t = getattr(tc2, tname)
        n0 = 0
    elif form == "collection":
        tc = tskit.TableCollection(10.0)
        cols["individual"] = np.full(n, -1, dtype=np.int32)  # a valid tree sequence: no individual table here
        tc.nodes.set_columns(**cols)
        _check_rows(ctx, key + "/set", desc, tc.nodes, cols, 0)
        c2 = tc.copy()
        _check_rows(ctx, key + "/copy", desc + " then TableCollection.copy()", c2.nodes, cols, 0)
        del c2
        with tempfile.NamedTemporaryFile() as f:
            tc.dump(f.name)
            c3 = tskit.TableCollection.load(f.name)
        _check_rows(ctx, key + "/dump-load", desc + " then dump + load", c3.nodes, cols, 0)
        del c3
        tc.populations.add_row()
        ts = tc.tree_sequence()
        del tc
        ok = ts.num_nodes == n and ts.nodes_time[-1] == cols["time"][-1] and ts.node(n - 1).time == cols["time"][-1] and ts.num_samples == int(cols["flags"].sum())
        ctx.count("bulk-readbacks")
        if not ok:
            ctx.violation(f"bulk/{key}/tree-sequence-differs", f"{desc} then tree_sequence(): node columns read back differently")
        c4 = ts.dump_tables()
        del ts
        _check_rows(ctx, key + "/dump_tables", desc + " then tree_sequence().dump_tables()", c4.nodes, cols, 0)
        return
    else:
        raise AssertionError(form)
    _check_rows(ctx, key, desc, t, cols, n0)
    if t.max_rows < t.num_rows:
        ctx.violation(f"bulk/{key}/capacity", f"{desc}: max_rows {t.max_rows} < num_rows {t.num_rows}")
    # a later call on the grown table
    keep = np.zeros(t.num_rows, dtype=bool)
    keep[-3:] = True
    t.keep_rows(keep)
    if t.num_rows != 3:
        ctx.violation(f"bulk/{key}/keep_rows", f"{desc}: keep_rows(last three) left {t.num_rows} rows")
