from lib.props.meta_common import ASSUME_COMMON

ID = "C06"
META = dict(
    LEVEL="exploration",
    RULE=("operation histories over {first,last,next,prev,clear,copy,seek_index(i) for every i and out-of-range i, "
          "seek(x) at each tree's left/mid/nextafter(right) and out-of-range/NaN x}: exhaustive depth-bounded DFS "
          "(prefixes shared through Tree.copy()) on 4 hand-built tree sequences x 4 option sets and on generated small tree "
          "sequences, plus random walks of 20-80 operations on larger generated tree sequences; after EVERY operation the "
          "observable state (index, interval, parent, child sets, counts, tracked counts, sample lists, edge array, roots, "
          "sites, mutations) is compared with a fresh Tree seeked to the model index and with the reference forest. "
          "Distinct = sha1 of (workload kind, input rows, option set)."),
    REQUIRED=["steps", "state-comparisons", "reference-checks", "error-transitions", "dfs-runs", "walks"],
    ASSUMPTIONS=ASSUME_COMMON + ["Tree.copy() is used to share DFS prefixes; random walks never copy unless the walk draws it"],
    HANG_IS_VIOLATION=True,
    BUDGET={"quick": 50.0, "thorough": 900.0},
)
