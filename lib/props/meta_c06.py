from lib.props.meta_common import ASSUME_COMMON

ID = "C06"
META = dict(
    LEVEL="exploration",
    RULE=("operation histories over {first,last,next,prev,clear,copy,seek_index(i) for every i, seek(x) at each tree's "
          "left/mid/nextafter(right), one failing call of each kind}: exhaustive depth-bounded DFS (prefixes shared through "
          "Tree.copy(); every DFS node re-compared after its copies moved) on 6 hand-built tree sequences x 4 option sets and on "
          "generated small tree sequences, with a probe set applied at the DFS nodes and drawn in walks: exact boundaries "
          "(-0.0, +-5e-324, L/2 and its neighbours, nextafter(L), +-inf, NaN, index -T, -T-1, 2^31-1, 2^31, 2^32, 2^32+T-1, 2^64), "
          "argument forms (keyword, numpy float32/float64/int32/int64 scalars, integer positions, negative spelling of every "
          "index, the low-level object with valid and invalid arguments); plus random walks of 20-80 operations that start "
          "from each way of obtaining a Tree (constructor with tracked samples as list/tuple/array/positional, "
          "TreeSequence.first/last/at/at_index/aslist, the trees() iterator and its reverse with next(iterator) as an operation, "
          "deprecated keyword aliases), park copies/originals and resume them later, run a second Tree with other options on "
          "the same tree sequence (10 %), on generated inputs (single-tree inputs redrawn in 85 % of cases), msprime inputs "
          "(4 %), inputs with 40-300 trees (8 %) and inputs with 257-300 edges per breakpoint or a 100-deep chain of sample "
          "nodes (1 %). After EVERY operation the observable state (index, interval, parent, child sets, counts, tracked "
          "counts, sample lists, edge array, roots, sites, mutations, num_sites, totals, traversal arrays, ==/!=) is compared "
          "with a fresh Tree seeked to the model index and with the reference forest (the edge-free forest in the null state). "
          "Distinct = sha1 of (workload kind, start form, input rows, option set)."),
    REQUIRED=["steps", "state-comparisons", "reference-checks", "null-reference-checks", "error-transitions", "dfs-runs",
              "walks", "eq-checks", "seek-contains", "seeks-from-null", "boundary-ops", "form-ops", "ll-error-transitions",
              "iterator-steps", "copy-independence", "start-forms", "deep-reference-checks"],
    ASSUMPTIONS=ASSUME_COMMON + ["Tree.copy() is used to share DFS prefixes; random walks copy only when the walk draws it",
                                 "a failed low-level call / a call on an exhausted iterator may leave the tree anywhere: the state "
                                 "is compared at the index the tree reports"],
    HANG_IS_VIOLATION=True,
    BUDGET={"quick": 50.0, "thorough": 900.0},
)
