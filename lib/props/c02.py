"""C02 — only table collections meeting the data-model requirements become tree sequences.

Oracle: an independent validity predicate over the raw rows (written from docs/data-model.md,
"Valid tree sequence requirements", restricted to what the property statement lists).  Tri-state:
  reject  - reject_reasons() finds a violated listed requirement -> every gate entry point MUST raise a
            library error and leave every table row untouched;
  either  - nothing listed is violated, but unlisted_reasons() finds something the docs require and the
            statement does not list (mutation.parent not the mutation above, an individual that is its own
            parent, infinite sequence length, a user-supplied index that is sorted but not the one
            build_index() makes, no index at an entry point that does not build one) -> only 'raises a library
            error or returns' and 'rows untouched' are checked;
  accept  - neither predicate finds anything -> MUST load.  (Before the audit every collection touched by a
            'suspect' operator was 'either' even when the operator had produced a VALID boundary value, e.g.
            mutation time == node time, so a check made too strict went unseen: class (e) of AUDIT-C02.md.)

The verdict is always a function of the rows (and index) actually handed to the gate, never of the operator
that produced them; the operators only steer coverage.

Families (fixed shares, see cases()):
  mutate  - random valid model + 0..4 random operators x random index state (the original workload);
  sweep   - the operator CATALOGUE enumerated round-robin (every column x every boundary value x first/last/random
            row), one departure per case on a model that is forced to have the rows the operator needs;
  index   - the index-fault catalogue (entry out of range / duplicated / reversed / swapped / rotated, first and last
            slot, insertion and removal order) on an otherwise valid model;
  reorder - VALID collections in non-canonical order (renumbered nodes, equal-time parents in any order, individuals
            whose parents come later, equal-time migrations, other valid mutation orders, extreme coordinates);
  large   - structurally extreme instances (255-300 children, depth 300, 260 mutations on one site, 300 sites /
            trees / individuals / migrations, empty collections) with no or one departure in the first or last row.
Entry points: TableCollection.tree_sequence() for every case (plus a second call on the same object) and two
alternates per case, round-robin: tskit.load(path / pathlib.Path / open file), TreeSequence.load(path),
load(skip_reference_sequence=True), TableCollection.load(path).tree_sequence(), TreeSequence.load_tables(tc) with and
without build_indexes (keyword), the low-level _tskit.TreeSequence.load_tables (positional and keyword), and
tree_sequence() of copy() / pickle round trip / fromdict(asdict()) of the collection.
"""
import io
import math
import os
import pathlib
import pickle
import struct
import tempfile

import _tskit
import numpy as np
import tskit

from lib import gen
from lib.harness import case_rng
from lib.model import NODE_IS_SAMPLE, NULL, RowModel, forest, mutation_parents, sort_edges_key
from lib.tsk import from_tables, tables_bytes, to_tables

ID = "C02"
INF = float("inf")
NAN = float("nan")
IMAX = 2 ** 31 - 1
IMIN = -(2 ** 31)


def _bits(u):
    return struct.unpack("<d", struct.pack("<Q", u))[0]


# NaNs that are NOT tskit.UNKNOWN_TIME (one particular quiet-NaN bit pattern): a mutation time holding one of them is
# a non-finite time, not an unknown one.  Derived from the constant so that they differ from it in ONE bit.
_UNKNOWN_BITS = struct.unpack("<Q", struct.pack("<d", tskit.UNKNOWN_TIME))[0]
NAN_NEG_UNKNOWN = _bits(_UNKNOWN_BITS ^ (1 << 63))   # sign bit flipped
NAN_PAYLOAD2 = _bits(_UNKNOWN_BITS ^ 1)              # lowest payload bit flipped
NAN_PAYLOAD_HI = _bits(_UNKNOWN_BITS ^ (1 << 50))    # a high payload bit flipped (still quiet)

# 40 slots per block; the block pattern is rotated so that no worker shard (idx % nshards) sees one family only
_PATTERN = (["mutate"] * 13 + ["fileindex"] + ["sweep"] * 16 + ["index"] * 4 + ["reorder"] * 5 + ["large"] * 1)
_ORDER = [0, 14, 30, 34, 1, 15, 16, 2, 17, 35, 3, 18, 31, 4, 19, 20, 5, 21, 36, 6, 22, 32, 7, 23, 24, 8, 25, 37, 9, 26,
          33, 10, 27, 28, 11, 29, 38, 12, 39, 13]
assert sorted(_ORDER) == list(range(40)) and len(_PATTERN) == 40


def cases(tier, seed):
    n = 12000 if tier == "quick" else 600000
    counters = {}
    for k in range(n):
        q, r = divmod(k, 40)
        fam = _PATTERN[_ORDER[(r + 7 * q) % 40]]
        i = counters.get(fam, 0)
        counters[fam] = i + 1
        yield {"gen": fam, "k": k, "i": i}


# ----------------------------------------------------------------------------- reference predicate


def fin(x):
    return not (math.isnan(x) or math.isinf(x))


def reject_reasons(m, index):
    """m: RowModel read back from the tables through raw columns. index: None or (I, O) lists."""
    R = []
    L = m.L
    if not (L > 0):
        R.append("sequence_length")
        return R
    n, ns, nm = len(m.nodes), len(m.sites), len(m.mutations)
    npop, nind = len(m.populations), len(m.individuals)
    for j, (fl, t, pop, ind, _) in enumerate(m.nodes):
        if not fin(t):
            R.append("node.time-nonfinite")
        if not (-1 <= pop < npop):
            R.append("node.population-range")
        if not (-1 <= ind < nind):
            R.append("node.individual-range")
    for j, (fl, loc, pars, _) in enumerate(m.individuals):
        for p in pars:
            if not (-1 <= p < nind):
                R.append("individual.parents-range")
    edges_ok = True
    for j, (l, r, p, c, _) in enumerate(m.edges):
        if not (0 <= p < n) or not (0 <= c < n):
            R.append("edge.node-range")
            edges_ok = False
            continue
        if not (fin(l) and fin(r)):
            R.append("edge.coord-nonfinite")
            edges_ok = False
            continue
        if not (0 <= l < r <= L):
            R.append("edge.interval")
            edges_ok = False
        if fin(m.nodes[p][1]) and fin(m.nodes[c][1]) and not (m.nodes[p][1] > m.nodes[c][1]):
            R.append("edge.parent-not-older")
            edges_ok = False
    if edges_ok and not any(r.startswith("node.time") for r in R):
        seen = set()
        last = None
        for j, (l, r, p, c, _) in enumerate(m.edges):
            if last is not None:
                pl, pr, pp, pc = last
                if m.nodes[p][1] < m.nodes[pp][1]:
                    R.append("edge.order-parent-time")
                if p != pp and p in seen:
                    R.append("edge.order-noncontiguous-parent")
                if p == pp:
                    if c < pc:
                        R.append("edge.order-child")
                    elif c == pc:
                        if l < pl:
                            R.append("edge.order-left")
                        elif l == pl:
                            R.append("edge.duplicate")
            seen.add(p)
            last = (l, r, p, c)
        # disjoint child intervals
        by_child = {}
        for (l, r, p, c, _) in m.edges:
            by_child.setdefault(c, []).append((l, r))
        for c, ivs in by_child.items():
            ivs.sort()
            for a, b in zip(ivs, ivs[1:]):
                if b[0] < a[1]:
                    R.append("edge.child-intervals-overlap")
    lastpos = None
    sites_ok = True
    for j, (pos, anc, _) in enumerate(m.sites):
        if not fin(pos):
            R.append("site.position-nonfinite")
            sites_ok = False
            continue
        if not (0 <= pos < L):
            R.append("site.position-range")
            sites_ok = False
        if lastpos is not None and pos < lastpos:
            R.append("site.order")
            sites_ok = False
        if lastpos is not None and pos == lastpos:
            R.append("site.duplicate-position")
            sites_ok = False
        lastpos = pos
    muts_ok = True
    lastsite = None
    for k, (s, u, d, p, t, _) in enumerate(m.mutations):
        if not (0 <= s < ns):
            R.append("mutation.site-range")
            muts_ok = False
        if not (0 <= u < n):
            R.append("mutation.node-range")
            muts_ok = False
        if not (-1 <= p < nm):
            R.append("mutation.parent-range")
            muts_ok = False
        if t is not None and not fin(t):
            R.append("mutation.time-nonfinite")
            muts_ok = False
        if lastsite is not None and 0 <= s < ns and s < lastsite:
            R.append("mutation.order-site")
            muts_ok = False
        lastsite = s
    if muts_ok:
        by_site = {}
        for k, (s, u, d, p, t, _) in enumerate(m.mutations):
            by_site.setdefault(s, []).append(k)
            if p == k:
                R.append("mutation.parent-self")
            elif p > k:
                R.append("mutation.parent-after-child")
            if t is not None and fin(m.nodes[u][1]) and t < m.nodes[u][1]:
                R.append("mutation.time-younger-than-node")
            if p != NULL and p < k and m.mutations[p][0] == s:
                pt = m.mutations[p][4]
                if t is not None and pt is not None and t > pt:
                    R.append("mutation.time-older-than-parent-mutation")
        for j, ks in by_site.items():
            kn = [m.mutations[k][4] is not None for k in ks]
            if any(kn) and not all(kn):
                R.append("mutation.time-known-unknown-mix")
            elif ks and all(kn):
                ts_ = [m.mutations[k][4] for k in ks]
                if any(b > a for a, b in zip(ts_, ts_[1:])):
                    R.append("mutation.order-time")
        if edges_ok and sites_ok and not R:
            frs = {}
            for k, (s, u, d, p, t, _) in enumerate(m.mutations):
                if t is None:
                    continue
                if s not in frs:
                    frs[s] = m.forest_at(m.sites[s][0])
                pu = frs[s].get(u, NULL)
                if pu != NULL and not (t < m.nodes[pu][1]):
                    R.append("mutation.time-not-younger-than-parent-node")
    lastt = None
    for (l, r, u, src, dst, t, _) in m.migrations:
        if not (0 <= u < n):
            R.append("migration.node-range")
        if not (0 <= src < npop) or not (0 <= dst < npop):
            R.append("migration.population-range")
        if not fin(t):
            R.append("migration.time-nonfinite")
        elif lastt is not None and fin(lastt) and t < lastt:
            R.append("migration.order-time")
        lastt = t
        if not (fin(l) and fin(r)):
            R.append("migration.coord-nonfinite")
        elif not (0 <= l < r <= L):
            R.append("migration.interval")
    if index is not None and edges_ok:
        I, O = index
        ne = len(m.edges)
        if len(I) != ne or len(O) != ne:
            R.append("index.length")
        elif any(not (0 <= e < ne) for e in I) or any(not (0 <= e < ne) for e in O):
            R.append("index.entry-range")
        elif sorted(I) != list(range(ne)) or sorted(O) != list(range(ne)):
            R.append("index.not-permutation")
        else:
            if any(m.edges[a][0] > m.edges[b][0] for a, b in zip(I, I[1:])):
                R.append("index.insertion-not-sorted-by-left")
            if any(m.edges[a][1] > m.edges[b][1] for a, b in zip(O, O[1:])):
                R.append("index.removal-not-sorted-by-right")
    return R


def unlisted_reasons(m, index, canonical):
    """Only evaluated when reject_reasons() is empty.  Things the documentation requires (or leaves open) but the
    property statement does not list: the EITHER zone, spelled out so that everything else is MUST-ACCEPT."""
    U = []
    if math.isinf(m.L):
        U.append("sequence_length-infinite")   # 'L > 0' is all the docs say
        return U
    # "If another mutation occurs on the tree above the mutation in question, its ID must be listed as the parent"
    # (and hence a parent at another site is wrong too); the statement only lists parent-before-child
    if [x[3] for x in m.mutations] != mutation_parents(m):
        U.append("mutation.parent-topology")
    # "individuals ... parents ... must be valid or null": whether an individual may be its own parent is not said
    for j, (fl, loc, pars, _) in enumerate(m.individuals):
        if j in pars:
            U.append("individual.self-parent")
    # the docs do not say what the index is beyond 'built on the edges': a sorted permutation with another
    # tie-break than build_index() uses is neither promised to load nor to fail
    if index is not None and canonical is not None and (list(index[0]) != list(canonical[0]) or list(index[1]) != list(canonical[1])):
        U.append("index.alternative-tie-break")
    return U


# ----------------------------------------------------------------------------- operators

_ST = {"row": "rand"}


def pick(rng, n, lo=0):
    """Row to change: random in the 'mutate' family, forced first / second / last in the enumerating families
    (loops that skip the first or the last row are a classic planted change)."""
    mode = _ST["row"]
    if n <= lo:
        return lo
    if mode == "first":
        return lo
    if mode == "second":
        return min(lo + 1, n - 1)
    if mode == "last":
        return n - 1
    return rng.randrange(lo, n)


def setcol(tc, table, col, j, v):
    t = getattr(tc, table)
    a = getattr(t, col).copy()
    a[j] = v
    setattr(t, col, a)


def nrows(tc, table):
    return getattr(tc, table).num_rows


REFCOLS = [("edges", "parent", "nodes", False), ("edges", "child", "nodes", False), ("mutations", "node", "nodes", False),
           ("mutations", "site", "sites", False), ("mutations", "parent", "mutations", True),
           ("nodes", "population", "populations", True), ("nodes", "individual", "individuals", True),
           ("migrations", "node", "nodes", False), ("migrations", "source", "populations", False),
           ("migrations", "dest", "populations", False), ("individuals", "parents", "individuals", True)]
REFVALS = ["-2", "-1", "n", "n+1", "imax", "imin", "0", "n-1"]
FLOATCOLS = [("edges", "left"), ("edges", "right"), ("sites", "position"), ("nodes", "time"), ("mutations", "time"),
             ("migrations", "left"), ("migrations", "right"), ("migrations", "time")]
FLOATVALS = ["nan", "inf", "-inf", "-1", "-0.0", "0.0", "L", "L+1", "L-ulp", "L+ulp", "1e308", "-1e308", "denorm", "-denorm",
             "cur+ulp", "cur-ulp", "nan-neg-unknown", "nan-payload2", "nan-payload-hi"]


def op_ref(rng, tc, col=None, val=None):
    table, colname, ref, _ = col or rng.choice(REFCOLS)
    a = getattr(getattr(tc, table), colname)
    if len(a) == 0:
        return None
    n = nrows(tc, ref)
    name = val or rng.choice(REFVALS)
    v = {"-2": -2, "-1": -1, "n": n, "n+1": n + 1, "imax": IMAX, "imin": IMIN, "0": 0, "n-1": max(n - 1, 0)}[name]
    j = pick(rng, len(a))
    setcol(tc, table, colname, j, v)
    return f"ref:{table}.{colname}={name}"


def floatval(name, L, cur):
    if name == "cur+ulp":
        return math.nextafter(cur, INF) if np.isfinite(cur) else 0.0
    if name == "cur-ulp":
        return math.nextafter(cur, -INF) if np.isfinite(cur) else 0.0
    return {"nan": NAN, "inf": INF, "-inf": -INF, "-1": -1.0, "-0.0": -0.0, "0.0": 0.0, "L": L, "L+1": L + 1,
            "L-ulp": math.nextafter(L, 0), "L+ulp": math.nextafter(L, INF), "1e308": 1e308, "-1e308": -1e308,
            "denorm": 5e-324, "-denorm": -5e-324, "nan-neg-unknown": NAN_NEG_UNKNOWN, "nan-payload2": NAN_PAYLOAD2,
            "nan-payload-hi": NAN_PAYLOAD_HI}[name]


def op_float(rng, tc, col=None, val=None):
    table, colname = col or rng.choice(FLOATCOLS)
    a = getattr(getattr(tc, table), colname)
    if len(a) == 0:
        return None
    j = pick(rng, len(a))
    name = val or rng.choice(FLOATVALS)
    v = floatval(name, tc.sequence_length, a[j])
    if name.startswith("nan-"):
        # numpy item assignment keeps the payload of a Python float NaN; go through the bit pattern to be sure
        b = a.copy().view(np.uint64)
        b[j] = struct.unpack("<Q", struct.pack("<d", v))[0]
        setattr(getattr(tc, table), colname, b.view(np.float64))
    else:
        setcol(tc, table, colname, j, v)
    return f"float:{table}.{colname}={name}"


def op_interval(rng, tc, table=None, mode=None):
    table = table or rng.choice(["edges", "migrations"])
    t = getattr(tc, table)
    if t.num_rows == 0:
        return None
    j = pick(rng, t.num_rows)
    mode = mode or rng.choice(["left=right", "swap", "right=L", "left=0", "right<left", "right=left+ulp"])
    l, r = t.left[j], t.right[j]
    if mode == "left=right":
        setcol(tc, table, "left", j, r)
    elif mode == "swap":
        setcol(tc, table, "left", j, r)
        setcol(tc, table, "right", j, l)
    elif mode == "right=L":
        setcol(tc, table, "right", j, tc.sequence_length)
    elif mode == "left=0":
        setcol(tc, table, "left", j, 0.0)
    elif mode == "right=left+ulp":
        setcol(tc, table, "right", j, math.nextafter(l, INF))   # the shortest valid interval
    else:
        setcol(tc, table, "right", j, math.nextafter(l, -INF))
    return f"interval:{table}:{mode}"


def op_time_order(rng, tc, mode=None):
    e = tc.edges
    if e.num_rows == 0:
        return None
    j = pick(rng, e.num_rows)
    p, c = int(e.parent[j]), int(e.child[j])
    mode = mode or rng.choice(["equal", "younger", "next", "child-up-to-parent", "child-just-below-parent"])
    if mode in ("child-up-to-parent", "child-just-below-parent"):
        tp = tc.nodes.time[p]
        setcol(tc, "nodes", "time", c, tp if mode == "child-up-to-parent" else math.nextafter(tp, -INF))
        return f"time-order:{mode}"
    tcx = tc.nodes.time[c]
    v = tcx if mode == "equal" else tcx - 1 if mode == "younger" else math.nextafter(tcx, INF)
    setcol(tc, "nodes", "time", p, v)
    return f"time-order:{mode}"


def _swap_rows(tc, table, a, b):
    t = getattr(tc, table)
    ra, rb = t[a], t[b]
    t[a] = rb
    t[b] = ra


def op_swap_rows(rng, tc, table=None):
    forced = table is not None
    table = table or rng.choice(["edges", "edges", "sites", "mutations", "migrations"])
    t = getattr(tc, table)
    if t.num_rows < 2:
        return None
    a = pick(rng, t.num_rows - 1)
    b = a + 1 if (forced or rng.random() < 0.7) else rng.randrange(t.num_rows)
    if a == b:
        return None
    _swap_rows(tc, table, a, b)
    return f"swap-rows:{table}"


def op_dup_row(rng, tc, table=None):
    table = table or rng.choice(["edges", "sites", "migrations"])
    t = getattr(tc, table)
    if t.num_rows == 0:
        return None
    j = pick(rng, t.num_rows)
    rows = [t[k] for k in range(t.num_rows)]
    rows.insert(j + 1, rows[j])
    c = t.copy()
    c.clear()
    for r in rows:
        c.append(r)
    if table == "sites":
        ms = tc.mutations.site.copy()
        ms[ms > j] += 1
        tc.mutations.site = ms
    t.replace_with(c)
    return f"dup-row:{table}"


def op_overlap_child(rng, tc, mode=None):
    e = tc.edges
    if e.num_rows == 0:
        return None
    j = pick(rng, e.num_rows)
    c = int(e.child[j])
    older = [u for u in range(tc.nodes.num_rows) if tc.nodes.time[u] > tc.nodes.time[c]]
    if not older:
        return None
    p = rng.choice(older)
    l, r = e.left[j], e.right[j]
    mode = mode or rng.choice(["same", "inside", "abut", "one-ulp"])
    if mode == "same":
        nl, nr = l, r
    elif mode == "inside":
        nl, nr = (l + r) / 2, r
    elif mode == "one-ulp":
        # overlaps the existing interval by exactly one representable number
        nl, nr = math.nextafter(r, -INF), tc.sequence_length
        if not (l <= nl < nr):
            return None
    else:
        nl, nr = r, tc.sequence_length
        if nl >= nr:
            return None
    e.add_row(nl, nr, p, c)
    tc.sort()  # keep everything else in canonical order so that only the overlap is wrong
    return f"overlap-child:{mode}"


def op_mut_parent(rng, tc, mode=None):
    mu = tc.mutations
    if mu.num_rows == 0:
        return None
    k = pick(rng, mu.num_rows)
    mode = mode or rng.choice(["self", "next", "last", "0", "-1"])
    v = {"self": k, "next": min(k + 1, mu.num_rows - 1), "last": mu.num_rows - 1, "0": 0, "-1": -1}[mode]
    setcol(tc, "mutations", "parent", k, v)
    return f"mutation-parent:{mode}"


def _site_rows(mu, s):
    site = mu.site
    return [j for j in range(len(site)) if site[j] == s]


def _single_mutation_sites(mu):
    site = mu.site
    counts = {}
    for x in site:
        counts[int(x)] = counts.get(int(x), 0) + 1
    return counts


def _node_parents_at_sites(tc):
    """For every mutation: the parent of its node in the tree at its site (None if it has none / ids are broken)."""
    mu, e = tc.mutations, tc.edges
    site, node, pos = mu.site, mu.node, tc.sites.position
    left, right, par, child = e.left, e.right, e.parent, e.child
    n = tc.nodes.num_rows
    by_child = {}
    for j in range(len(left)):
        by_child.setdefault(int(child[j]), []).append(j)
    out = []
    for k in range(len(site)):
        s, u = int(site[k]), int(node[k])
        p = None
        if 0 <= s < len(pos):
            for j in by_child.get(u, ()):
                if left[j] <= pos[s] < right[j] and 0 <= par[j] < n:
                    p = int(par[j])
                    break
        out.append(p)
    return out


MUT_TIME_MODES = ["unknown", "node-time", "below-node", "far-above", "parent-mut+", "parent-mut=", "all-unknown", "all-node-time",
                  "parent-node-time", "just-below-parent-node", "prev-same-site+", "prev-same-site=", "one-known-rest-unknown",
                  "one-unknown-rest-known"]


def op_mut_time(rng, tc, mode=None):
    mu = tc.mutations
    if mu.num_rows == 0:
        return None
    mode = mode or rng.choice(MUT_TIME_MODES + ["parent-node-time"])
    unk = tskit.is_unknown_time(mu.time)
    if mode in ("parent-node-time", "just-below-parent-node"):
        # the boundary of "younger than the parent of the node in the tree at the site": equal is invalid,
        # the next double below is valid.  Only this bound may be wrong, so take a site with a single mutation.
        counts, pars, site = _single_mutation_sites(mu), _node_parents_at_sites(tc), mu.site
        cand = [k for k in range(mu.num_rows) if counts[int(site[k])] == 1 and pars[k] is not None]
        if not cand:
            return None
        k = cand[pick(rng, len(cand))]
        tp = tc.nodes.time[pars[k]]
        setcol(tc, "mutations", "time", k, tp if mode == "parent-node-time" else math.nextafter(tp, -INF))
        return f"mut-time:{mode}"
    if mode in ("parent-mut+", "parent-mut="):
        mpar, mtime = mu.parent, mu.time
        cand = [k for k in range(mu.num_rows) if 0 <= mpar[k] < mu.num_rows and not unk[mpar[k]]]
        if not cand:
            return None
        k = cand[pick(rng, len(cand))]
        pt = mtime[mpar[k]]
        setcol(tc, "mutations", "time", k, math.nextafter(pt, INF) if mode == "parent-mut+" else pt)
        return f"mut-time:{mode}"
    if mode in ("prev-same-site+", "prev-same-site="):
        # 'ordered by decreasing time, if known': equal to the previous row is in order, one ulp above is not
        site, mtime = mu.site, mu.time
        cand = [k for k in range(1, mu.num_rows) if site[k] == site[k - 1] and not unk[k - 1] and not unk[k]]
        if not cand:
            return None
        k = cand[pick(rng, len(cand))]
        pt = mtime[k - 1]
        setcol(tc, "mutations", "time", k, math.nextafter(pt, INF) if mode == "prev-same-site+" else pt)
        return f"mut-time:{mode}"
    if mode in ("one-known-rest-unknown", "one-unknown-rest-known"):
        # the mix inside ONE site, placed on its first / last / a random mutation
        sites = sorted(s for s, c in _single_mutation_sites(mu).items() if c >= 2)
        if not sites:
            return None
        rows = _site_rows(mu, sites[pick(rng, len(sites))])
        one = rows[pick(rng, len(rows))]
        t = mu.time.copy()
        for j in rows:
            known = (j == one) == (mode == "one-known-rest-unknown")
            t[j] = (tc.nodes.time[mu.node[j]] if 0 <= mu.node[j] < tc.nodes.num_rows else 0.0) if known else tskit.UNKNOWN_TIME
        mu.time = t
        return f"mut-time:{mode}"
    k = pick(rng, mu.num_rows)
    u = int(mu.node[k])
    tn = tc.nodes.time[u] if 0 <= u < tc.nodes.num_rows else 0.0
    if mode == "unknown":
        setcol(tc, "mutations", "time", k, tskit.UNKNOWN_TIME)
    elif mode == "node-time":
        setcol(tc, "mutations", "time", k, tn)
    elif mode == "below-node":
        setcol(tc, "mutations", "time", k, math.nextafter(tn, -INF))
    elif mode == "far-above":
        setcol(tc, "mutations", "time", k, tn + 1000)
    elif mode == "all-unknown":
        mu.time = np.full(mu.num_rows, tskit.UNKNOWN_TIME)
    else:
        mu.time = tc.nodes.time[mu.node]
        return "mut-time:all-node-time"
    return f"mut-time:{mode}"


def op_adjacent(rng, tc, what=None, mode=None):
    """Row j against row j-1 for the two 'sorted' float columns: equal / one ulp above / one ulp below the previous row.
    sites.position: equal = duplicate (invalid), above = valid, below = out of order.
    migrations.time: equal = valid (nondecreasing), above = valid, below = out of order."""
    table, col = what or rng.choice([("sites", "position"), ("migrations", "time")])
    t = getattr(tc, table)
    if t.num_rows < 2:
        return None
    j = pick(rng, t.num_rows, lo=1)
    prev = getattr(t, col)[j - 1]
    if not np.isfinite(prev):
        return None
    mode = mode or rng.choice(["eq-prev", "prev+ulp", "prev-ulp"])
    v = prev if mode == "eq-prev" else math.nextafter(prev, INF if mode == "prev+ulp" else -INF)
    setcol(tc, table, col, j, v)
    return f"adjacent:{table}.{col}:{mode}"


def op_ind_parent(rng, tc, mode=None):
    t = tc.individuals
    if len(t.parents) == 0:
        return None
    k = pick(rng, len(t.parents))
    owner = int(np.searchsorted(t.parents_offset, k, side="right") - 1)
    mode = mode or rng.choice(["self", "later", "last", "null"])
    v = {"self": owner, "later": min(owner + 1, t.num_rows - 1), "last": t.num_rows - 1, "null": -1}[mode]
    setcol(tc, "individuals", "parents", k, v)
    return f"individual-parent:{mode}"


def op_ind_parent_row(rng, tc, shape, bad):
    """Replace the WHOLE parents list of one individual: an out-of-range id placed after / before a NULL entry, after a
    valid one, alone, or as the last of three (a check that stops at the first NULL or the first entry misses these)."""
    t = tc.individuals
    n = t.num_rows
    if n == 0:
        return None
    j = pick(rng, n)
    b = {"n": n, "n+1": n + 1, "-2": -2, "int-max": 2 ** 31 - 1, "int-min": -(2 ** 31)}[bad]
    good = (j + 1) % n if n > 1 else -1
    parents = {"null,bad": [-1, b], "bad,null": [b, -1], "good,bad": [good, b], "bad": [b], "null,null,bad": [-1, -1, b],
               "good,null,bad": [good, -1, b]}[shape]
    t[j] = t[j].replace(parents=np.array(parents, dtype=np.int32))
    return f"individual-parents-row:{shape}:{bad}"


def op_edge_rows(rng, tc, mode=None):
    """Change the NUMBER of edge rows (after the index was built this leaves an index of the wrong length, which
    has_index() must not report as an index)."""
    e = tc.edges
    mode = mode or rng.choice(["truncate-1", "truncate-all", "append-root", "append-copy"])
    if mode == "truncate-1":
        if e.num_rows == 0:
            return None
        e.truncate(e.num_rows - 1)
    elif mode == "truncate-all":
        if e.num_rows == 0:
            return None
        e.truncate(0)
    elif mode == "append-root":
        # a new oldest node above a node that is nobody's child: the row goes last in the required order -> still valid
        n = tc.nodes.num_rows
        children = set(int(c) for c in e.child)
        free = [u for u in range(n) if u not in children]
        if not free or not np.all(np.isfinite(tc.nodes.time)):
            return None
        u = free[pick(rng, len(free))]
        top = tc.nodes.add_row(flags=0, time=float(np.max(tc.nodes.time)) + 1.0)
        e.add_row(0.0, tc.sequence_length, top, u)
    else:
        if e.num_rows == 0:
            return None
        r = e[e.num_rows - 1]
        e.append(r)
    return f"edge-rows:{mode}"


def _replace_edge_rows(tc, j, rows, insert_at=None):
    """Edge row j replaced by `rows` (or removed and `rows` inserted before position insert_at of the remaining rows)."""
    e = tc.edges
    old = [e[k] for k in range(e.num_rows)]
    if insert_at is None:
        new = old[:j] + rows + old[j + 1:]
    else:
        rest = old[:j] + old[j + 1:]
        new = rest[:insert_at] + rows + rest[insert_at:]
    c = e.copy()
    c.clear()
    for r in new:
        c.append(r)
    e.replace_with(c)


def op_split_edge(rng, tc, mode=None):
    """One edge cut in two at its midpoint: 'within a parent, sorted by child then left', 'no duplicates', 'disjoint
    child intervals' all meet here.  ordered / one-ulp gap = valid; reversed = out of order; same-left = duplicate;
    overlap by one ulp = contradictory."""
    e = tc.edges
    if e.num_rows == 0:
        return None
    j = pick(rng, e.num_rows)
    row = e[j]
    l, r = row.left, row.right
    mid = (l + r) / 2
    if not (np.isfinite(mid) and l < mid < r):
        return None
    mode = mode or rng.choice(["ordered", "reversed", "gap-ulp", "overlap-ulp", "same-left"])
    a, b = row.replace(right=mid), row.replace(left=mid)
    if mode == "reversed":
        a, b = b, a
    elif mode == "gap-ulp":
        b = row.replace(left=math.nextafter(mid, INF))
    elif mode == "overlap-ulp":
        b = row.replace(left=math.nextafter(mid, -INF))
    elif mode == "same-left":
        b = row
    _replace_edge_rows(tc, j, [a, b])
    return f"split-edge:{mode}"


def op_edge_block(rng, tc, mode=None):
    """The block structure of the edge table: a parent's edges contiguous, children ascending inside a block."""
    e = tc.edges
    par, child = e.parent, e.child
    ne = e.num_rows
    mode = mode or rng.choice(["noncontiguous", "swap-children", "move-to-front"])
    if mode == "swap-children":
        cand = [j for j in range(ne - 1) if par[j] == par[j + 1] and child[j] != child[j + 1]]
        if not cand:
            return None
        j = cand[pick(rng, len(cand))]
        _swap_rows(tc, "edges", j, j + 1)
    elif mode == "noncontiguous":
        # the last edge of a block moved behind the next parent's block
        cand = [j for j in range(1, ne - 1) if par[j] == par[j - 1] and par[j + 1] != par[j]]
        if not cand:
            return None
        j = cand[pick(rng, len(cand))]
        k = j + 1
        while k < ne and par[k] == par[j + 1]:
            k += 1
        _replace_edge_rows(tc, j, [e[j]], insert_at=k - 1)
    else:
        # the last row moved to the front: out of parent-time order unless all parents are equally old
        if ne < 2:
            return None
        _replace_edge_rows(tc, ne - 1, [e[ne - 1]], insert_at=0)
    return f"edge-block:{mode}"


def op_shrink_edge(rng, tc, mode=None):
    """An edge made shorter: the rows stay valid, but an index built BEFORE the change may no longer be sorted."""
    e = tc.edges
    if e.num_rows == 0:
        return None
    j = pick(rng, e.num_rows)
    l, r = e.left[j], e.right[j]
    mid = (l + r) / 2
    if not (np.isfinite(mid) and l < mid < r):
        return None
    mode = mode or rng.choice(["left-up", "right-down"])
    setcol(tc, "edges", "left" if mode == "left-up" else "right", j, mid)
    return f"shrink-edge:{mode}"


def op_seqlen(rng, tc, val=None):
    L = tc.sequence_length
    name = val or rng.choice(["0", "-1", "nan", "-0.0", "L/2", "2L", "inf", "-inf", "denorm", "L-ulp", "maxright", "maxright-ulp"])
    ends = [x for x in list(tc.edges.right) + list(tc.migrations.right) if np.isfinite(x)]
    mr = max(ends) if ends else L
    v = {"0": 0.0, "-1": -1.0, "nan": NAN, "-0.0": -0.0, "L/2": L / 2, "2L": L * 2, "inf": INF, "-inf": -INF, "denorm": 5e-324,
         "L-ulp": math.nextafter(L, 0), "maxright": mr, "maxright-ulp": math.nextafter(mr, 0)}[name]
    tc.sequence_length = v
    return f"sequence_length={name}"


BENIGN = ["flags", "metadata", "L+", "anc", "time-shift", "node-append", "pop-append", "refseq", "drop-mutations", "site-last-ulp",
          "drop-sites", "drop-migrations", "drop-edges", "ind-append", "provenance", "time-units", "node-time-extreme"]


def op_benign(rng, tc, mode=None):
    """Changes that keep validity (the predicate decides; these are the ones expected to come out 'accept')."""
    mode = mode or rng.choice(BENIGN)
    if mode == "flags" and tc.nodes.num_rows:
        f = tc.nodes.flags.copy()
        f[pick(rng, len(f))] ^= rng.choice([1, 2, 4, 1 << 20, 1 << 31])
        tc.nodes.flags = f
    elif mode == "metadata":
        tc.metadata = b"xyz"
    elif mode == "L+":
        tc.sequence_length = tc.sequence_length + 1
    elif mode == "anc" and tc.sites.num_rows:
        j = pick(rng, tc.sites.num_rows)
        tc.sites[j] = tc.sites[j].replace(ancestral_state="ZZ")
    elif mode == "time-shift":
        tc.nodes.time = tc.nodes.time + 4.0
        mt = tc.mutations.time
        tc.mutations.time = np.where(tskit.is_unknown_time(mt), mt, mt + 4.0)
        if tc.migrations.num_rows:
            tc.migrations.time = tc.migrations.time + 4.0
    elif mode == "node-append":
        tc.nodes.add_row(flags=rng.choice([0, 1]), time=rng.choice([-5.0, 0.0, 1e6, -1e308, 1e308, 5e-324, -0.0]))
    elif mode == "pop-append":
        tc.populations.add_row(metadata=b"p")
    elif mode == "refseq":
        tc.reference_sequence.data = "ACGT"
    elif mode == "drop-mutations":
        tc.mutations.clear()
    elif mode == "site-last-ulp" and tc.sites.num_rows:
        # the largest valid position: the last double below L
        setcol(tc, "sites", "position", tc.sites.num_rows - 1, math.nextafter(tc.sequence_length, 0))
    elif mode == "drop-sites":
        tc.mutations.clear()
        tc.sites.clear()
    elif mode == "drop-migrations":
        tc.migrations.clear()
    elif mode == "drop-edges":
        tc.edges.clear()   # every node isolated; mutations keep their (now parentless) nodes
    elif mode == "ind-append":
        tc.individuals.add_row(flags=0, parents=[-1, -1])
    elif mode == "provenance":
        tc.provenances.add_row(record="{}", timestamp="2020-01-01T00:00:00")
    elif mode == "time-units":
        tc.time_units = rng.choice(["generations", "uncalibrated", ""])
    elif mode == "node-time-extreme" and tc.nodes.num_rows:
        # a node that is nobody's parent / child / mutation node / migration node may have any finite time
        used = set(int(x) for x in tc.edges.parent) | set(int(x) for x in tc.edges.child) | set(int(x) for x in tc.mutations.node)
        free = [u for u in range(tc.nodes.num_rows) if u not in used]
        if not free:
            return None
        setcol(tc, "nodes", "time", free[pick(rng, len(free))], rng.choice([1e308, -1e308, 5e-324, -0.0]))
    else:
        return None
    return f"benign:{mode}"


SUSPECT_OPS = [op_ref, op_ref, op_float, op_float, op_interval, op_time_order, op_swap_rows, op_swap_rows, op_dup_row,
               op_overlap_child, op_mut_parent, op_mut_time, op_mut_time, op_seqlen, op_adjacent, op_ind_parent, op_edge_rows, op_split_edge,
               op_edge_block, op_shrink_edge]


def _catalogue():
    """(label, needs, function) for every single departure / boundary the sweep family enumerates."""
    C = []
    for col in REFCOLS:
        need = "indparents" if col[0] == "individuals" else col[0]
        for v in REFVALS:
            C.append((f"ref:{col[0]}.{col[1]}={v}", need, lambda rng, tc, col=col, v=v: op_ref(rng, tc, col, v)))
    for col in FLOATCOLS:
        for v in FLOATVALS:
            if v.startswith("nan-") and col != ("mutations", "time") and v != "nan-payload2":
                continue
            C.append((f"float:{col[0]}.{col[1]}={v}", col[0], lambda rng, tc, col=col, v=v: op_float(rng, tc, col, v)))
    # the NaN family on mutation times twice more: only here does the payload decide (unknown vs non-finite)
    for v in ("nan", "nan-neg-unknown", "nan-payload2", "nan-payload-hi"):
        C.append((f"float:mutations.time={v}", "mutations", lambda rng, tc, v=v: op_float(rng, tc, ("mutations", "time"), v)))
    for table in ("edges", "migrations"):
        for mode in ("left=right", "swap", "right=L", "left=0", "right<left", "right=left+ulp"):
            C.append((f"interval:{table}:{mode}", table, lambda rng, tc, t=table, mo=mode: op_interval(rng, tc, t, mo)))
    for mode in ("equal", "younger", "next", "child-up-to-parent", "child-just-below-parent"):
        C.append((f"time-order:{mode}", "edges", lambda rng, tc, mo=mode: op_time_order(rng, tc, mo)))
    for table in ("edges", "sites", "mutations", "migrations"):
        C.append((f"swap-rows:{table}", table + "2", lambda rng, tc, t=table: op_swap_rows(rng, tc, t)))
    for table in ("edges", "sites", "migrations"):
        C.append((f"dup-row:{table}", table, lambda rng, tc, t=table: op_dup_row(rng, tc, t)))
    for mode in ("same", "inside", "abut", "one-ulp"):
        C.append((f"overlap-child:{mode}", "edges", lambda rng, tc, mo=mode: op_overlap_child(rng, tc, mo)))
    for mode in ("self", "next", "last", "0", "-1"):
        C.append((f"mutation-parent:{mode}", "mutations", lambda rng, tc, mo=mode: op_mut_parent(rng, tc, mo)))
    for mode in MUT_TIME_MODES:
        need = {"parent-mut+": "mutparent-known", "parent-mut=": "mutparent-known", "prev-same-site+": "multimut-known",
                "prev-same-site=": "multimut-known", "one-known-rest-unknown": "multimut", "one-unknown-rest-known": "multimut",
                "parent-node-time": "mut-under-parent", "just-below-parent-node": "mut-under-parent"}.get(mode, "mutations")
        reps = 3 if mode in ("parent-node-time", "just-below-parent-node", "parent-mut+", "prev-same-site+", "node-time", "below-node") else 1
        for _ in range(reps):
            C.append((f"mut-time:{mode}", need, lambda rng, tc, mo=mode: op_mut_time(rng, tc, mo)))
    for what in (("sites", "position"), ("migrations", "time")):
        for mode in ("eq-prev", "prev+ulp", "prev-ulp"):
            C.append((f"adjacent:{what[0]}.{what[1]}:{mode}", what[0] + "2", lambda rng, tc, w=what, mo=mode: op_adjacent(rng, tc, w, mo)))
    for mode in ("self", "later", "last", "null"):
        C.append((f"individual-parent:{mode}", "indparents", lambda rng, tc, mo=mode: op_ind_parent(rng, tc, mo)))
    for shape in ("null,bad", "bad,null", "good,bad", "bad", "null,null,bad", "good,null,bad"):
        for bad in ("n", "n+1", "-2", "int-max", "int-min"):
            if shape in ("bad", "good,null,bad") and bad in ("n+1", "int-min"):
                continue
            C.append((f"individual-parents-row:{shape}:{bad}", "individuals",
                      lambda rng, tc, sh=shape, b=bad: op_ind_parent_row(rng, tc, sh, b)))
    for mode in ("truncate-1", "truncate-all", "append-root", "append-copy"):
        C.append((f"edge-rows:{mode}", "edges", lambda rng, tc, mo=mode: op_edge_rows(rng, tc, mo)))
    for mode in ("ordered", "reversed", "gap-ulp", "overlap-ulp", "same-left"):
        for _ in range(2):
            C.append((f"split-edge:{mode}", "edges", lambda rng, tc, mo=mode: op_split_edge(rng, tc, mo)))
    for mode in ("noncontiguous", "swap-children", "move-to-front"):
        for _ in range(2):
            C.append((f"edge-block:{mode}", "edges-blocks", lambda rng, tc, mo=mode: op_edge_block(rng, tc, mo)))
    for mode in ("left-up", "right-down"):
        for _ in range(3):
            C.append((f"shrink-edge:{mode}", "edges2", lambda rng, tc, mo=mode: op_shrink_edge(rng, tc, mo)))
    for v in ("0", "-1", "nan", "-0.0", "L/2", "2L", "inf", "-inf", "denorm", "L-ulp", "maxright", "maxright-ulp"):
        C.append((f"sequence_length={v}", None, lambda rng, tc, v=v: op_seqlen(rng, tc, v)))
    for mode in BENIGN:
        C.append((f"benign:{mode}", None, lambda rng, tc, mo=mode: op_benign(rng, tc, mo)))
    return C


CATALOGUE = _catalogue()
# a stride coprime to the catalogue length visits every entry before repeating and decorrelates entry and row mode
_STRIDE = next(s for s in range(37, 200) if math.gcd(s, len(CATALOGUE)) == 1)
ROWMODES = ["first", "last", "rand", "last", "first", "second"]


# ----------------------------------------------------------------------------- index states

INDEX_FAULTS = ([("oor", w, pos, v) for w in "IO" for pos in ("first", "last", "mid") for v in ("-1", "ne", "ne+1", "imax", "imin")]
                + [("dup", w, pos, None) for w in "IO" for pos in ("head", "tail", "tail-from-head", "head-from-tail")]
                + [("reverse", w, None, None) for w in ("I", "O", "IO")]
                + [("swap", w, pos, None) for w in "IO" for pos in ("first", "last", "mid")]
                + [("rotate", w, None, None) for w in "IO"])


def apply_index_fault(rng, tc, fault):
    """tc has a freshly built index; replace it by a user-supplied one with exactly one fault."""
    ne = tc.edges.num_rows
    if ne == 0:
        return None
    I = tc.indexes.edge_insertion_order.copy()
    O = tc.indexes.edge_removal_order.copy()
    kind, which, pos, v = fault
    arrs = [a for a, w in ((I, "I"), (O, "O")) if w in which]
    for a in arrs:
        if kind == "oor":
            j = {"first": 0, "last": ne - 1, "mid": rng.randrange(ne)}[pos]
            a[j] = {"-1": -1, "ne": ne, "ne+1": ne + 1, "imax": IMAX, "imin": IMIN}[v]
        elif kind == "dup":
            if ne < 2:
                return None
            if pos == "head":
                a[0] = a[1]
            elif pos == "tail":
                a[-1] = a[-2]
            elif pos == "tail-from-head":
                a[-1] = a[0]   # the tail of the removal order (edges ending at L) is only seen by reverse traversal
            else:
                a[0] = a[-1]
        elif kind == "reverse":
            a[:] = a[::-1].copy()
        elif kind == "swap":
            if ne < 2:
                return None
            j = {"first": 0, "last": ne - 2, "mid": rng.randrange(ne - 1)}[pos]
            a[j], a[j + 1] = a[j + 1], a[j]
        elif kind == "rotate":
            a[:] = np.roll(a, 1)
    tc.indexes = tskit.TableCollectionIndexes(edge_insertion_order=I, edge_removal_order=O)
    return f"{kind}:{which}" + (f"@{pos}" if pos else "") + (f"={v}" if v else "")


def make_index(rng, tc, mode):
    """Leaves tc with the requested index state; returns a label for user-supplied faults."""
    ne = tc.edges.num_rows
    if mode == "absent":
        tc.drop_index()
        return None
    if mode == "stale":
        return None  # built before the row edits by the caller, left as it is
    try:
        tc.build_index()
    except tskit.LibraryError:
        tc.drop_index()
        return None
    if mode == "built" or ne == 0:
        return None
    if mode == "reversed":
        return apply_index_fault(rng, tc, ("reverse", "I", None, None))
    if mode == "permuted":
        O = tc.indexes.edge_removal_order.copy()
        a, b = rng.randrange(ne), rng.randrange(ne)
        O[a], O[b] = O[b], O[a]
        tc.indexes = tskit.TableCollectionIndexes(edge_insertion_order=tc.indexes.edge_insertion_order, edge_removal_order=O)
        return "permuted"
    if mode == "out-of-range":
        return apply_index_fault(rng, tc, ("oor", rng.choice("IO"), "mid", rng.choice(["-1", "ne", "ne+1", "imax"])))
    if mode == "duplicate":
        return apply_index_fault(rng, tc, ("dup", rng.choice("IO"), rng.choice(["head", "tail", "tail-from-head", "head-from-tail"]), None))
    return None


# ----------------------------------------------------------------------------- models


def _has(m, need):
    if need is None:
        return True
    if need == "edges":
        return len(m.edges) > 0
    if need == "edges2":
        return len(m.edges) > 1
    if need == "edges-blocks":
        ps = [e[2] for e in m.edges]
        return len(set(ps)) > 1 and len(ps) > len(set(ps))
    if need in ("sites", "nodes"):
        return len(getattr(m, need)) > 0
    if need == "sites2":
        return len(m.sites) > 1
    if need == "mutations":
        return len(m.mutations) > 0
    if need == "mutations2":
        return len(m.mutations) > 1
    if need == "migrations":
        return len(m.migrations) > 0
    if need == "migrations2":
        return len(m.migrations) > 1
    if need == "individuals":
        return len(m.individuals) > 0
    if need == "populations":
        return len(m.populations) > 0
    if need == "indparents":
        return any(len(i[2]) for i in m.individuals)
    counts = {}
    for x in m.mutations:
        counts[x[0]] = counts.get(x[0], 0) + 1
    if need == "multimut":
        return any(c > 1 for c in counts.values())
    if need == "multimut-known":
        return any(a[0] == b[0] and a[4] is not None and b[4] is not None for a, b in zip(m.mutations, m.mutations[1:]))
    if need == "mutparent-known":
        return any(x[3] != NULL and m.mutations[x[3]][4] is not None for x in m.mutations)
    if need == "mut-under-parent":
        return any(counts[x[0]] == 1 and x[1] in m.forest_at(m.sites[x[0]][0]) for x in m.mutations)
    return True


def gen_model(rng, need=None):
    """A valid generated model that has the rows `need` names (bounded retries; the last attempt is returned anyway,
    the operator then reports 'not applicable')."""
    m = None
    for _ in range(6):
        m = gen.gen_full(rng, max_nodes=9, max_bp=4, max_sites=5, pops=True, migrations=True)
        if need in ("edges", "edges2", "edges-blocks"):
            if _has(m, need):
                return m
            continue
        for _ in range(8):
            if _has(m, need):
                return m
            if need in ("migrations", "migrations2"):
                if not m.populations:
                    gen.decorate_pops_inds(rng, m, npop=2)
                gen.decorate_migrations(rng, m, maxn=4)
            elif need in ("indparents", "individuals", "populations"):
                gen.decorate_pops_inds(rng, m, npop=max(1, len(m.populations)), nind=rng.randint(2, 4))
            else:
                known = True if need in ("multimut-known", "mutparent-known", "mut-under-parent") and rng.random() < 0.8 else None
                gen.decorate_sites(rng, m, max_sites=5, known_times=known)
    return m


def reorder_model(rng, m, mode):
    """VALID collections that are not in the order to_tables(gen_full()) produces."""
    n = m.num_nodes
    if mode == "renumber-nodes":
        perm = list(range(n))
        rng.shuffle(perm)   # old id -> new id
        nodes = [None] * n
        for u in range(n):
            nodes[perm[u]] = m.nodes[u]
        m.nodes = nodes
        m.edges = [(l, r, perm[p], perm[c], md) for l, r, p, c, md in m.edges]
        m.edges.sort(key=sort_edges_key(m))
        m.mutations = [(s, perm[u], d, p, t, md) for s, u, d, p, t, md in m.mutations]
        m.migrations = [(l, r, perm[u], a, b, t, md) for l, r, u, a, b, t, md in m.migrations]
    elif mode == "equal-time-parents":
        # 'edges for a parent contiguous, nondecreasing parent time': parents of equal time may come in any order
        rank = {u: rng.random() for u in range(n)}
        m.edges = sorted(m.edges, key=lambda e: (m.time(e[2]), rank[e[2]], e[3], e[0]))
    elif mode == "individual-parents-later":
        # "A valid tree sequence does not require individuals to be sorted in any particular order"
        nind = len(m.individuals)
        inds = []
        for i, (f, loc, pars, md) in enumerate(m.individuals):
            others = [j for j in range(nind) if j != i]
            pars = tuple(rng.choice(others + [NULL]) for _ in range(rng.randint(1, 2))) if others else (NULL,)
            inds.append((f, loc, pars, md))
        m.individuals = inds
    elif mode == "equal-time-migrations":
        if m.migrations:
            t0 = m.migrations[0][5]
            migs = [g[:5] + (t0,) + g[6:] for g in m.migrations]
            rng.shuffle(migs)
            m.migrations = migs
    elif mode == "mutation-order":
        # any order with known times non-increasing and parents before children is valid: shuffle, then order by
        # (-time, depth of the node in the tree at the site); parents are recomputed for the new row order
        muts = []
        for j, s in enumerate(m.sites):
            fr = forest(m, s[0])
            rows = [m.mutations[k] for k in m.site_mutations(j)]
            rng.shuffle(rows)
            rows.sort(key=lambda x: (-x[4] if x[4] is not None else 0.0, fr.depth(x[1])))
            muts.extend(rows)
        m.mutations = muts
        par = mutation_parents(m)
        m.mutations = [(s, u, d, par[k], t, md) for k, (s, u, d, _, t, md) in enumerate(m.mutations)]
    elif mode == "equal-mutation-times":
        # every mutation at its node's time: the youngest valid value everywhere, ties in time inside sites
        if m.mutations:
            muts = []
            for j, s in enumerate(m.sites):
                fr = forest(m, s[0])
                rows = [(a, u, d, p, m.time(u), md) for a, u, d, p, t, md in (m.mutations[k] for k in m.site_mutations(j))]
                rows.sort(key=lambda x: (-x[4], fr.depth(x[1])))
                muts.extend(rows)
            m.mutations = muts
            par = mutation_parents(m)
            m.mutations = [(s, u, d, par[k], t, md) for k, (s, u, d, _, t, md) in enumerate(m.mutations)]
    elif mode == "extreme-coordinates":
        # a site on 0 and one on the last double below L; node times shifted to huge / tiny magnitudes keep their order
        if m.sites:
            pos = [s[0] for s in m.sites]
            pos[0] = 0.0
            if len(pos) > 1:
                pos[-1] = math.nextafter(m.L, 0)
            m.sites = [(p,) + s[1:] for p, s in zip(pos, m.sites)]
        scale = rng.choice([2.0 ** 60, 2.0 ** -60, -1.0])
        if scale > 0:
            m.nodes = [(f, t * scale, p, i, md) for f, t, p, i, md in m.nodes]
            m.mutations = [(s, u, d, p, None if t is None else t * scale, md) for s, u, d, p, t, md in m.mutations]
            m.edges.sort(key=sort_edges_key(m))
    return m


REORDER_MODES = ["renumber-nodes", "equal-time-parents", "individual-parents-later", "equal-time-migrations", "mutation-order",
                 "equal-mutation-times", "extreme-coordinates", "renumber-nodes", "equal-time-parents"]
LARGE_KINDS = ["star", "chain", "one-site-many-mutations", "many-sites", "many-trees", "many-individuals", "many-migrations",
               "empty", "one-node", "sites-only", "two-level-star"]


def large_model(rng, kind):
    N = rng.choice([255, 256, 257, 300])
    m = RowModel()
    if kind == "star":
        m.L = 4.0
        m.nodes = [(NODE_IS_SAMPLE, 0.0, NULL, NULL, b"")] * N + [(0, 1.0, NULL, NULL, b"")]
        m.edges = [(0.0, 4.0, N, c, b"") for c in range(N)]
    elif kind == "two-level-star":
        m.L = 2.0
        m.nodes = [(NODE_IS_SAMPLE, 0.0, NULL, NULL, b"")] * N + [(0, 1.0, NULL, NULL, b""), (0, 1.0, NULL, NULL, b""), (0, 2.0, NULL, NULL, b"")]
        half = N // 2
        m.edges = ([(0.0, 2.0, N, c, b"") for c in range(half)] + [(0.0, 2.0, N + 1, c, b"") for c in range(half, N)]
                   + [(0.0, 2.0, N + 2, N, b""), (0.0, 2.0, N + 2, N + 1, b"")])
    elif kind in ("chain", "one-site-many-mutations"):
        m.L = 8.0
        D = N if kind == "chain" else 260
        m.nodes = [(NODE_IS_SAMPLE if u == 0 else 0, float(u), NULL, NULL, b"") for u in range(D)]
        m.edges = [(0.0, 8.0, u + 1, u, b"") for u in range(D - 1)]
        if kind == "one-site-many-mutations":
            known = rng.random() < 0.6
            m.sites = [(3.0, "A", b"")]
            # ancestors first; a known time half way up the branch (the top node has no parent: any older time)
            m.mutations = [(0, u, "CG"[u % 2], NULL, (u + 0.5) if known else None, b"") for u in range(D - 1, -1, -1)]
            par = mutation_parents(m)
            m.mutations = [(s, u, d, par[k], t, md) for k, (s, u, d, _, t, md) in enumerate(m.mutations)]
    elif kind == "many-sites":
        m.L = float(N)
        m.nodes = [(NODE_IS_SAMPLE, 0.0, NULL, NULL, b""), (0, 1.0, NULL, NULL, b"")]
        m.edges = [(0.0, m.L, 1, 0, b"")]
        known = rng.random() < 0.5
        m.sites = [(float(j), "A", b"") for j in range(N)]
        m.mutations = [(j, 0, "T", NULL, 0.5 if known else None, b"") for j in range(N)]
    elif kind == "many-trees":
        m.L = float(N)
        m.nodes = [(NODE_IS_SAMPLE, 0.0, NULL, NULL, b""), (NODE_IS_SAMPLE, 0.0, NULL, NULL, b""), (0, 1.0, NULL, NULL, b"")]
        m.edges = sorted([(float(i), float(i + 1), 2, i % 2, b"") for i in range(N)], key=lambda e: (e[3], e[0]))
    elif kind == "many-individuals":
        m.L = 1.0
        m.individuals = [(0, (), (i - 1,) if i else (NULL,), b"") for i in range(N)]
        m.populations = [(b"",)] * N
        m.nodes = [(NODE_IS_SAMPLE, 0.0, i, i, b"") for i in range(N)]
    elif kind == "many-migrations":
        m.L = float(N)
        m.populations = [(b"",), (b"",)]
        m.nodes = [(NODE_IS_SAMPLE, 0.0, 0, NULL, b"")]
        m.migrations = [(float(i), float(i + 1), 0, i % 2, (i + 1) % 2, float(i // 2), b"") for i in range(N)]
    elif kind == "empty":
        m.L = rng.choice([1.0, 5e-324, 1e308])
    elif kind == "one-node":
        m.L = 1.0
        m.nodes = [(rng.choice([0, 1]), rng.choice([0.0, -3.5, 1e308]), NULL, NULL, b"")]
        if rng.random() < 0.5:
            m.sites = [(0.0, "", b"")]
            m.mutations = [(0, 0, "", NULL, None, b"")]
    elif kind == "sites-only":
        m.L = 2.0
        m.sites = [(0.0, "A", b""), (1.0, "C", b""), (math.nextafter(2.0, 0), "G", b"")]
    return m


# ----------------------------------------------------------------------------- gate entry points

# tskit.FileFormatError: the library's own error class for files it cannot read (only reachable through the file entry points)
LIB_ERRORS = (tskit.LibraryError, tskit.FileFormatError, ValueError, OverflowError)


def rows_snapshot(tc):
    return [x for x in tables_bytes(tc) if not x[0].startswith("/indexes")]


def index_of(tc):
    if not tc.has_index():
        return None
    return ([int(x) for x in tc.indexes.edge_insertion_order], [int(x) for x in tc.indexes.edge_removal_order])


def canonical_index(tc):
    """What build_index() makes for these rows (only used to tell a user index with another tie-break apart)."""
    try:
        c = tc.copy()
        c.drop_index()
        c.build_index()
    except LIB_ERRORS:
        return None
    return index_of(c)


def _dump(tc, d, how):
    path = os.path.join(d, "x.trees")
    if how == "fileobj":
        with open(path, "wb") as f:
            tc.dump(f)
    else:
        tc.dump(path)
    return path


def _load_fileobj(path):
    with open(path, "rb") as f:
        return tskit.load(f)


def _ll_load_tables(tc, form):
    ll = _tskit.TreeSequence()
    if form == "positional":
        ll.load_tables(tc._ll_tables)
    elif form == "positional-build":
        ll.load_tables(tc._ll_tables, True)
    elif form == "keyword":
        ll.load_tables(tables=tc._ll_tables, build_indexes=False)
    else:
        ll.load_tables(tables=tc._ll_tables, build_indexes=1)
    return tskit.TreeSequence(ll)


# name, kind.  kind: 'file' = dump then load (needs the index in the file), 'tables' = TreeSequence.load_tables without
# building, 'tables-build' = the index is rebuilt on the library's private copy (a user-supplied index is ignored),
# 'object' = tree_sequence() of another TableCollection object holding the same data
ALT_ENTRY_POINTS = [
    ("tskit.load(path)", "file"), ("load_tables(tc)", "tables"), ("copy().tree_sequence", "object"),
    ("tskit.load(fileobj)", "file"), ("load_tables(tc,build_indexes=True)", "tables-build"), ("pickle.tree_sequence", "object"),
    ("TreeSequence.load(path)", "file"), ("_tskit.load_tables(positional)", "tables"), ("fromdict(asdict()).tree_sequence", "object"),
    ("tskit.load(Path)", "file"), ("_tskit.load_tables(keyword,build)", "tables-build"), ("TableCollection.load.tree_sequence", "object"),
    ("tskit.load(skip_reference_sequence)", "file"), ("_tskit.load_tables(keyword)", "tables"),
    ("tskit.load(path)<-dump(fileobj)", "file"), ("_tskit.load_tables(positional,build)", "tables-build"),
]


def run_fileindex(case, ctx, rng):
    """A stored index whose two arrays have the SAME length, but not the length of the edge table (a file written by another
    tool, or damaged): 'an index consistent with the edges' is a requirement of tskit.load, so the file must be refused.
    Such a file cannot be produced through dump() (a stale index is not written), hence the independent kastore writer."""
    import os
    import tempfile
    from lib.props.c10_ext import pack, parse_items
    m = gen_model(rng, "edges")
    tc = to_tables(m)
    try:
        tc.tree_sequence()
    except LIB_ERRORS:
        return
    ne = tc.edges.num_rows
    ctx.sig(("fileindex", m.signature()), nontrivial=ne > 0)
    if ne == 0:
        return
    d = tempfile.mkdtemp(prefix="verif-c02-")
    try:
        path = os.path.join(d, "a.trees")
        tc.dump(path)
        items = parse_items(open(path, "rb").read())
        keys = (b"indexes/edge_insertion_order", b"indexes/edge_removal_order")
        idx = {k: np.frombuffer(raw, dtype="<i4") for k, _, raw in items if k in keys}
        if len(idx) != 2:
            ctx.violation("HARNESS-ERROR", "dumped file has no index items")
            return
        modes = ["longer+valid-ids", "longer+copy-of-last", "longer+1", "shorter-1", "half", "doubled", "empty"]
        mode = modes[case.get("i", 0) % len(modes)]
        k = rng.randint(2, 5)

        def alter(a):
            if mode == "longer+valid-ids":
                return np.concatenate([a, np.array([rng.randrange(ne) for _ in range(k)], dtype="<i4")])
            if mode == "longer+copy-of-last":
                return np.concatenate([a, np.repeat(a[-1:], k)])
            if mode == "longer+1":
                return np.concatenate([a, a[:1]])
            if mode == "shorter-1":
                return a[:-1]
            if mode == "half":
                return a[:len(a) // 2]
            if mode == "doubled":
                return np.concatenate([a, a])
            return a[:0]
        new = {kk: alter(v) for kk, v in idx.items()}
        if len(new[keys[0]]) == ne:
            return
        items2 = [(kk, typ, new[kk].astype("<i4").tobytes() if kk in new else raw) for kk, typ, raw in items]
        bad = os.path.join(d, "b.trees")
        with open(bad, "wb") as f:
            f.write(pack(items2))
        before = tables_bytes(tc)
        forms = [("tskit.load(path)", lambda: tskit.load(bad)), ("tskit.load(pathlib)", lambda: tskit.load(__import__("pathlib").Path(bad))),
                 ("TreeSequence.load(path)", lambda: tskit.TreeSequence.load(bad))]
        forms.append(("tskit.load(fileobj)", lambda: _load_fileobj(bad)))
        for name, thunk in forms:
            ctx.count("fileindex:loads")
            ctx.feature(f"fileindex:{mode}")
            try:
                ts = thunk()
            except LIB_ERRORS + (EOFError,):
                continue
            except Exception as e:  # noqa: BLE001
                ctx.violation("gate/not-a-library-error/fileindex", f"{name} on a file whose stored index has "
                              f"{len(new[keys[0]])} entries for {ne} edges ({mode}) raised {type(e).__name__}: {e}")
                continue
            ctx.violation("gate/invalid-accepted/index.length-differs-from-edges",
                          f"{name} accepted a file whose stored index has {len(new[keys[0]])} entries for an edge table of {ne} "
                          f"rows ({mode}); num_trees={ts.num_trees}", {"model": m.to_json(), "mode": mode})
        if tables_bytes(tc) != before:
            ctx.violation("HARNESS-ERROR", "fileindex changed the source collection")
    finally:
        import shutil
        shutil.rmtree(d, ignore_errors=True)


def _load_fileobj(path):
    with open(path, "rb") as f:
        return tskit.load(f)


def run_case(case, ctx):
    rng = case_rng(case)
    fam = case["gen"]
    if fam == "fileindex":
        return run_fileindex(case, ctx, rng)
    i = case.get("i", case["k"])
    _ST["row"] = "rand"
    labels = []
    index_mode = None
    index_label = None
    prebuilt = False

    # ------------------------------------------------------------ build the collection
    if fam == "mutate":
        m = gen.gen_full(rng, max_nodes=9, max_bp=4, max_sites=5, pops=True, migrations=True)
        tc = to_tables(m)
        index_mode = rng.choice(["absent", "built", "built", "reversed", "permuted", "out-of-range", "duplicate", "stale"])
        if index_mode == "stale":
            tc.build_index()
            prebuilt = True
        r = rng.random()
        if r < 0.12:
            pass  # untouched valid model
        elif r < 0.27:
            lab = op_benign(rng, tc)
            if lab:
                labels.append(lab)
        else:
            k = 1 if r < 0.8 else rng.randint(2, 4)
            for _ in range(k):
                try:
                    lab = rng.choice(SUSPECT_OPS)(rng, tc)
                except LIB_ERRORS + (IndexError,):
                    lab = None  # the operator itself was refused or met rows an earlier operator broke (e.g. sort() inside op_overlap_child on already broken rows)
                if lab:
                    labels.append(lab)
    elif fam == "sweep":
        label, need, fn = CATALOGUE[(i * _STRIDE) % len(CATALOGUE)]
        _ST["row"] = ROWMODES[(i // len(CATALOGUE) + i) % len(ROWMODES)]
        m = gen_model(rng, need)
        tc = to_tables(m)
        index_mode = ["built", "built", "absent", "stale", "built", "stale"][(i // 3) % 6]
        if label.startswith(("edge-rows", "shrink-edge")):
            index_mode = "stale"   # the point of these: an index of the wrong length must not count as an index; an
            #                        index that is no longer sorted for the new (valid) rows must be refused
        if index_mode == "stale":
            tc.build_index()
            prebuilt = True
        try:
            lab = fn(rng, tc)
        except LIB_ERRORS + (IndexError,):
            lab = None
        if lab:
            labels.append(lab)
            ctx.feature("sweep-applied")
        else:
            ctx.feature("sweep-not-applicable:" + label.split("=")[0].split(":")[0])
        ctx.feature("row:" + _ST["row"])
    elif fam == "index":
        m = gen_model(rng, "edges2")
        tc = to_tables(m)
        index_mode = "fault"
    elif fam == "reorder":
        mode = REORDER_MODES[i % len(REORDER_MODES)]
        need = {"individual-parents-later": "individuals", "equal-time-migrations": "migrations2", "mutation-order": "multimut",
                "equal-mutation-times": "mutations", "extreme-coordinates": "sites", "equal-time-parents": "edges2",
                "renumber-nodes": "edges"}[mode]
        m = gen_model(rng, need)
        if mode == "equal-time-parents" and rng.random() < 0.7:
            # make ties between parents certain
            m = gen.gen_full(rng, max_nodes=9, max_bp=4, max_sites=5, pops=True, migrations=True, time_mode="ties")
        m = reorder_model(rng, m, mode)
        labels.append("reorder:" + mode)
        tc = to_tables(m)
        index_mode = ["built", "absent", "built", "reversed"][(i // len(REORDER_MODES)) % 4]
    elif fam == "large":
        kind = LARGE_KINDS[i % len(LARGE_KINDS)]
        m = large_model(rng, kind)
        labels.append("large:" + kind)
        tc = to_tables(m)
        index_mode = ["built", "absent", "stale"][(i // len(LARGE_KINDS)) % 3]
        if index_mode == "stale":
            tc.build_index()
            prebuilt = True
        if (i // len(LARGE_KINDS)) % 4 != 0:
            # one departure in the first or the last row of a big table
            _ST["row"] = ["first", "last", "last"][(i // len(LARGE_KINDS)) % 3]
            for _ in range(6):
                label, need, fn = CATALOGUE[rng.randrange(len(CATALOGUE))]
                if label.startswith(("benign", "overlap-child", "dup-row")) or not _has(m, need):
                    continue
                try:
                    lab = fn(rng, tc)
                except LIB_ERRORS + (IndexError,):
                    lab = None
                if lab:
                    labels.append(lab)
                    break
    else:
        raise ValueError(f"unknown family {fam}")

    if index_mode == "fault":
        tc.build_index()
        index_label = apply_index_fault(rng, tc, INDEX_FAULTS[i % len(INDEX_FAULTS)])
        if rng.random() < 0.15:
            # ... and a row departure as well (index faults must not mask row faults or the other way round)
            try:
                lab = rng.choice(SUSPECT_OPS)(rng, tc)
            except LIB_ERRORS + (IndexError,):
                lab = None
            if lab:
                labels.append(lab)
    else:
        index_label = make_index(rng, tc, index_mode)
    if prebuilt and not tc.has_index():
        ctx.feature("stale-index-wrong-length")

    # ------------------------------------------------------------ verdicts from the rows actually present
    user_index = index_of(tc)
    back = from_tables(tc)
    if user_index is not None and (len(user_index[0]) != len(back.edges) or len(user_index[1]) != len(back.edges)):
        # has_index() is what tree_sequence() asks before deciding to build: an index made for another number of
        # edges is not an index of these edges (reject_reasons() says 'index.length' and the gate must refuse it)
        ctx.violation("gate/has-index-wrong-length", f"has_index() is True with {len(user_index[0])}/{len(user_index[1])} index entries "
                      f"for {len(back.edges)} edges (ops={labels}, index={index_mode})", None)
    canonical = canonical_index(tc) if user_index is not None else None

    def judge(index):
        reasons = reject_reasons(back, index)
        if reasons:
            return "reject", sorted(set(reasons))
        un = unlisted_reasons(back, index, canonical)
        if un:
            return "either", sorted(set(un))
        return "accept", []

    V_obj = judge(user_index)                       # tree_sequence(): builds the index when there is none
    V_rebuilt = judge(None) if user_index is not None else V_obj   # entry points that rebuild the index on their own copy
    verdict, reasons = V_obj
    ctx.feature("family:" + fam)
    ctx.feature("verdict:" + verdict)
    ctx.feature("index:" + str(index_mode))
    if index_label:
        ctx.feature("index-fault:" + index_label)
    for lab in labels:
        ctx.feature("op:" + lab[:48])
        if verdict == "accept":
            ctx.feature("accept-after:" + lab[:48])
    for rs in reasons:
        ctx.feature(("reason:" if verdict == "reject" else "either:") + rs)
    if user_index is not None and index_mode in ("stale",) and "index" in " ".join(reasons):
        ctx.feature("stale-index-inconsistent")
    ctx.sig((back.signature() if fam != "large" else (labels, back.L, len(back.nodes), len(back.edges)), tuple(labels), index_mode,
             str(user_index) if index_mode not in ("absent", "built") else ""),
            nontrivial=bool(labels) or index_mode not in ("absent", "built"))
    desc = f"family={fam} ops={labels} index={index_mode}{'/' + index_label if index_label else ''}"
    if case["k"] < 3:
        ctx.sample({"case": case, "ops": labels, "index": index_mode, "verdict": verdict, "reasons": reasons})
    before = rows_snapshot(tc)
    detail = {"model_after_ops": back.to_json() if fam != "large" else "(large: replay the case)", "index": user_index if fam != "large" else None}

    def attempt(how, fn, V, obj=None, obj_before=None):
        """Call one entry point; V = (verdict, reasons) for the collection it is given."""
        v, rs = V
        ctx.count("gate-calls:" + how)
        ctx.step(f"{how}: {desc}")
        try:
            ts = fn()
            outcome = "accepted"
        except LIB_ERRORS as e:
            outcome = "rejected"
            err = e
        except Exception as e:  # noqa: BLE001
            ctx.violation(f"gate/wrong-exception/{type(e).__name__}", f"{how}: {desc} (oracle: {v} {rs}) raised {e!r}, not a library error", detail)
            return None
        ctx.count("verdict-checks:" + v)
        if v == "reject" and outcome == "accepted":
            ctx.violation(f"gate/invalid-accepted/{rs[0]}", f"{how} accepted an invalid collection: {desc} violated={rs}", detail)
        elif v == "accept" and outcome == "rejected":
            ctx.violation("gate/valid-rejected", f"{how} rejected a valid collection ({err}): {desc}", detail)
        if outcome == "accepted":
            # what was accepted must be usable: iterate trees
            for t in ts.trees():
                t.num_edges
            if how == "tree_sequence":
                ctx.count("accepted-usable")
                if case["k"] % 4 == 1:
                    # the tables of a tree sequence that exists are valid by definition: they must pass the gate again
                    ctx.count("roundtrip-checks")
                    try:
                        ts.dump_tables().tree_sequence()
                    except LIB_ERRORS as e2:
                        ctx.violation("gate/roundtrip-rejected", f"tree_sequence() accepted, but the accepted tree sequence's own tables are rejected ({e2}): {desc}", detail)
        for o, b in ((tc, before), (obj, obj_before)):
            if o is None:
                continue
            after = rows_snapshot(o)
            if after != b:
                changed = [a[0] for a, bb in zip(after, b) if a != bb][:5]
                ctx.violation("gate/rows-changed", f"{how} changed table rows {changed} ({outcome}): {desc}", detail)
            ctx.count("rows-unchanged-checks")
        return outcome

    # ------------------------------------------------------------ alternate entry points (before tree_sequence(),
    # which may add an index to tc)
    k = case["k"]
    alts = [ALT_ENTRY_POINTS[(2 * k) % len(ALT_ENTRY_POINTS)], ALT_ENTRY_POINTS[(2 * k + 1 + (k // len(ALT_ENTRY_POINTS)) % 7 * 2) % len(ALT_ENTRY_POINTS)]]
    if fam == "large":
        alts = alts[:1]
    for name, kind in alts:
        if kind == "tables":
            if user_index is None:
                # TreeSequence.load_tables() does not build: "the tables must be indexed" -> either, but a library error
                V = ("either", ["index.absent"]) if verdict != "reject" else V_obj
            else:
                V = V_obj
            if name == "load_tables(tc)":
                fn = lambda: tskit.TreeSequence.load_tables(tc)  # noqa: E731
            else:
                form = "positional" if "positional" in name else "keyword"
                fn = lambda form=form: _ll_load_tables(tc, form)  # noqa: E731
            attempt(name, fn, V)
        elif kind == "tables-build":
            if name.startswith("load_tables"):
                fn = lambda: tskit.TreeSequence.load_tables(tc, build_indexes=True)  # noqa: E731
            else:
                form = "positional-build" if "positional" in name else "keyword-build"
                fn = lambda form=form: _ll_load_tables(tc, form)  # noqa: E731
            attempt(name, fn, V_rebuilt)
            if index_of(tc) != user_index:
                ctx.violation("gate/index-changed", f"{name} changed the caller's index: {desc}", detail)
        elif kind == "object":
            with tempfile.TemporaryDirectory(prefix="c02-") as d:
                try:
                    if name.startswith("copy"):
                        o = tc.copy()
                    elif name.startswith("pickle"):
                        o = pickle.loads(pickle.dumps(tc))
                    elif name.startswith("fromdict"):
                        o = tskit.TableCollection.fromdict(tc.asdict())
                    else:
                        o = tskit.TableCollection.load(_dump(tc, d, "path"))
                except LIB_ERRORS:
                    ctx.count("copy-refused")
                    continue
            ob = rows_snapshot(o)
            if ob == before and index_of(o) == user_index:
                V = V_obj
            else:
                # the copy is not the same collection (fidelity of copies is C05/C10's business): judge what it holds
                ctx.count("copy-differs")
                oi = index_of(o)
                mb = from_tables(o)
                rr = reject_reasons(mb, oi)
                V = ("reject", sorted(set(rr))) if rr else ("either", ["copy-differs"])
            attempt(name, lambda: o.tree_sequence(), V, obj=o, obj_before=ob)
        else:
            with tempfile.TemporaryDirectory(prefix="c02-") as d:
                try:
                    path = _dump(tc, d, "fileobj" if "dump(fileobj)" in name else "path")
                except LIB_ERRORS:
                    ctx.count("dump-refused")
                    continue
                if user_index is None:
                    # whether load() indexes an unindexed file is not specified: either (never accept an invalid one)
                    V = ("either", ["index.absent"]) if verdict != "reject" else V_obj
                    ctx.count("load-without-index")
                else:
                    V = V_obj
                if name == "tskit.load(fileobj)":
                    fn = lambda: _load_fileobj(path)  # noqa: E731
                elif name == "TreeSequence.load(path)":
                    fn = lambda: tskit.TreeSequence.load(path)  # noqa: E731
                elif name == "tskit.load(Path)":
                    fn = lambda: tskit.load(pathlib.Path(path))  # noqa: E731
                elif name == "tskit.load(skip_reference_sequence)":
                    fn = lambda: tskit.load(path, skip_reference_sequence=True)  # noqa: E731
                else:
                    fn = lambda: tskit.load(path)  # noqa: E731
                attempt(name, fn, V)
                ctx.count("gate-calls:tskit.load")   # all file forms together (REQUIRED)

    # ------------------------------------------------------------ the main entry point, twice on the same object
    first = attempt("tree_sequence", lambda: tc.tree_sequence(), V_obj)
    if first is not None and k % 3 == 0:
        # the same object again (it now has an index if the library could build one): same answer, rows still untouched
        second = attempt("tree_sequence(again)", lambda: tc.tree_sequence(), V_obj)
        if second is not None and second != first:
            ctx.violation("gate/second-call-differs", f"tree_sequence() {first} then {second} on the same unchanged collection: {desc}", detail)
