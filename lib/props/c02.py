"""C02 — only table collections meeting the data-model requirements become tree sequences.

Oracle: an independent validity predicate over the raw rows (written from docs/data-model.md,
"Valid tree sequence requirements", restricted to what the property statement lists).  Tri-state:
  reject  - the predicate finds a violated listed requirement  -> tree_sequence()/load MUST raise a
            library error and leave every table row untouched;
  accept  - a valid generated model, possibly changed by an operator known to keep validity -> MUST load;
  either  - changed by a 'suspect' operator but the predicate finds nothing (requirements the statement
            does not list) -> only 'raises a library error or returns', and rows untouched, are checked.
"""
import math
import os
import tempfile

import numpy as np
import tskit

from lib import gen
from lib.harness import case_rng
from lib.model import NULL, forest
from lib.tsk import from_tables, tables_bytes, to_tables

ID = "C02"
INF = float("inf")
NAN = float("nan")


def cases(tier, seed):
    n = 9000 if tier == "quick" else 600000
    for k in range(n):
        yield {"gen": "mutate", "k": k}


# ----------------------------------------------------------------------------- reference predicate


def fin(x):
    return not (math.isnan(x) or math.isinf(x))


def reject_reasons(m, index):
    """m: RowModel read back from the tables through raw columns. index: None or (I, O) lists."""
    R = []
    L = m.L
    if not (L > 0):
        R.append("sequence_length")
        return R
    n, ns, nm = len(m.nodes), len(m.sites), len(m.mutations)
    npop, nind = len(m.populations), len(m.individuals)
    for j, (fl, t, pop, ind, _) in enumerate(m.nodes):
        if not fin(t):
            R.append("node.time-nonfinite")
        if not (-1 <= pop < npop):
            R.append("node.population-range")
        if not (-1 <= ind < nind):
            R.append("node.individual-range")
    for j, (fl, loc, pars, _) in enumerate(m.individuals):
        for p in pars:
            if not (-1 <= p < nind):
                R.append("individual.parents-range")
    edges_ok = True
    for j, (l, r, p, c, _) in enumerate(m.edges):
        if not (0 <= p < n) or not (0 <= c < n):
            R.append("edge.node-range")
            edges_ok = False
            continue
        if not (fin(l) and fin(r)):
            R.append("edge.coord-nonfinite")
            edges_ok = False
            continue
        if not (0 <= l < r <= L):
            R.append("edge.interval")
            edges_ok = False
        if fin(m.nodes[p][1]) and fin(m.nodes[c][1]) and not (m.nodes[p][1] > m.nodes[c][1]):
            R.append("edge.parent-not-older")
            edges_ok = False
    if edges_ok and not any(r.startswith("node.time") for r in R):
        seen = set()
        last = None
        for j, (l, r, p, c, _) in enumerate(m.edges):
            if last is not None:
                pl, pr, pp, pc = last
                if m.nodes[p][1] < m.nodes[pp][1]:
                    R.append("edge.order-parent-time")
                if p != pp and p in seen:
                    R.append("edge.order-noncontiguous-parent")
                if p == pp:
                    if c < pc:
                        R.append("edge.order-child")
                    elif c == pc:
                        if l < pl:
                            R.append("edge.order-left")
                        elif l == pl:
                            R.append("edge.duplicate")
            seen.add(p)
            last = (l, r, p, c)
        # disjoint child intervals
        by_child = {}
        for (l, r, p, c, _) in m.edges:
            by_child.setdefault(c, []).append((l, r))
        for c, ivs in by_child.items():
            ivs.sort()
            for a, b in zip(ivs, ivs[1:]):
                if b[0] < a[1]:
                    R.append("edge.child-intervals-overlap")
    lastpos = None
    sites_ok = True
    for j, (pos, anc, _) in enumerate(m.sites):
        if not fin(pos):
            R.append("site.position-nonfinite")
            sites_ok = False
            continue
        if not (0 <= pos < L):
            R.append("site.position-range")
            sites_ok = False
        if lastpos is not None and pos < lastpos:
            R.append("site.order")
            sites_ok = False
        if lastpos is not None and pos == lastpos:
            R.append("site.duplicate-position")
            sites_ok = False
        lastpos = pos
    muts_ok = True
    lastsite = None
    for k, (s, u, d, p, t, _) in enumerate(m.mutations):
        if not (0 <= s < ns):
            R.append("mutation.site-range")
            muts_ok = False
        if not (0 <= u < n):
            R.append("mutation.node-range")
            muts_ok = False
        if not (-1 <= p < nm):
            R.append("mutation.parent-range")
            muts_ok = False
        if t is not None and not fin(t):
            R.append("mutation.time-nonfinite")
            muts_ok = False
        if lastsite is not None and 0 <= s < ns and s < lastsite:
            R.append("mutation.order-site")
            muts_ok = False
        lastsite = s
    if muts_ok:
        for k, (s, u, d, p, t, _) in enumerate(m.mutations):
            if p == k:
                R.append("mutation.parent-self")
            elif p > k:
                R.append("mutation.parent-after-child")
            if t is not None and fin(m.nodes[u][1]) and t < m.nodes[u][1]:
                R.append("mutation.time-younger-than-node")
            if p != NULL and p < k and m.mutations[p][0] == s:
                pt = m.mutations[p][4]
                if t is not None and pt is not None and t > pt:
                    R.append("mutation.time-older-than-parent-mutation")
        for j in range(ns):
            ks = [k for k in range(nm) if m.mutations[k][0] == j]
            kn = [m.mutations[k][4] is not None for k in ks]
            if any(kn) and not all(kn):
                R.append("mutation.time-known-unknown-mix")
            elif ks and all(kn):
                ts_ = [m.mutations[k][4] for k in ks]
                if any(b > a for a, b in zip(ts_, ts_[1:])):
                    R.append("mutation.order-time")
        if edges_ok and sites_ok and not R:
            for k, (s, u, d, p, t, _) in enumerate(m.mutations):
                if t is None:
                    continue
                fr = forest(m, m.sites[s][0])
                pu = fr.par(u)
                if pu != NULL and not (t < m.nodes[pu][1]):
                    R.append("mutation.time-not-younger-than-parent-node")
    lastt = None
    for (l, r, u, src, dst, t, _) in m.migrations:
        if not (0 <= u < n):
            R.append("migration.node-range")
        if not (0 <= src < npop) or not (0 <= dst < npop):
            R.append("migration.population-range")
        if not fin(t):
            R.append("migration.time-nonfinite")
        elif lastt is not None and fin(lastt) and t < lastt:
            R.append("migration.order-time")
        lastt = t
        if not (fin(l) and fin(r)):
            R.append("migration.coord-nonfinite")
        elif not (0 <= l < r <= L):
            R.append("migration.interval")
    if index is not None and edges_ok:
        I, O = index
        ne = len(m.edges)
        if len(I) != ne or len(O) != ne:
            R.append("index.length")
        elif any(not (0 <= e < ne) for e in I) or any(not (0 <= e < ne) for e in O):
            R.append("index.entry-range")
        elif sorted(I) != list(range(ne)) or sorted(O) != list(range(ne)):
            R.append("index.not-permutation")
        else:
            if any(m.edges[a][0] > m.edges[b][0] for a, b in zip(I, I[1:])):
                R.append("index.insertion-not-sorted-by-left")
            if any(m.edges[a][1] > m.edges[b][1] for a, b in zip(O, O[1:])):
                R.append("index.removal-not-sorted-by-right")
    return R


# ----------------------------------------------------------------------------- operators


def setcol(tc, table, col, j, v):
    t = getattr(tc, table)
    a = getattr(t, col).copy()
    a[j] = v
    setattr(t, col, a)


def nrows(tc, table):
    return getattr(tc, table).num_rows


REFCOLS = [("edges", "parent", "nodes", False), ("edges", "child", "nodes", False), ("mutations", "node", "nodes", False),
           ("mutations", "site", "sites", False), ("mutations", "parent", "mutations", True),
           ("nodes", "population", "populations", True), ("nodes", "individual", "individuals", True),
           ("migrations", "node", "nodes", False), ("migrations", "source", "populations", False),
           ("migrations", "dest", "populations", False), ("individuals", "parents", "individuals", True)]
FLOATCOLS = [("edges", "left"), ("edges", "right"), ("sites", "position"), ("nodes", "time"), ("mutations", "time"),
             ("migrations", "left"), ("migrations", "right"), ("migrations", "time")]


def op_ref(rng, tc):
    table, col, ref, _ = rng.choice(REFCOLS)
    a = getattr(getattr(tc, table), col)
    if len(a) == 0:
        return None
    n = nrows(tc, ref)
    v = rng.choice([-2, -1, n, n + 1, 2 ** 31 - 1, -(2 ** 31), 0, max(n - 1, 0)])
    j = rng.randrange(len(a))
    setcol(tc, table, col, j, v)
    return f"ref:{table}.{col}={'n' if v == n else 'n+1' if v == n + 1 else v if v < 0 or v > 1000 else 'inrange'}"


def op_float(rng, tc):
    table, col = rng.choice(FLOATCOLS)
    a = getattr(getattr(tc, table), col)
    if len(a) == 0:
        return None
    L = tc.sequence_length
    j = rng.randrange(len(a))
    cur = a[j]
    v = rng.choice([NAN, INF, -INF, -1.0, -0.0, 0.0, L, L + 1, math.nextafter(L, 0), math.nextafter(L, INF), 1e308, -1e308,
                    5e-324, -5e-324,
                    math.nextafter(cur, INF) if np.isfinite(cur) else 0.0, math.nextafter(cur, -INF) if np.isfinite(cur) else 0.0])
    setcol(tc, table, col, j, v)
    return f"float:{table}.{col}"


def op_interval(rng, tc):
    table = rng.choice(["edges", "migrations"])
    t = getattr(tc, table)
    if t.num_rows == 0:
        return None
    j = rng.randrange(t.num_rows)
    mode = rng.choice(["left=right", "swap", "right=L", "left=0", "right<left"])
    l, r = t.left[j], t.right[j]
    if mode == "left=right":
        setcol(tc, table, "left", j, r)
    elif mode == "swap":
        setcol(tc, table, "left", j, r)
        setcol(tc, table, "right", j, l)
    elif mode == "right=L":
        setcol(tc, table, "right", j, tc.sequence_length)
    elif mode == "left=0":
        setcol(tc, table, "left", j, 0.0)
    else:
        setcol(tc, table, "right", j, math.nextafter(l, -INF))
    return f"interval:{table}:{mode}"


def op_time_order(rng, tc):
    e = tc.edges
    if e.num_rows == 0:
        return None
    j = rng.randrange(e.num_rows)
    p, c = int(e.parent[j]), int(e.child[j])
    mode = rng.choice(["equal", "younger", "next"])
    tcx = tc.nodes.time[c]
    v = tcx if mode == "equal" else tcx - 1 if mode == "younger" else math.nextafter(tcx, INF)
    setcol(tc, "nodes", "time", p, v)
    return f"time-order:{mode}"


def _swap_rows(tc, table, a, b):
    t = getattr(tc, table)
    ra, rb = t[a], t[b]
    t[a] = rb
    t[b] = ra


def op_swap_rows(rng, tc):
    table = rng.choice(["edges", "edges", "sites", "mutations", "migrations"])
    t = getattr(tc, table)
    if t.num_rows < 2:
        return None
    a = rng.randrange(t.num_rows - 1)
    b = a + 1 if rng.random() < 0.7 else rng.randrange(t.num_rows)
    if a == b:
        return None
    _swap_rows(tc, table, a, b)
    return f"swap-rows:{table}"


def op_dup_row(rng, tc):
    table = rng.choice(["edges", "sites"])
    t = getattr(tc, table)
    if t.num_rows == 0:
        return None
    j = rng.randrange(t.num_rows)
    rows = [t[k] for k in range(t.num_rows)]
    rows.insert(j + 1, rows[j])
    c = t.copy()
    c.clear()
    for r in rows:
        c.append(r)
    if table == "sites":
        ms = tc.mutations.site.copy()
        ms[ms > j] += 1
        tc.mutations.site = ms
    t.replace_with(c)
    return f"dup-row:{table}"


def op_overlap_child(rng, tc):
    e = tc.edges
    if e.num_rows == 0:
        return None
    j = rng.randrange(e.num_rows)
    c = int(e.child[j])
    older = [u for u in range(tc.nodes.num_rows) if tc.nodes.time[u] > tc.nodes.time[c]]
    if not older:
        return None
    p = rng.choice(older)
    l, r = e.left[j], e.right[j]
    mode = rng.choice(["same", "inside", "abut"])
    if mode == "same":
        nl, nr = l, r
    elif mode == "inside":
        nl, nr = (l + r) / 2, r
    else:
        nl, nr = r, tc.sequence_length
        if nl >= nr:
            return None
    e.add_row(nl, nr, p, c)
    tc.sort()  # keep everything else in canonical order so that only the overlap is wrong
    return f"overlap-child:{mode}"


def op_mut_parent(rng, tc):
    mu = tc.mutations
    if mu.num_rows == 0:
        return None
    k = rng.randrange(mu.num_rows)
    v = rng.choice([k, min(k + 1, mu.num_rows - 1), mu.num_rows - 1, 0, -1])
    setcol(tc, "mutations", "parent", k, v)
    return "mutation-parent"


def op_mut_time(rng, tc):
    mu = tc.mutations
    if mu.num_rows == 0:
        return None
    k = rng.randrange(mu.num_rows)
    u = int(mu.node[k])
    tn = tc.nodes.time[u]
    mode = rng.choice(["unknown", "node-time", "below-node", "far-above", "parent-mut+", "all-unknown", "all-node-time",
                       "parent-node-time", "parent-node-time", "just-below-parent-node"])
    if mode in ("parent-node-time", "just-below-parent-node"):
        # the boundary of "younger than the parent of the node in the tree at the site": equal is invalid,
        # the next double below is valid
        pos = tc.sites.position[int(mu.site[k])] if 0 <= int(mu.site[k]) < tc.sites.num_rows else None
        e = tc.edges
        par = [int(e.parent[j]) for j in range(e.num_rows) if pos is not None and int(e.child[j]) == u and e.left[j] <= pos < e.right[j]]
        if not par or not (0 <= par[0] < tc.nodes.num_rows):
            return None
        tp = tc.nodes.time[par[0]]
        # make the whole site 'known' so that the only thing wrong is this bound
        sk = [j for j in range(mu.num_rows) if mu.site[j] == mu.site[k]]
        if len(sk) != 1:
            return None
        setcol(tc, "mutations", "time", k, tp if mode == "parent-node-time" else math.nextafter(tp, -INF))
        return f"mut-time:{mode}"
    if mode == "unknown":
        setcol(tc, "mutations", "time", k, tskit.UNKNOWN_TIME)
    elif mode == "node-time":
        setcol(tc, "mutations", "time", k, tn)
    elif mode == "below-node":
        setcol(tc, "mutations", "time", k, math.nextafter(tn, -INF))
    elif mode == "far-above":
        setcol(tc, "mutations", "time", k, tn + 1000)
    elif mode == "parent-mut+":
        p = int(mu.parent[k])
        if p < 0 or tskit.is_unknown_time(mu.time[p]):
            return None
        setcol(tc, "mutations", "time", k, math.nextafter(mu.time[p], INF))
    elif mode == "all-unknown":
        mu.time = np.full(mu.num_rows, tskit.UNKNOWN_TIME)
    else:
        mu.time = tc.nodes.time[mu.node]
        return "mut-time:all-node-time"
    return f"mut-time:{mode}"


def op_seqlen(rng, tc):
    v = rng.choice([0.0, -1.0, NAN, -0.0, tc.sequence_length / 2, tc.sequence_length * 2, INF])
    tc.sequence_length = v
    return "sequence_length"


def op_benign(rng, tc):
    """Changes that keep validity (verdict 'accept' when the predicate agrees)."""
    mode = rng.choice(["flags", "metadata", "L+", "anc", "time-shift", "node-append", "pop-append", "refseq", "drop-mutations"])
    if mode == "flags" and tc.nodes.num_rows:
        f = tc.nodes.flags.copy()
        f[rng.randrange(len(f))] ^= rng.choice([2, 4, 1 << 20])
        tc.nodes.flags = f
    elif mode == "metadata":
        tc.metadata = b"xyz"
    elif mode == "L+":
        tc.sequence_length = tc.sequence_length + 1
    elif mode == "anc" and tc.sites.num_rows:
        j = rng.randrange(tc.sites.num_rows)
        tc.sites[j] = tc.sites[j].replace(ancestral_state="ZZ")
    elif mode == "time-shift":
        tc.nodes.time = tc.nodes.time + 4.0
        mt = tc.mutations.time
        tc.mutations.time = np.where(tskit.is_unknown_time(mt), mt, mt + 4.0)
        if tc.migrations.num_rows:
            tc.migrations.time = tc.migrations.time + 4.0
    elif mode == "node-append":
        tc.nodes.add_row(flags=rng.choice([0, 1]), time=rng.choice([-5.0, 0.0, 1e6]))
    elif mode == "pop-append":
        tc.populations.add_row(metadata=b"p")
    elif mode == "refseq":
        tc.reference_sequence.data = "ACGT"
    elif mode == "drop-mutations":
        tc.mutations.clear()
    else:
        return None
    return f"benign:{mode}"


SUSPECT_OPS = [op_ref, op_ref, op_float, op_float, op_interval, op_time_order, op_swap_rows, op_swap_rows, op_dup_row,
               op_overlap_child, op_mut_parent, op_mut_time, op_mut_time, op_seqlen]


def make_index(rng, tc, mode):
    """Returns a description; leaves tc with the requested index state."""
    ne = tc.edges.num_rows
    if mode == "absent":
        tc.drop_index()
        return
    try:
        tc.build_index()
    except tskit.LibraryError:
        tc.drop_index()
        return "absent(build failed)"
    if mode == "built" or ne == 0:
        return
    I = tc.indexes.edge_insertion_order.copy()
    O = tc.indexes.edge_removal_order.copy()
    if mode == "reversed":
        I = I[::-1].copy()
    elif mode == "permuted":
        a, b = rng.randrange(ne), rng.randrange(ne)
        O[a], O[b] = O[b], O[a]
    elif mode == "out-of-range":
        (I if rng.random() < 0.5 else O)[rng.randrange(ne)] = rng.choice([-1, ne, ne + 1, 2 ** 31 - 1])
    elif mode == "duplicate" and ne > 1:
        which = rng.randrange(4)
        if which == 0:
            I[0] = I[1]
        elif which == 1:
            I[-1] = I[0]
        elif which == 2:
            O[-1] = O[0]   # the tail of the removal order (edges ending at L) is only seen by reverse traversal
        else:
            O[0] = O[-1]
    elif mode == "stale":
        pass  # built before a later row edit: handled by the caller ordering
    tc.indexes = tskit.TableCollectionIndexes(edge_insertion_order=I, edge_removal_order=O)
    return


LIB_ERRORS = (tskit.LibraryError, ValueError, OverflowError)


def rows_snapshot(tc):
    return [x for x in tables_bytes(tc) if not x[0].startswith("/indexes")]


def run_case(case, ctx):
    rng = case_rng(case)
    m = gen.gen_full(rng, max_nodes=9, max_bp=4, max_sites=5, pops=True, migrations=True)
    tc = to_tables(m)
    r = rng.random()
    labels = []
    suspect = False
    if r < 0.12:
        pass  # untouched valid model
    elif r < 0.27:
        lab = op_benign(rng, tc)
        if lab:
            labels.append(lab)
    else:
        k = 1 if r < 0.8 else rng.randint(2, 4)
        for _ in range(k):
            try:
                lab = rng.choice(SUSPECT_OPS)(rng, tc)
            except LIB_ERRORS + (IndexError,):
                lab = None  # the operator itself was refused or met rows an earlier operator broke (e.g. sort() inside op_overlap_child on already broken rows)
            if lab:
                labels.append(lab)
                suspect = True
    stale = False
    index_mode = rng.choice(["absent", "built", "built", "reversed", "permuted", "out-of-range", "duplicate"])
    make_index(rng, tc, index_mode)
    user_index = None
    if tc.has_index():
        user_index = ([int(x) for x in tc.indexes.edge_insertion_order], [int(x) for x in tc.indexes.edge_removal_order])
        if index_mode != "built":
            suspect = True
    back = from_tables(tc)
    reasons = reject_reasons(back, user_index)
    verdict = "reject" if reasons else ("either" if suspect else "accept")
    ctx.feature("verdict:" + verdict)
    ctx.feature("index:" + index_mode)
    for lab in labels:
        ctx.feature("op:" + lab.split("=")[0][:40])
    for rs in set(reasons):
        ctx.feature("reason:" + rs)
    ctx.sig((m.signature(), tuple(labels), index_mode, str(user_index) if index_mode not in ("absent", "built") else ""),
            nontrivial=bool(labels) or index_mode not in ("absent", "built"))
    desc = f"ops={labels} index={index_mode} reasons={sorted(set(reasons))}"
    if case["k"] < 3:
        ctx.sample({"case": case, "ops": labels, "index": index_mode, "verdict": verdict, "reasons": sorted(set(reasons))})
    before = rows_snapshot(tc)
    detail = {"model_after_ops": back.to_json(), "index": user_index}

    def attempt(how, fn):
        ctx.count("gate-calls:" + how)
        try:
            ts = fn()
            outcome = "accepted"
        except LIB_ERRORS as e:
            outcome = "rejected"
            err = e
        except Exception as e:  # noqa: BLE001
            ctx.violation(f"gate/wrong-exception/{type(e).__name__}", f"{how}: {desc} raised {e!r}, not a library error", detail)
            return
        if verdict == "reject" and outcome == "accepted":
            key = sorted(set(reasons))[0]
            ctx.violation(f"gate/invalid-accepted/{key}", f"{how} accepted an invalid collection: {desc}", detail)
        elif verdict == "accept" and outcome == "rejected":
            ctx.violation("gate/valid-rejected", f"{how} rejected a valid collection ({err}): {desc}", detail)
        if outcome == "accepted":
            # what was accepted must be usable: iterate trees and decode sites
            for t in ts.trees():
                t.num_edges
            if how == "tree_sequence":
                ctx.count("accepted-usable")
        after = rows_snapshot(tc)
        if after != before:
            changed = [a[0] for a, b in zip(after, before) if a != b][:5]
            ctx.violation("gate/rows-changed", f"{how} changed table rows {changed} ({outcome}): {desc}", detail)
        ctx.count("rows-unchanged-checks")

    attempt("tree_sequence", lambda: tc.tree_sequence())
    # dump -> tskit.load must agree (index travels with the file; absent index is an error for load?)
    if rng.random() < 0.5:
        with tempfile.TemporaryDirectory() as d:
            path = os.path.join(d, "x.trees")
            try:
                tc.dump(path)
            except LIB_ERRORS:
                ctx.count("dump-refused")
                return
            if tc.has_index():
                attempt("tskit.load", lambda: tskit.load(path))
            else:
                ctx.count("load-without-index")
                try:
                    tskit.load(path)
                    if verdict == "reject":
                        ctx.violation(f"gate/invalid-accepted/{sorted(set(reasons))[0]}", f"tskit.load accepted: {desc}", detail)
                except LIB_ERRORS:
                    pass  # whether load() indexes an unindexed file is not specified: either
