"""Helpers of lib/props/c16.py added by the audit round (alternative entry points / argument forms, exact
boundaries, large instances, schema-carrying tables).  Pure input construction + call plumbing: no oracle
lives here (the expectation is still c16.vcf_expect over c03.GenoRef).

  arg forms       ploidy as numpy integer scalars; individuals as list / tuple / range / int8..uint64 arrays /
                  read-only / strided views / lists of numpy scalars; individual_names as list / tuple / str
                  array / object array; isolated_as_missing and allow_position_zero as bool / int; every
                  default spelled out explicitly (ploidy=None, site_mask=None, ...)
  mask forms      beyond 0/1 values: other non-zero integers (2, -1, 255, 256, 2**32), fractional / nan / -0.0
                  floats, read-only and strided boolean views, object arrays, lists of numpy.bool_
  entries         as_vcf, write_vcf(StringIO | text file | TextIOWrapper over BytesIO | write-only object |
                  sys.stdout), write_vcf(output=...), tskit.vcf.VcfWriter(...).write called twice
  big_model       130 .. 1026 samples (>= 64 / 128 / 256 output nodes, individuals, ploidy) and 16 386 ..
                  65 538 samples ("huge": 2 * index beyond 2^15 / 2^16 in the genotype text template)
  many_sites      a small genealogy with 130 .. 700 sites (site ids and mask lengths beyond 127 / 255, the
                  legacy transform incrementing through long runs of equal positions)
  scale_model     all coordinates times 2^k (positions beyond 2^31 / 2^32 / 2^40) or times 2^-3 (L < 1)
  add_schemas     JSON / struct metadata schemas + valid metadata on individuals, nodes, sites, mutations
                  (write_vcf decodes Individual, Node and Site rows on its way)
"""
import atexit
import collections
import contextlib
import io
import json
import os
import shutil
import sys
import tempfile

import numpy as np
import tskit

from lib.model import NODE_IS_SAMPLE, NULL, RowModel, mutation_parents, sort_edges_key

SIMPLE = ["A", "C", "G", "T"]
NINE = ["A", "C", "G", "T", "N", "AC", "", "é", "0"]

# ------------------------------------------------------------------------------------ argument forms

PLOIDY_FORMS = ["int", "int", "np.int64", "np.int32", "np.intp"]  # (narrow unsigned scalars: NumPy 2 refuses `65540 % np.uint8(2)`; the documented type is int)


def ploidy_form(p, form):
    if form == "int" or not (0 <= p < 128):
        return int(p) if form == "int" or p < 0 else np.int64(p)
    return getattr(np, form.split(".")[1])(p)


IND_FORMS = ["list", "list", "tuple", "int64", "int64", "int32", "int8", "uint32", "uint64", "list-np", "range",
             "readonly", "strided", "int16"]


def individuals_form(ids, form):
    """The same id list in another container; falls back to a list when the container cannot hold it."""
    ids = [int(i) for i in ids]
    if form == "tuple":
        return "tuple", tuple(ids)
    if form in ("int64", "int32", "int16", "int8") and all(
            np.iinfo(getattr(np, form)).min <= i <= np.iinfo(getattr(np, form)).max for i in ids):
        return form, np.array(ids, dtype=getattr(np, form))
    if form in ("uint32", "uint64") and all(i >= 0 for i in ids):
        return form, np.array(ids, dtype=getattr(np, form))
    if form == "list-np":
        return form, [np.int64(i) for i in ids]
    if form == "range" and len(ids) >= 1 and ids == list(range(ids[0], ids[0] + len(ids))):
        return form, range(ids[0], ids[0] + len(ids))
    if form == "readonly":
        x = np.array(ids, dtype=np.int64)
        x.setflags(write=False)
        return form, x
    if form == "strided" and all(-2 ** 31 <= i < 2 ** 31 for i in ids):
        x = np.full(2 * len(ids), 7, dtype=np.int32)
        x[::2] = ids
        return form, x[::2]
    return "list", list(ids)


NAME_FORMS = ["list", "list", "tuple", "str-array", "object-array"]


def names_form(names, form):
    if form == "tuple":
        return tuple(names)
    if form == "str-array" and names:
        return np.array(names)
    if form == "object-array" and names:
        return np.array(names, dtype=object)
    return list(names)


def flag_form(rng, value):
    """bool -> bool | int (the documented type is bool; 0/1 are what older scripts pass)."""
    return int(value) if rng.random() < 0.3 else bool(value)


# mask forms: name -> builder(list of bools) -> object; every builder keeps the truth value of each entry
OTHER_TRUE_INTS = [2, -1, 255, 256, 65536, 2 ** 32, -2 ** 31]
OTHER_TRUE_FLOATS = [0.5, -0.25, 1e-300, float("nan"), float("inf"), 2.0]


def _strided(x):
    y = np.zeros(2 * len(x), dtype=x.dtype)
    y[1::2] = 1
    y[::2] = x
    return y[::2]


def _readonly(x):
    x.setflags(write=False)
    return x


EXTRA_MASK_FORMS = {
    "int64-other": lambda b: np.array([OTHER_TRUE_INTS[i % len(OTHER_TRUE_INTS)] if x else 0 for i, x in enumerate(b)],
                                      dtype=np.int64),
    "uint16-256": lambda b: np.array([256 if x else 0 for x in b], dtype=np.uint16),
    "list-int-other": lambda b: [OTHER_TRUE_INTS[(i + 2) % len(OTHER_TRUE_INTS)] if x else 0 for i, x in enumerate(b)],
    "float-other": lambda b: np.array([OTHER_TRUE_FLOATS[i % len(OTHER_TRUE_FLOATS)] if x else (-0.0 if i % 2 else 0.0)
                                       for i, x in enumerate(b)], dtype=np.float64),
    "readonly-bool": lambda b: _readonly(np.array([bool(x) for x in b], dtype=bool)),
    "strided-bool": lambda b: _strided(np.array([bool(x) for x in b], dtype=bool)),
    "object-array": lambda b: np.array([bool(x) for x in b] + [None], dtype=object)[:-1],
    "list-np.bool_": lambda b: [np.bool_(x) for x in b],
    "float32-array": lambda b: np.array([1.0 if x else 0.0 for x in b], dtype=np.float32),
}

# ------------------------------------------------------------------------------------ entry points

ENTRIES = ["as_vcf"] * 10 + ["write_vcf:stringio"] * 3 + ["write_vcf:output-keyword"] * 2 + [
    "write_vcf:textiowrapper", "write_vcf:write-only-object", "write_vcf:stdout", "write_vcf:file",
    "VcfWriter", "VcfWriter", "VcfWriter:twice"]

WRITER_DEFAULTS = dict(ploidy=None, contig_id="1", individuals=None, individual_names=None, position_transform=None,
                       site_mask=None, sample_mask=None, isolated_as_missing=None, allow_position_zero=False)


_SCRATCH = []


def scratch_file(name):
    """A path inside ONE per-process scratch directory (creating and removing a directory per call costs ~2 ms on
    the shared /tmp); the caller removes the file."""
    if not _SCRATCH or _SCRATCH[0][0] != os.getpid():
        d = tempfile.mkdtemp(prefix="c16-")
        _SCRATCH[:] = [(os.getpid(), d)]
        atexit.register(shutil.rmtree, d, True)
    return os.path.join(_SCRATCH[0][1], name)


class SecondWriteDiffers(AssertionError):
    """Raised by call_entry (never by tskit): VcfWriter.write is not repeatable."""


class WriteOnly:
    """The least a print(file=...) target needs."""

    def __init__(self):
        self.parts = []

    def write(self, s):
        if not isinstance(s, str):
            raise TypeError(f"write() got {type(s).__name__}")
        self.parts.append(s)
        return len(s)


def call_entry(ts, entry, args, kw):
    """Run one export through `entry`; returns the VCF text (exceptions propagate to the caller's attempt())."""
    if entry == "as_vcf":
        return ts.as_vcf(*args, **kw)
    if entry == "write_vcf:stringio":
        buf = io.StringIO()
        ts.write_vcf(buf, *args, **kw)
        return buf.getvalue()
    if entry == "write_vcf:output-keyword":
        buf = io.StringIO()
        kw = dict(kw)
        if args:
            kw["ploidy"] = args[0]
        ts.write_vcf(output=buf, **kw)
        return buf.getvalue()
    if entry == "write_vcf:textiowrapper":
        raw = io.BytesIO()
        w = io.TextIOWrapper(raw, encoding="utf-8", newline="\n")
        ts.write_vcf(w, *args, **kw)
        w.flush()
        return raw.getvalue().decode("utf-8")
    if entry == "write_vcf:write-only-object":
        w = WriteOnly()
        ts.write_vcf(w, *args, **kw)
        return "".join(w.parts)
    if entry == "write_vcf:stdout":
        buf = io.StringIO()
        with contextlib.redirect_stdout(buf):
            ts.write_vcf(sys.stdout, *args, **kw)
        return buf.getvalue()
    if entry == "write_vcf:file":
        p = scratch_file("x.vcf")
        try:
            with open(p, "w", encoding="utf-8", newline="\n") as f:
                ts.write_vcf(f, *args, **kw)
            with open(p, encoding="utf-8", newline="\n") as f:
                return f.read()
        finally:
            if os.path.exists(p):
                os.unlink(p)
    if entry.startswith("VcfWriter"):
        full = dict(WRITER_DEFAULTS)
        full.update(kw)
        if args:
            full["ploidy"] = args[0]
        if full["allow_position_zero"] is None:
            full["allow_position_zero"] = False  # what TreeSequence.write_vcf does before building the writer
        writer = tskit.vcf.VcfWriter(ts, **full)
        buf = io.StringIO()
        writer.write(buf)
        if entry == "VcfWriter:twice":
            again = io.StringIO()
            writer.write(again)
            if again.getvalue() != buf.getvalue():
                raise SecondWriteDiffers(f"second write() of one VcfWriter gave {again.getvalue()!r}, the first "
                                         f"{buf.getvalue()!r}")
        return buf.getvalue()
    raise AssertionError(entry)


# ------------------------------------------------------------------------------------ large instances

BIG_SAMPLES = [66, 126, 128, 130, 254, 256, 258, 300, 520, 1026]
HUGE_SAMPLES = [32770, 65538, 32770, 16386]


def _site_rows(rng, m, nsites, leaves, inner, pool, positions=None):
    L = int(m.L)
    if positions is None:
        positions = sorted(rng.sample(range(L), min(nsites, L)))
    time = [r[1] for r in m.nodes]
    sites, muts = [], []
    for j, pos in enumerate(positions):
        anc = rng.choice(pool)
        sites.append((float(pos), anc, b""))
        lst = []
        for _ in range(rng.choice([0, 1, 1, 2, 3, 6])):
            u = rng.choice(inner) if (inner and rng.random() < 0.5) else rng.choice(leaves)
            lst.append((u, rng.choice(pool)))
        for u, d in sorted(lst, key=lambda z: -time[z[0]]):
            muts.append((j, u, d, NULL, None, b""))
    m.sites = sites
    m.mutations = muts
    par = mutation_parents(m)
    m.mutations = [(s, u, d, par[k], t, md) for k, (s, u, d, _, t, md) in enumerate(m.mutations)]


def big_model(rng, huge=False, turn=0):
    """(model, layout tag): leaves at time 0 under a few inner nodes, two trees, some isolated leaves.
    huge: the sample count rotates with `turn` (not drawn), so that few cases still visit every size."""
    # the layout decides the size: > 128 / > 256 INDIVIDUALS need 258+ / 514+ diploid samples
    want = rng.choice(["none", "none", "all-diploid", "one", "mixed"])
    by_layout = {"all-diploid": [258, 520, 520, 1026], "mixed": [300, 520, 1026], "one": [130, 258, 300]}
    nsamp = HUGE_SAMPLES[turn % len(HUGE_SAMPLES)] if huge else rng.choice(by_layout.get(want, BIG_SAMPLES))
    # (huge: no node with thousands of children - tskit rebuilds sample lists per inserted edge, a 65 538-leaf star
    # costs seconds per decode)
    ninner = rng.choice([1, 3, 8, 20]) if not huge else rng.choice([2000, 4000])
    m = RowModel(16.0)
    # ids: inner nodes are spread between the leaves so that sample ids are not one contiguous block
    total = nsamp + ninner
    inner_ids = sorted(rng.sample(range(total), ninner))
    inner_set = set(inner_ids)
    leaves = [u for u in range(total) if u not in inner_set]
    time = [0.0] * total
    for i, u in enumerate(inner_ids):
        time[u] = float(i + 1)
    flags = [NODE_IS_SAMPLE] * total
    for u in inner_ids:
        flags[u] = NODE_IS_SAMPLE if rng.random() < 0.1 else 0
    nsamp = sum(1 for f in flags if f)
    if nsamp % 2:  # keep ploidy 2 available
        flags[inner_ids[-1]] ^= NODE_IS_SAMPLE
    m.nodes = [(flags[u], time[u], NULL, NULL, b"") for u in range(total)]
    x = rng.choice([1.0, 8.0, 15.0])
    par = {}
    for i, u in enumerate(inner_ids[:-1]):
        if rng.random() < 0.8:
            par[u] = rng.choice(inner_ids[i + 1:])
    loose_rate = rng.choice([0.0, 0.01, 0.05])
    if huge:
        # (two random draws per leaf cost more than everything else in the case)
        off, step = rng.randrange(ninner), rng.choice([1, 7, 31])
        for i, u in enumerate(leaves):
            par[u] = inner_ids[(off + i * step) % ninner]
        for u in rng.sample(leaves, int(loose_rate * 1000)):
            del par[u]
    else:
        for u in leaves:
            if rng.random() >= loose_rate:
                par[u] = rng.choice(inner_ids)
    edges = []
    changed = set(rng.sample(leaves, min(len(leaves), rng.randint(0, 12))))
    for c, p in par.items():
        if c in changed:
            edges.append((0.0, x, p, c, b""))
            if rng.random() < 0.5:
                edges.append((x, 16.0, rng.choice(inner_ids), c, b""))
        else:
            edges.append((0.0, 16.0, p, c, b""))
    m.edges = sorted(edges, key=sort_edges_key(m))
    pool = SIMPLE if rng.random() < 0.7 else NINE
    _site_rows(rng, m, 1 if huge else rng.randint(1, 4), leaves, inner_ids, pool)
    # individuals
    samples = [u for u in range(total) if flags[u]]
    # (tskit's own per-individual loop costs ~25 us per node under ASan: the individuals path of the huge family
    # stays at 16 386 samples, the larger ones go through `ploidy`)
    layout = want if not huge else rng.choice(["none", "none", "all-diploid", "one"] if nsamp <= 20000 else ["none"])
    ind = [NULL] * total
    if layout == "all-diploid":
        order = list(samples)
        if not huge:
            rng.shuffle(order)
        for k, u in enumerate(order):
            ind[u] = k // 2
        nind = (len(order) + 1) // 2
    elif layout == "one":
        for u in samples:
            ind[u] = 0
        nind = 1
    elif layout == "mixed":
        order = list(samples)
        rng.shuffle(order)
        k = 0
        nind = 0
        while k < len(order):
            p = rng.choice([1, 1, 2, 2, 3, 130, 260])
            for u in order[k:k + p]:
                ind[u] = nind
            k += p
            nind += 1
    else:
        nind = 0
    m.individuals = [(0, (), (), b"") for _ in range(nind)]
    m.nodes = [(f, t, p, ind[u], md) for u, (f, t, p, _, md) in enumerate(m.nodes)]
    m.tags |= {f"big:samples>={b}" for b in (64, 128, 256, 16384, 32768, 65536) if len(samples) >= b}
    m.tags |= {f"big:individuals>={b}" for b in (128, 256, 32768) if nind >= b}
    if nind:
        pl = max(collections.Counter(ind[u] for u in samples).values())
        m.tags |= {f"big:ploidy>={b}" for b in (128, 256, 32768) if pl >= b}
    m.tags.add("big-layout:" + layout)
    return m, layout


def many_sites_model(rng):
    """A 3-9 node genealogy with 130..700 sites; long runs of sites that round to the same integer."""
    from lib import gen

    m = gen.gen_topology(rng, n=rng.randint(3, 9), max_bp=3, discrete=False, sample_mode=rng.choice(["young", "all", "any"]),
                         L=float(rng.choice([128, 256, 1024])))
    ns = rng.choice([130, 200, 256, 257, 300, 700])
    L = int(m.L)
    # positions on a 1/8 grid, clustered: many collisions after rounding, ties at x.5
    cells = sorted(rng.sample(range(8 * L), min(ns, 8 * L))) if rng.random() < 0.5 else \
        sorted(rng.sample(range(min(8 * L, 2 * ns)), ns))
    positions = [c / 8 for c in cells]
    n = m.num_nodes
    nodes = list(range(n))
    pool = SIMPLE if rng.random() < 0.7 else NINE
    m2 = m
    time = [r[1] for r in m.nodes]
    sites, muts = [], []
    for j, pos in enumerate(positions):
        anc = rng.choice(pool)
        sites.append((pos, anc, b""))
        lst = [(rng.choice(nodes), rng.choice(pool)) for _ in range(rng.choice([0, 1, 1, 2, 3]))]
        for u, d in sorted(lst, key=lambda z: -time[z[0]]):
            muts.append((j, u, d, NULL, None, b""))
    m2.sites = sites
    m2.mutations = muts
    par = mutation_parents(m2)
    m2.mutations = [(s, u, d, par[k], t, md) for k, (s, u, d, _, t, md) in enumerate(m2.mutations)]
    m2.tags |= {f"manysites>={b}" for b in (128, 256, 512) if ns >= b}
    return m2


def fast_ts(m):
    """to_ts for large models: node and edge columns are set in one go (rows carry no metadata here)."""
    tc = tskit.TableCollection(m.L)
    for fl, loc, par, md in m.individuals:
        tc.individuals.add_row(flags=fl, location=list(loc), parents=list(par), metadata=md)
    nd = m.nodes
    tc.nodes.set_columns(flags=np.array([r[0] for r in nd], dtype=np.uint32),
                         time=np.array([r[1] for r in nd], dtype=np.float64),
                         population=np.array([r[2] for r in nd], dtype=np.int32),
                         individual=np.array([r[3] for r in nd], dtype=np.int32))
    ed = m.edges
    tc.edges.set_columns(left=np.array([e[0] for e in ed], dtype=np.float64),
                         right=np.array([e[1] for e in ed], dtype=np.float64),
                         parent=np.array([e[2] for e in ed], dtype=np.int32),
                         child=np.array([e[3] for e in ed], dtype=np.int32))
    for pos, anc, md in m.sites:
        tc.sites.add_row(pos, anc, metadata=md)
    for s, u, d, p, t, md in m.mutations:
        tc.mutations.add_row(site=s, node=u, derived_state=d, parent=p,
                             time=tskit.UNKNOWN_TIME if t is None else t, metadata=md)
    return tc.tree_sequence()


# ------------------------------------------------------------------------------------ scaling / schemas


def scale_model(m, k):
    """Every genome coordinate times 2**k (exact in binary64 for the small dyadic coordinates of lib.gen)."""
    f = 2.0 ** k
    m.L = m.L * f
    m.edges = [(l * f, r * f) + tuple(rest) for l, r, *rest in m.edges]
    m.sites = [(p * f,) + tuple(rest) for p, *rest in m.sites]
    m.migrations = [(l * f, r * f) + tuple(rest) for l, r, *rest in m.migrations]
    m.tags.add(f"scaled:2^{k}")
    return m


JSON_SCHEMA = json.dumps({"codec": "json", "type": "object",
                          "properties": {"name": {"type": "string"}, "n": {"type": "number"}}})
# ("required" spelled out: parse_metadata_schema of struct schema TEXT without it raises KeyError - a C12-area
# observation already on file, not this property's business)
STRUCT_SCHEMA = json.dumps({"codec": "struct", "type": "object", "required": ["a", "b"],
                            "properties": {"a": {"type": "integer", "binaryFormat": "i"},
                                           "b": {"type": "number", "binaryFormat": "d"}}})


def _json_md(rng, i):
    return {"name": rng.choice(["x", "tsk_0", "a\tb", "é"]), "n": i}


def _struct_md(rng, i):
    return {"a": i - 3, "b": rng.choice([0.0, -1.5, 1e300])}


def add_schemas(rng, m):
    """Valid schema-coded metadata on the tables whose rows write_vcf reads through Individual/Node/Site objects.

    The rows keep the ENCODED bytes (made with tskit's own encoder - input construction, not an oracle); the schema
    texts go to m.c16_schemas and are attached by build_ts AFTER the rows were added (add_row would otherwise try
    to encode the bytes again)."""
    chosen = {}
    for name in ("individuals", "nodes", "sites", "mutations"):
        r = rng.random()
        if r < 0.45:
            chosen[name] = ("json", JSON_SCHEMA, _json_md)
        elif r < 0.8:
            chosen[name] = ("struct", STRUCT_SCHEMA, _struct_md)
    m.c16_schemas = {}
    for name, (kind, schema, make) in chosen.items():
        rows = getattr(m, name)
        if not rows:
            continue
        enc = tskit.metadata.parse_metadata_schema(schema).validate_and_encode_row
        m.c16_schemas[name] = schema
        setattr(m, name, [tuple(r[:-1]) + (enc(make(rng, i)),) for i, r in enumerate(rows)])
        m.tags.add(f"schema:{name}:{kind}")
    return m


def build_ts(m, fast=False):
    """RowModel -> TreeSequence; metadata schemas recorded by add_schemas are attached to the filled tables."""
    from lib.tsk import to_tables

    schemas = getattr(m, "c16_schemas", None)
    if fast and not schemas:
        return fast_ts(m)
    tc = to_tables(m)
    for name, schema in (schemas or {}).items():
        getattr(tc, name).metadata_schema = tskit.metadata.parse_metadata_schema(schema)
    return tc.tree_sequence()


def default_md(m, table):
    """Metadata bytes that are valid under the schema add_schemas put on `table` (b"" when there is none)."""
    schema = (getattr(m, "c16_schemas", None) or {}).get(table)
    if not schema:
        return b""
    obj = {"a": 0, "b": 0.0} if '"struct"' in schema else {"name": "x", "n": 0}
    return tskit.metadata.parse_metadata_schema(schema).validate_and_encode_row(obj)
