import os

from lib.props.meta_common import ASSUME_COMMON

ID = "C11"
META = dict(
    LEVEL="exploration",
    RULE=("forest-walk generated tree sequences carrying binary metadata on every table (edges and migrations "
          "included), individuals, populations, migrations (45% of inputs), mutation parents, known or unknown "
          "mutation times; per input ~35 editing calls: keep_intervals/delete_intervals (interval lists: empty, "
          "whole, single, several, touching, at 0/L, cut at edge ends and site positions; simplify on/off; "
          "record_provenance on/off; malformed lists must raise), ltrim/rtrim/trim on the input and on a clipped "
          "variant, delete_sites (empty/all/subset/duplicates/out-of-range), split_edges/decapitate/delete_older at "
          "cut-offs below, at, between and above the distinct node/mutation/migration times with flags/population/"
          "metadata arguments, extend_haplotypes. TreeSequence and TableCollection variants are drawn at random "
          "where both exist. Expected rows are built from the docstrings on the RowModel. A case is distinct by the "
          "sha1 of its input rows and non-trivial when it has at least one edge. "
          "Every call is additionally drawn over argument forms (interval and site-id containers / dtypes; keyword, "
          "positional, mixed and omitted-default call styles; numeric types of cut-off times, flags, population, "
          "max_iter) and over object sources (fresh, indexed, copy(), dump_tables(), file round trip, pickle, an "
          "object that already went through another in-place operation). Forced shares: exact-boundary intervals "
          "(next double below/above a site position or edge end, -0.0: 14% of interval lists), cut-offs exactly at / "
          "one ulp below or above a node, mutation or migration time (first three cut-offs of every input), clipped "
          "variants whose ends are site positions (70%), metadata schemas on tables (22%; JSON and struct node "
          "schemas for the new nodes of split_edges/decapitate), reference sequence (20%), one whole ragged column "
          "empty (15%), unsorted tables for delete_older/delete_sites (every input), one large instance per 60 inputs "
          "(>= 256 children of one parent, 300-520 sites, ragged columns > 64 KiB with one 40000-byte row, >= 64 "
          "intervals) plus one as the second case of every run, one extend_haplotypes motif per 8 inputs (a unary chain, "
          "35% of its nodes samples, present on one side of a breakpoint only)."),
    REQUIRED=["keep_intervals:ts", "keep_intervals:tables", "delete_intervals:ts", "delete_intervals:tables",
              "ltrim:ts", "ltrim:tables", "rtrim:ts", "rtrim:tables", "trim:ts", "trim:tables",
              "delete_sites:ts", "delete_sites:tables", "split_edges:ts", "decapitate:ts", "delete_older:tables",
              "extend_haplotypes:ts", "cover:edges", "cover:migrations", "rows:edges", "rows:migrations",
              "rows:mutations", "extend:genotypes", "extend:simplified-genealogy", "refusals",
              "keep_intervals:simplify=True", "index-kept-consistent", "reused-object", "unsorted-tables",
              "table-schemas", "big-instances"],
    ASSUMPTIONS=ASSUME_COMMON + [
        "inputs are valid tree sequences with correct mutation parents (generator invariant)",
        "keep/delete_intervals(simplify=True) is decided as 'equals simplify() of the simplify=False result'; "
        "simplify itself is decided by C04",
    ],
    # the env var only exists to shorten trial runs of the thorough tier
    BUDGET={"quick": 50.0, "thorough": float(os.environ.get("VERIF_C11_THOROUGH_BUDGET", 900.0))},
)
