"""C13 helper module (audit widening): further entry points and argument forms for the table history checker
(mixin for lib.props.c13.TableHistory) and further probes for the immutability half.

Everything here is reference-side code written from the documentation: a table is a list of row tuples (lib.tsk.SPEC
layouts) plus a schema string; the struct/JSON encodings used for the metadata column are computed with the standard
library (struct, json), never with tskit's own codecs.

EITHER zones added here (nothing asserted):
  * numpy integer arrays (0/1) as keep_rows argument, int64 arrays for int32 columns, bytearray metadata: this version
    refuses them, the documentation does not say - not generated;
  * the low-level `extend` accepts int32-castable row_indexes only - int64 arrays are not generated;
  * writeable flags forced back on (`setflags(write=True)`) on arrays that are the caller's own copies (OWNDATA) or
    Python-side caches: only the tables of the tree sequence must stay equal.
"""
import copy as _copy
import dataclasses
import json
import pickle
import struct

import numpy as np
import tskit

from lib import gen
from lib.tsk import SPEC, columns_from_rows, pack_ragged, to_tables

JSON_SCHEMA = '{"codec":"json"}'
# canonical text (sorted keys, no blanks) of a struct schema: int32 "n" followed by a length-prefixed int8 array "v".
# tskit documents that the struct codec makes every property required and forbids additional ones.
STRUCT_SCHEMA = ('{"additionalProperties":false,"codec":"struct","properties":{"n":{"binaryFormat":"i","type":"integer"},'
                 '"v":{"arrayLengthFormat":"B","items":{"binaryFormat":"b","type":"integer"},"type":"array"}},'
                 '"required":["n","v"],"type":"object"}')
SCHEMAS = {"raw": "", "json": JSON_SCHEMA, "struct": STRUCT_SCHEMA}
MODE_OF = {v: k for k, v in SCHEMAS.items()}

# positional parameter order of add_row, from the documented signatures
POSITIONAL = {
    "nodes": ["flags", "time", "population", "individual", "metadata"],
    "edges": ["left", "right", "parent", "child", "metadata"],
    "sites": ["position", "ancestral_state", "metadata"],
    "mutations": ["site", "node", "derived_state", "parent", "metadata", "time"],
    "individuals": ["flags", "location", "parents", "metadata"],
    "populations": ["metadata"],
    "migrations": ["left", "right", "node", "source", "dest", "time", "metadata"],
    "provenances": ["record", "timestamp"],
}
ROW_GETTER = {"nodes": "node", "edges": "edge", "sites": "site", "mutations": "mutation", "individuals": "individual",
              "populations": "population", "migrations": "migration", "provenances": "provenance"}


def struct_encode(obj):
    v = obj["v"]
    return struct.pack("<i", obj["n"]) + bytes([len(v)]) + struct.pack(f"<{len(v)}b", *v)


def struct_decode(b):
    k = b[4]
    return {"n": struct.unpack("<i", b[:4])[0], "v": list(struct.unpack(f"<{k}b", b[5:5 + k]))}


def canonical_json(obj):
    return json.dumps(obj, sort_keys=True, separators=(",", ":")).encode()


def decode_md(schema, b):
    """What row.metadata must be for stored bytes b under the schema text."""
    mode = MODE_OF[schema]
    if mode == "raw":
        return b
    if mode == "json":
        return json.loads(b.decode()) if b else {}
    return struct_decode(b)


def reencode(schema, b):
    """Bytes stored when a row whose metadata was decoded from b is written back through the same schema."""
    mode = MODE_OF[schema]
    if mode == "json":
        return canonical_json(json.loads(b.decode()) if b else {})
    return b


def short(x):
    s = repr(x)
    return s if len(s) < 240 else s[:240] + "..."


def fits(vals, lo, hi):
    return all(lo <= v <= hi for v in vals)


def vary_array(r, a):
    """The same column values in another accepted argument form (documented dtype, or one that casts safely)."""
    a = np.asarray(a)
    n = len(a)
    x = r.random()
    if x < 0.2 and n:
        return a.tolist()
    if x < 0.3 and n:
        return tuple(a.tolist())
    if x < 0.45:
        wide = np.empty(2 * n + 1, dtype=a.dtype)
        wide[:] = 0
        wide[1:2 * n + 1:2] = a
        return wide[1:2 * n + 1:2]            # strided view
    if x < 0.55:
        b = a.copy()
        b.flags.writeable = False
        return b
    if x < 0.65:
        return a.astype(a.dtype.newbyteorder(">"))
    if x < 0.85 and n:
        vals = a.tolist()
        if a.dtype == np.int32 and fits(vals, -2 ** 15, 2 ** 15 - 1):
            return a.astype(r.choice([np.int16, np.int16, np.int8]) if fits(vals, -128, 127) else np.int16)
        if a.dtype == np.uint32 and fits(vals, 0, 2 ** 16 - 1):
            return a.astype(np.uint8 if fits(vals, 0, 255) and r.random() < 0.5 else np.uint16)
        if a.dtype == np.uint64 and fits(vals, 0, 2 ** 16 - 1):
            return a.astype(np.uint8 if fits(vals, 0, 255) and r.random() < 0.5 else np.uint16)
        if a.dtype == np.float64:
            with np.errstate(over="ignore", invalid="ignore"):
                f = a.astype(np.float32)
            if f.astype(np.float64).tobytes() == a.tobytes():
                return f
    return a


class ExtOps:
    """New operations of the history checker.  Uses the attributes and helpers of c13.TableHistory."""

    # ---------------------------------------------------------------- modes
    def set_mode(self, mode):
        self.mode = mode
        self.jsonmode = mode == "json"
        self.schema = SCHEMAS[mode]
        self.g.mode = mode
        self.g.jsonmode = self.jsonmode
        if mode != "raw":
            self.g.empty.discard("md")

    def schema_object(self, mode=None):
        s = SCHEMAS[self.mode if mode is None else mode]
        return tskit.MetadataSchema(json.loads(s) if s else None)

    # ---------------------------------------------------------------- tables inside a TableCollection
    def others_snapshot(self):
        out = {}
        for o, t in self.tc.table_name_map.items():
            if o != self.name:
                out[o] = [(k, v.tobytes() if isinstance(v, np.ndarray) else v) for k, v in sorted(t.asdict().items())]
        return out

    def check_others(self, label):
        """Operations on one table of a collection never touch its seven neighbours."""
        self.ctx.count("tc-others-unchanged")
        now = self.others_snapshot()
        if now != self.others:
            o = next(o for o in now if now[o] != self.others[o])
            self.bad("neighbour-table-changed" + label, f"table {o} of the same TableCollection changed")
            self.others = now
            return False
        return True

    def op_tc_copy(self):
        """copy / pickle / dict round trip of the whole collection; carry on with the copy half of the time."""
        if self.tc is None:
            return self.op_copy()
        r = self.rng
        how = r.choice(["copy", "pickle", "fromdict", "deepcopy"])
        self.ctx.feature("tc:" + how)
        if how == "copy":
            c = self.must(self.tc.copy)
        elif how == "pickle":
            c = self.must(lambda: pickle.loads(pickle.dumps(self.tc, protocol=r.choice([2, 4, 5]))))
        elif how == "fromdict":
            c = self.must(lambda: tskit.TableCollection.fromdict(self.tc.asdict()))
        else:
            c = self.must(_copy.deepcopy, self.tc)
        if not isinstance(c, tskit.TableCollection) or c is self.tc:
            self.bad("result-type", f"{how} of the collection returned {type(c).__name__}")
            return
        ct = getattr(c, self.name)
        self.verify(ct, label="-collection-" + how)
        self.ctx.count("eq")
        if not c.equals(self.tc) or not (ct == self.t):
            self.bad("eq-false", f"collection.{how}() result is not equal to the collection")
        if r.random() < 0.5:
            old_tc, old_t = self.tc, self.t
            snapshot, schema = list(self.M), self.schema
            self.tc, self.t = c, ct
            self.op_add_row()
            self.verify(old_t, snapshot, schema, label="-original-after-collection-copy-changed")
            del old_tc
        else:
            ct.clear()
            c.clear(clear_provenance=True)
            self.verify(label="-original-after-collection-copy-cleared")

    def op_tc_clear(self):
        if self.tc is None:
            return self.op_clear()
        r = self.rng
        kw = {}
        if r.random() < 0.5:
            kw["clear_provenance"] = r.random() < 0.5
        if r.random() < 0.4:
            kw["clear_metadata_schemas"] = r.random() < 0.5
        if r.random() < 0.2:
            kw["clear_ts_metadata_and_schema"] = True
        self.ctx.feature("tc:clear")
        self.must(self.tc.clear, **kw)
        if self.name != "provenances" or kw.get("clear_provenance"):
            self.M.clear()
        if kw.get("clear_metadata_schemas") and self.has_md:
            self.set_mode("raw")
        # the neighbours: all data tables empty, provenances only on request, schemas only on request
        for o, t in self.tc.table_name_map.items():
            if o == self.name:
                continue
            if (o != "provenances" or kw.get("clear_provenance")) and len(t) != 0:
                self.bad("neighbour-not-cleared", f"TableCollection.clear({kw}) left {len(t)} rows in {o}")
        self.others = self.others_snapshot()
        if not self.verify(label="-after-collection-clear"):
            raise self.Refused()
        # assigning to a table attribute of the collection is documented as an error
        self.expect_refused("assignment to a table attribute of a TableCollection", setattr, self.tc, self.name,
                            self.fresh())

    # ---------------------------------------------------------------- whole-table replacement and serialisation
    def op_replace_with(self):
        r = self.rng
        rows = self.new_rows()
        newmode = self.mode
        if self.has_md and r.random() < 0.3:
            newmode = r.choice(["raw", "json", "struct"])
        if newmode != self.mode:
            self.set_mode(newmode)
            rows = self.new_rows()
        other = self.fresh(rows)
        self.must(self.t.replace_with, other)
        self.M[:] = rows
        # the source of the replacement is copied, not shared
        other.clear()

    def op_pickle(self):
        r = self.rng
        how = r.choice(["pickle", "pickle", "copy.copy", "deepcopy", "setstate"])
        self.ctx.count("pickle")
        self.ctx.feature("table:" + how)
        t = self.t
        if how == "pickle":
            c = self.must(lambda: pickle.loads(pickle.dumps(t, protocol=r.choice([0, 2, 4, 5]))))
        elif how == "copy.copy":
            c = self.must(_copy.copy, t)
        elif how == "deepcopy":
            c = self.must(_copy.deepcopy, t)
        else:
            def via_state():
                c = self.cls.__new__(self.cls)
                c.__setstate__(t.__getstate__())
                return c
            c = self.must(via_state)
        if not isinstance(c, self.cls) or c is t:
            self.bad("result-type", f"{how} returned {type(c).__name__}{' (the same object)' if c is t else ''}")
            return
        self.verify(c, label="-" + how)
        if r.random() < 0.5:
            old, self.t = self.t, c
            self.tc = None
            snapshot, schema = list(self.M), self.schema
            self.op_add_row()
            self.verify(old, snapshot, schema, label=f"-original-after-{how}-changed")
        else:
            c.clear()
            self.verify(label=f"-original-after-{how}-cleared")

    # ---------------------------------------------------------------- low-level entry points
    def op_extend_ll(self):
        """_tskit.<Table>.extend(other, row_indexes): the routine behind table[...] on a NON-empty receiver."""
        r = self.rng
        rows = self.new_rows()
        if len(rows) > 50:
            rows = rows[:50]
        other = self.fresh(rows)
        n = len(rows)
        self.ctx.count("extend-ll")
        x = r.random()
        if x < 0.12:
            self.expect_refused("extend from the table itself", self.t.ll_table.extend, self.t.ll_table,
                                row_indexes=[0] if self.M else [])
            return
        if x < 0.25:
            # EITHER: the C documentation promises no atomicity, so the rows listed before the bad index may have
            # been appended when the call fails (the facade only ever extends a fresh table that it then discards)
            good = [r.randrange(n) for _ in range(r.randint(0, 2))] if n else []
            idx = good + [r.choice([n, n + 5, -1, -2])] + ([r.randrange(n)] if n and r.random() < 0.5 else [])
            self.ctx.count("refusal")
            try:
                got = self.t.ll_table.extend(other.ll_table, row_indexes=idx)
            except Exception:  # noqa: BLE001
                if good and len(self.t) == len(self.M) + len(good):
                    self.ctx.feature("extend:partial-on-error")
                    self.M.extend(rows[i] for i in good)
                self.verify(label="-after-refusal")
                return
            self.bad("did-not-raise", f"extend with row_indexes {idx} from a table of {n} rows returned {short(got)}")
            raise self.Refused()
        idx = [r.randrange(n) for _ in range(r.choice([0, 1, 2, n, 2 * n]))] if n else []
        arg = r.choice([idx, tuple(idx), np.array(idx, dtype=np.int32)])
        if r.random() < 0.5:
            self.must(self.t.ll_table.extend, other.ll_table, row_indexes=arg)
        else:
            self.must(self.t.ll_table.extend, other.ll_table, arg)
        self.M.extend(rows[i] for i in idx)
        other.clear()

    def op_ll_row(self):
        n = len(self.M)
        r = self.rng
        if n == 0 or r.random() < 0.15:
            i = r.choice([n, n + 3, -1])
            self.expect_refused(f"ll_table.get_row({i}) with {n} rows", self.t.ll_table.get_row, i)
            return
        i = r.randrange(n)
        got = self.must(self.t.ll_table.get_row, i)
        self.ctx.count("row-object")
        want = self.M[i]
        ok = isinstance(got, tuple) and len(got) == len(want)
        if ok:
            by_name = dict(zip(self.ll_order(), got))
            for (col, kind), mv in zip(SPEC[self.name], want):
                v = by_name[col]
                if kind in ("u4", "i4"):
                    good = int(v) == mv
                elif kind == "f8":
                    good = struct.pack("<d", float(v)) == struct.pack("<d", mv)
                elif kind == "T":
                    good = bool(tskit.is_unknown_time(v)) if mv is None else struct.pack("<d", float(v)) == struct.pack("<d", mv)
                elif kind == "S":
                    good = v == mv
                elif kind == "B":
                    good = v == mv
                else:
                    good = isinstance(v, np.ndarray) and len(v) == len(mv) \
                        and v.tobytes() == np.array(mv, dtype=np.float64 if kind == "Rf8" else np.int32).tobytes()
                if not good:
                    ok = False
                    break
        if not ok:
            self.bad("row-object-differs", f"ll_table.get_row({i}) = {short(got)}, list model {short(want)}")

    def ll_order(self):
        # the low-level row tuple follows the column order of the row classes
        return {"mutations": ["site", "node", "derived_state", "parent", "metadata", "time"]}.get(
            self.name, [c for c, _ in SPEC[self.name]])

    # ---------------------------------------------------------------- row objects from the same table / a tree sequence
    def op_same_row(self):
        """t[i] = t[j] and t.append(t[j]) (optionally through row.replace / dataclasses.replace): the row object was read
        from the very table that is being rewritten."""
        n = len(self.M)
        r = self.rng
        if n == 0:
            return self.op_add_row()
        j = r.randrange(n)
        self.ctx.count("same-table-row")
        src = self.must(self.t.__getitem__, j)
        mrow = self.M[j]
        if any(kind == "i4" and not -1 <= v <= 2 ** 31 - 2 for (c, kind), v in zip(SPEC[self.name], mrow)):
            # bulk column setting stores any int32; the row interface refuses ids outside [-1, 2^31 - 2]
            self.ctx.feature("row:same-table-unrepresentable-id")
            if r.random() < 0.5:
                self.expect_refused(f"t[i] = t[{j}] whose ids the row interface cannot take", self.t.__setitem__,
                                    r.randrange(-n, n), src)
            else:
                self.expect_refused(f"t.append(t[{j}]) whose ids the row interface cannot take", self.t.append, src)
            return
        if self.has_md:
            mrow = mrow[:-1] + (reencode(self.schema, mrow[-1]),)
        fixed = [(k, c, kind) for k, (c, kind) in enumerate(SPEC[self.name]) if kind in ("u4", "i4", "f8")]
        if fixed and r.random() < 0.4:
            k, c, kind = r.choice(fixed)
            v = self.g.row(n, api=True)[0][k]
            if r.random() < 0.5:
                src = self.must(src.replace, **{c: v})
            else:
                src = self.must(dataclasses.replace, src, **{c: v})
            mrow = mrow[:k] + (v,) + mrow[k + 1:]
            self.ctx.feature("row:replace")
        if r.random() < 0.6:
            i = r.randrange(-n, n)
            self.must(self.t.__setitem__, i, src)
            self.M[i] = mrow
            self.ctx.feature("row:same-table-setitem" + (":self" if i % n == j else ""))
        else:
            rid = self.must(self.t.append, src)
            if rid != n:
                self.bad("returned-id", f"append returned {rid} for a table that had {n} rows")
            self.M.append(mrow)
            self.ctx.feature("row:same-table-append")

    def ts_rows(self):
        if self._ts is None:
            m = gen.gen_full(self.rng, max_nodes=7, max_bp=3, max_sites=4, migrations=True, meta=True, pops=True)
            m.provenances = [("2024-01-01T00:00:00", '{"a":1}'), ("", "é")]
            self._ts = (m, to_tables(m).tree_sequence())
        return self._ts

    def op_ts_row(self):
        """Rows handed out by a TreeSequence (ts.node(j), ts.site(j), ...) as row-like objects, as documented for append
        and row assignment."""
        r = self.rng
        m, ts = self.ts_rows()
        rows = getattr(m, self.name)
        if not rows:
            return self.op_append()
        j = r.randrange(len(rows))
        obj = getattr(ts, ROW_GETTER[self.name])(j)
        mrow = rows[j]
        n = len(self.M)
        self.ctx.count("ts-row-object")
        setit = n and r.random() < 0.5
        if self.has_md and self.mode != "raw":
            # the tree sequence has no schemas: its rows carry bytes, which neither codec can encode
            fn, args = (self.t.__setitem__, (r.randrange(-n, n), obj)) if setit else (self.t.append, (obj,))
            self.expect_refused(f"row object of a schema-less tree sequence into a {self.mode}-schema table", fn, *args)
            return
        if setit:
            i = r.randrange(-n, n)
            self.must(self.t.__setitem__, i, obj)
            self.M[i] = mrow
        else:
            rid = self.must(self.t.append, obj)
            if rid != n:
                self.bad("returned-id", f"append returned {rid} for a table that had {n} rows")
            self.M.append(mrow)

    # ---------------------------------------------------------------- schema assignment
    def op_set_schema(self):
        """table.metadata_schema = X leaves the rows alone; packset_metadata then re-packs them for the new codec."""
        if not self.has_md:
            return
        r = self.rng
        mode = r.choice(["raw", "json", "struct"])
        self.ctx.feature("schema-assigned:" + mode)
        self.expect_refused("metadata_schema = a str", setattr, self.t, "metadata_schema", SCHEMAS[mode])
        self.must(setattr, self.t, "metadata_schema", self.schema_object(mode))
        self.set_mode(mode)
        if not self.verify(label="-after-schema-assignment"):
            raise self.Refused()
        vals = [self.g.row(0, api=False)[0][-1] for _ in self.M]
        self.must(self.t.packset_metadata, vals)
        self.M[:] = [row[:-1] + (v,) for row, v in zip(self.M, vals)]

    # ---------------------------------------------------------------- pack / unpack helpers and read-only accessors
    def op_unpack(self):
        r = self.rng
        t = self.t
        n = len(self.M)
        ragged = [(j, c, k) for j, (c, k) in enumerate(SPEC[self.name]) if k in ("B", "S", "Rf8", "Ri4")]
        j, col, kind = r.choice(ragged)
        want = [row[j] for row in self.M]
        data, off = getattr(t, col), getattr(t, col + "_offset")
        self.ctx.count("unpack")
        if kind == "B":
            got = self.must(tskit.unpack_bytes, data, off)
            good = got == want
            pk, po = self.must(tskit.pack_bytes, want)
        elif kind == "S":
            got = self.must(tskit.unpack_strings, data, off)
            good = got == want
            pk, po = self.must(tskit.pack_strings, want)
        else:
            got = self.must(tskit.unpack_arrays, data, off)
            good = len(got) == n and all(tuple(a.tolist()) == w or
                                         (kind == "Rf8" and a.tobytes() == np.array(w, dtype=np.float64).tobytes())
                                         for a, w in zip(got, want))
            pk, po = self.must(tskit.pack_arrays, [list(w) for w in want], np.float64 if kind == "Rf8" else np.int32)
        if not good:
            self.bad("unpack-differs", f"unpack of column {col}: {short(got)}, list model {short(want)}")
        if pk.tobytes() != np.asarray(data).tobytes() or [int(x) for x in po] != [int(x) for x in off]:
            self.bad("pack-differs", f"pack of the {n} model values of {col} gives offsets {short(po)}, the table has "
                                     f"{short(off)}")
        # nbytes ("total number of bytes required to store the data"): how offsets are counted is not specified, so
        # only a lower bound - every stored item takes at least its own size
        nb = self.must(lambda: t.nbytes)
        low = sum(np.asarray(getattr(t, c)).nbytes for c in t.column_names if not c.endswith("_offset"))
        if not isinstance(nb, (int, np.integer)) or nb < low:
            self.bad("nbytes", f"nbytes={nb!r}, the data columns alone take {low} bytes")
        if n <= 60:
            self.must(str, t)
            self.must(t._repr_html_)
        if self.has_md and self.mode != "raw" and n:
            key = "a" if self.mode == "json" else "n"
            got = self.must(t.metadata_vector, key, dtype=object, default_value=None)
            want = [decode_md(self.schema, row[-1]).get(key) for row in self.M]
            self.ctx.feature("metadata_vector")
            if np.asarray(got, dtype=object).tolist() != want:
                self.bad("metadata_vector", f"metadata_vector({key!r}) = {short(list(got))}, expected {short(want)}")

    # ---------------------------------------------------------------- exact capacity boundaries
    def entry_of_length(self, kind, k, col):
        r = self.rng
        if kind == "B":
            if col == "metadata" and self.mode == "json":
                return canonical_json({"a": "x" * max(0, k - 8)}) if k >= 8 else None
            if col == "metadata" and self.mode == "struct":
                return None
            return bytes([r.choice([0, 65, 255])]) * k
        if kind == "S":
            return r.choice("ACGT") * k
        if kind == "Rf8":
            return tuple(float(i % 7) for i in range(k))
        return tuple(-1 for _ in range(k))

    def small_row(self, n):
        row = self.g.row(n, api=False)[0]
        out = []
        for (c, kind), v in zip(SPEC[self.name], row):
            if kind in ("S", "Rf8", "Ri4") or (kind == "B" and self.mode == "raw"):
                v = v[:2]
            out.append(v)
        return tuple(out)

    def op_fill_boundary(self):
        """Bring the row count, or the total length of one ragged column, to EXACTLY a capacity boundary of the
        documented growth rule (1024 rows / 64 KiB, doubling), then step over it one row at a time through different
        entry points."""
        r = self.rng
        n = len(self.M)
        ragged = [(j, c, k) for j, (c, k) in enumerate(SPEC[self.name])
                  if k in ("B", "S", "Rf8", "Ri4") and not (c == "metadata" and self.mode == "struct")]
        self.ctx.count("boundary-crossing")
        if r.random() < 0.4 or not ragged:
            bound = next((b for b in (1024, 2048, 4096) if b > n), None)
            if bound is None:
                return
            d = r.choice([0, 1, 2])
            rows = [self.small_row(n + j) for j in range(max(0, bound - n - d))]
            if rows:
                self.must(self.t.append_columns, **columns_from_rows(self.name, rows))
                self.M.extend(rows)
                if not self.verify(label="-below-row-boundary"):
                    raise self.Refused()
            self.ctx.feature(f"boundary:rows-{bound}")
            for step in range(d + 2):
                if step % 2 == 0:
                    self.op_add_row()
                else:
                    row = self.small_row(len(self.M))
                    other = self.fresh([row])
                    self.must(self.t.ll_table.extend, other.ll_table, row_indexes=[0])
                    self.M.append(row)
                if not self.verify(label="-across-row-boundary"):
                    raise self.Refused()
            return
        j, col, kind = r.choice(ragged)
        jsonmd = col == "metadata" and self.mode == "json"

        def length(v):
            return len(v.encode("utf8", "surrogateescape")) if kind == "S" else len(v)
        total = sum(length(row[j]) for row in self.M)
        bound = next((b for b in (65536, 131072, 262144) if b > total), None)
        if bound is None:
            return
        unit = 9 if jsonmd else 1
        d = unit * r.choice([0, 1, 2])
        k = bound - total - d
        big = None
        if k > 0:
            e = self.entry_of_length(kind, k, col)
            if e is None:
                return
            row = self.g.row(n, api=False)[0]
            row = row[:j] + (e,) + row[j + 1:]
            self.must(self.t.append_columns, **columns_from_rows(self.name, [row]))
            self.M.append(row)
            big = (len(self.M) - 1, k)
            if not self.verify(label="-below-ragged-boundary"):
                raise self.Refused()
        self.ctx.feature(f"boundary:{kind}-{bound}")
        for step in range(d // unit + 2):
            how = r.choice(["append_columns", "extend", "grow-row"])
            if how == "grow-row" and big is not None and not jsonmd:
                i, k = big
                new = self.M[i][:j] + (self.entry_of_length(kind, k + 1, col),) + self.M[i][j + 1:]
                self.must(self.t.ll_table.update_row, row_index=i, **self.ll_kwargs(new))
                self.M[i] = new
                big = (i, k + 1)
            else:
                row = self.g.row(len(self.M), api=False)[0]
                row = row[:j] + (self.entry_of_length(kind, unit, col),) + row[j + 1:]
                if how == "extend":
                    other = self.fresh([row])
                    self.must(self.t.ll_table.extend, other.ll_table, row_indexes=[0])
                else:
                    self.must(self.t.append_columns, **columns_from_rows(self.name, [row]))
                self.M.append(row)
            if not self.verify(label="-across-ragged-boundary"):
                raise self.Refused()

    def ll_kwargs(self, row):
        """Keyword arguments of the low-level update_row / add_row (metadata as stored bytes)."""
        kw = {}
        for (c, kind), v in zip(SPEC[self.name], row):
            if kind == "T":
                v = tskit.UNKNOWN_TIME if v is None else v
            elif kind == "Rf8":
                v = np.array(v, dtype=np.float64)
            elif kind == "Ri4":
                v = np.array(v, dtype=np.int32)
            kw[c] = v
        return kw


# =================================================================================================
# immutability half
# =================================================================================================

def deep_state(ts):
    """Derived state of a tree sequence that lives outside its tables: samples, breakpoints, every tree's arrays, the
    node lists of individuals, genotypes.  Used next to the table fingerprint after write attempts."""
    import hashlib
    h = hashlib.sha256()

    def put(x):
        h.update(np.ascontiguousarray(x).tobytes())
    put(ts.samples())
    put(ts.breakpoints(as_array=True))
    for tree in ts.trees(sample_lists=True):
        for name in ("parent_array", "left_child_array", "right_child_array", "left_sib_array", "right_sib_array",
                     "num_children_array", "edge_array"):
            put(getattr(tree, name))
        put(np.array([tree.num_samples(u) for u in range(ts.num_nodes)], dtype=np.int64))
        put(np.array(tree.roots, dtype=np.int64))
        for s in tree.sites():
            h.update(repr((s.id, s.position, s.ancestral_state, [(mu.id, mu.node, mu.derived_state, mu.parent)
                                                                  for mu in s.mutations])).encode())
    for ind in ts.individuals():
        put(ind.nodes)
        put(ind.location)
        put(ind.parents)
    for name in ("individuals_population", "individuals_time"):
        try:
            put(getattr(ts, name))
        except Exception:  # noqa: BLE001  inconsistent node data: documented error
            h.update(b"!")
    if ts.num_sites and ts.num_samples:
        try:
            put(ts.genotype_matrix(isolated_as_missing=True))
        except Exception:  # noqa: BLE001
            h.update(b"!")
    return h.hexdigest()


def mutate_handed_out(x, rng):
    """Try to change a mutable Python object handed out by a tree sequence (other than numpy arrays, which the caller
    probes itself).  Returns a label when something was attempted."""
    try:
        if isinstance(x, tskit.ReferenceSequence):
            for attr, v in (("data", "TTTT"), ("url", "http://x"), ("metadata", b"zz"),
                            ("metadata_schema", tskit.MetadataSchema({"codec": "json"}))):
                try:
                    setattr(x, attr, v)
                except Exception:  # noqa: BLE001
                    pass
            try:
                x.clear()
            except Exception:  # noqa: BLE001
                pass
            return "ReferenceSequence"
        if isinstance(x, tskit.BaseTable):
            for fn in (lambda: x.truncate(0), x.clear, lambda: x.set_columns(**type(x)().asdict())):
                try:
                    fn()
                except Exception:  # noqa: BLE001
                    pass
            return "table"
        if dataclasses.is_dataclass(x) and not isinstance(x, type):
            done = False
            for f in dataclasses.fields(x):
                try:
                    v = getattr(x, f.name)
                except Exception:  # noqa: BLE001
                    continue
                try:
                    if isinstance(v, bool) or v is None:
                        continue
                    if isinstance(v, int):
                        setattr(x, f.name, v + 1)
                    elif isinstance(v, float):
                        setattr(x, f.name, v + 0.5)
                    elif isinstance(v, str):
                        setattr(x, f.name, v + "Q")
                    elif isinstance(v, bytes):
                        setattr(x, f.name, v + b"Q")
                    elif isinstance(v, list):
                        v.append(v[0] if v else 0)
                    elif isinstance(v, dict):
                        v["Q"] = 1
                    else:
                        continue
                    done = True
                except Exception:  # noqa: BLE001
                    pass
            return "row-object" if done else None
        if isinstance(x, dict):
            x["Q"] = 1
            return "dict"
        if isinstance(x, list):
            x.append(0)
            x.reverse()
            return "list"
        if isinstance(x, tskit.MetadataSchema):
            try:
                x.schema["codec"] = "struct"
            except Exception:  # noqa: BLE001
                pass
            return "MetadataSchema"
    except Exception:  # noqa: BLE001
        return None
    return None


def mutate_source_tables(tc):
    """Everything one can do to the TableCollection a tree sequence was built from."""
    tc.nodes.time = tc.nodes.time + 1
    tc.nodes.flags = tc.nodes.flags ^ 1
    if len(tc.edges):
        tc.edges.left = tc.edges.left * 0
        tc.edges[0] = tc.edges[0].replace(child=0, parent=0)
    tc.edges.truncate(len(tc.edges) // 2)
    tc.sites.clear()
    tc.mutations.clear()
    tc.individuals.add_row(flags=9, location=[1.0], parents=[-1], metadata=b"")
    tc.populations.add_row(metadata=b"")
    tc.provenances.add_row("r", timestamp="t")
    tc.sequence_length = tc.sequence_length * 2
    tc.metadata_schema = tskit.MetadataSchema(None)
    tc.time_units = "changed"
    tc.reference_sequence.data = "CCCC"
    tc.drop_index()
    tc.clear(clear_provenance=True, clear_metadata_schemas=True, clear_ts_metadata_and_schema=True)
