"""C11 — editing operations change only what they document and preserve everything else.

keep_intervals / delete_intervals (simplify on/off), ltrim / rtrim / trim, delete_sites, split_edges,
decapitate, delete_older, extend_haplotypes — TreeSequence and TableCollection variants where both exist.
The expected result of each call is built from the input RowModel straight from the docstrings and compared
with the rows read back through raw columns: full row tuples (every metadata column included) for everything
that must survive, per-position covers for edges/migrations where the operation may legitimately reorder or
split rows.

EITHER zones (left open by the docs, therefore not asserted):
  * keep/delete_intervals sort the tables: row order of edges/migrations and the order of mutations inside a
    site are compared order-free (mutations with their parent resolved recursively); an edge spanning the
    boundary of two touching intervals may come back as one row or two;
  * keep/delete_intervals(simplify=True) on collections with migrations or edge metadata: simplify refuses
    those, so a library error is accepted; when it returns, the result must equal simplify() of the
    simplify=False result;
  * trim family with migrations reaching outside the span covered by edges: the docstring of
    _check_trim_conditions refuses only some of these, the rest produce out-of-range coordinates; skipped;
  * split_edges / decapitate: ids of the new nodes are interchangeable (one per intersecting edge, any order);
    whether these two and extend_haplotypes add a provenance row is open (existing rows must survive);
  * extend_haplotypes rewrites and squashes edges, so edge metadata is not compared there; the docstring's
    "edges whose child node is a sample are not modified" is read as "sample nodes are never extended" (the
    parent of a sample does change when an ancestor is inserted above it), so no per-sample edge check;
  * extend_haplotypes on inputs with a mutation on a non-sample node that is not part of the marginal tree at
    its site: the operation inserts exactly such absent nodes into the tree and the mutation becomes visible
    (genotype changes; witness in drop_detached_mutations).  Reported as a finding; such mutations are removed
    from the extend workload and counted under either:extend-detached-mutations-dropped;
  * extend_haplotypes: a mutation whose time equals the time of an inserted node may sit on either side of it;
  * which exception class reports a refused argument (LibraryError / ValueError / TypeError / OverflowError
    family); a refused in-place call must leave the tables as they were;
  * trim family with migrations outside the span of the edges: only a refusal is tolerated; when the call
    returns, every row is compared as usual and only the validity of the result is not asserted;
  * split_edges / decapitate on a node table with a JSON schema: the new nodes' metadata is compared as the decoded
    JSON value (any spelling; an empty byte string reads as {}), with a struct schema byte for byte.

Audit additions (lib/props/AUDIT-C11.md): every call is drawn over argument forms (interval / site-id containers and
dtypes, keyword / positional / omitted-default call styles, numeric types of times, flags, populations, max_iter) and
over object sources (fresh, indexed, copy(), dump_tables(), file round trip, pickle, an object that already went
through another in-place operation); exact-boundary intervals and cut-offs (next double below / above a site
position, an edge end, a node or mutation time; -0.0); metadata schemas on tables and top level, reference sequence,
one whole ragged column empty; unsorted tables for delete_older / delete_sites; large instances (>= 256 children,
ragged columns > 64 KiB, one row > 32 KiB, >= 64 intervals, site ids > 255); indexes left in place by an in-place
operation must still describe the rows.
"""
import math

import numpy as np
import tskit

from lib import gen
from lib.harness import case_rng
from lib.model import NODE_IS_SAMPLE, NULL, RowModel, allele_at, forest, mutation_parents
from lib.props import c11_ext as X
from lib.props.c04 import expected_mutation_node, expected_parent_map
from lib.props.c11_ext import FRESH, Source
from lib.props.c11_ext import from_tables  # lib.tsk.from_tables, each column fetched once
from lib.props.c11_ext import tables_of as to_tables  # lib.tsk.to_tables + schemas attached after the rows

ID = "C11"
LIBERR = (tskit.LibraryError, ValueError)
# refusal of an argument outside the documented domain may surface as any of these (numpy casting, C int parsing)
REFUSAL = (tskit.LibraryError, ValueError, TypeError, OverflowError)


class OpError(ValueError):
    """An exception outside the documented refusal family (LibraryError / ValueError) that escaped from the tskit
    call itself (IndexError, TypeError, OverflowError, AssertionError ...).  Being a ValueError it is handled where a
    valid call is not allowed to raise at all; the EITHER zones that tolerate a refusal do not tolerate it."""


def call(obj, name, *args, **kwargs):
    try:
        return getattr(obj, name)(*args, **kwargs)
    except LIBERR:
        raise
    except Exception as e:  # noqa: BLE001 - only the call into tskit is wrapped
        raise OpError(f"{type(e).__name__}: {e}") from e

COLS = {
    "nodes": ("flags", "time", "population", "individual", "metadata"),
    "edges": ("left", "right", "parent", "child", "metadata"),
    "sites": ("position", "ancestral_state", "metadata"),
    "mutations": ("site", "node", "derived_state", "parent", "time", "metadata"),
    "individuals": ("flags", "location", "parents", "metadata"),
    "populations": ("metadata",),
    "migrations": ("left", "right", "node", "source", "dest", "time", "metadata"),
}
SING = {"nodes": "node", "edges": "edge", "sites": "site", "mutations": "mutation",
        "individuals": "individual", "populations": "population", "migrations": "migration"}

DEFAULT_OPTS = {"unary": "none", "keep_input_roots": False}


def cases(tier, seed):
    n = 30000 if tier == "quick" else 3000000
    yield {"gen": "witness-extend-detached", "k": -1}  # the recorded known finding, always exercised
    yield {"gen": "big", "k": -2}  # at least one large instance even on a loaded machine
    for k in range(n):
        if k % 8 == 5:
            yield {"gen": "arg-extend", "k": k}
        elif k % 8 == 1:
            yield {"gen": "extend-motif", "k": k}
        elif k % 60 == 19:
            yield {"gen": "big", "k": k}
        else:
            yield {"gen": "walk", "k": k}


# ------------------------------------------------------------------------------- inputs


def build(rng):
    big = rng.random() < 0.12
    want_mig = rng.random() < 0.45
    m = gen.gen_full(rng, max_nodes=16 if big else 9, max_bp=8 if big else 4, max_sites=7,
                     pops=True if want_mig else rng.random() < 0.6, meta=False,
                     migrations=want_mig, discrete=rng.random() < 0.3)
    if want_mig and not m.migrations and m.populations and m.num_nodes:
        gen.decorate_migrations(rng, m)
    if rng.random() < 0.8:
        gen.decorate_meta(rng, m, tables=("nodes", "edges", "sites", "mutations", "individuals", "populations",
                                          "migrations"))
        # make sure that some edge / migration metadata is really non-empty
        if m.edges and all(e[4] == b"" for e in m.edges):
            m.edges[0] = m.edges[0][:4] + (b"e\x00md",)
        if m.migrations and all(g[6] == b"" for g in m.migrations):
            m.migrations[-1] = m.migrations[-1][:6] + (b"\xffmig",)
    if rng.random() < 0.3:
        m.provenances = [("2020-01-01T00:00:00", '{"x": 1}')]
    if rng.random() < 0.2:
        m.metadata = b"top\x00"
        m.time_units = "ticks"
    # audit additions: one whole ragged column empty; metadata schemas on tables / top level; reference sequence
    if rng.random() < 0.15:
        X.blank_column(rng, m)
    if rng.random() < 0.22:
        X.decorate_schemas(rng, m)
    if rng.random() < 0.2:
        X.decorate_refseq(rng, m)
    return X.normalise(m)


# ------------------------------------------------------------------------------- comparison helpers


def diff_rows(op, table, got, exp):
    """None, or (mechanism key, message) describing how two row lists differ."""
    if got == exp:
        return None
    name = SING[table]
    if len(got) != len(exp):
        return f"{op}/{name}-rows", f"{table}: {len(got)} rows, expected {len(exp)}: got {got} expected {exp}"
    cols = COLS[table]
    badcols = []
    first = None
    for j, (a, b) in enumerate(zip(got, exp)):
        for c, x, y in zip(cols, a, b):
            if x != y:
                if c not in badcols:
                    badcols.append(c)
                if first is None:
                    first = (j, a, b)
    if badcols == ["metadata"]:
        mdcol = len(cols) - 1
        if all(a[mdcol] == b"" for a, b in zip(got, exp) if a != b):
            return (f"{op}/{name}-metadata-dropped",
                    f"{table}: metadata of retained rows came back empty, e.g. row {first[0]}: got {first[1]} "
                    f"expected {first[2]}")
    return (f"{op}/{name}-{'+'.join(badcols)}",
            f"{table}: row {first[0]} is {first[1]}, expected {first[2]} (columns differing anywhere: {badcols})")


def same_table(ctx, bad, op, table, mo, exp_rows):
    ctx.count(f"rows:{table}")
    d = diff_rows(op, table, getattr(mo, table), exp_rows)
    if d:
        bad(*d)
    return d is None


def edge_cover(m, x):
    return sorted((e[3], e[2], e[4]) for e in m.edges if e[0] <= x < e[1])


def mig_cover(rows, x):
    return sorted((g[2], g[3], g[4], g[5], g[6]) for g in rows if g[0] <= x < g[1])


def resolved_mutations(m):
    """Order-free description of the mutation table: parent ids replaced by the parent's own description."""
    memo = {}

    def res(k):
        if k not in memo:
            s, u, d, p, t, md = m.mutations[k]
            memo[k] = (m.sites[s][0] if 0 <= s < len(m.sites) else ("bad-site", s), u, d,
                       res(p) if 0 <= p < len(m.mutations) and p != k else (None if p == NULL else ("bad-parent", p)),
                       t, md)
        return memo[k]

    return sorted((res(k) for k in range(len(m.mutations))), key=repr)


def delete_sites_ref(m, delete):
    """Rows of sites and mutations after removing the sites in `delete` (ids remapped, order kept)."""
    smap, sites = {}, []
    for j, s in enumerate(m.sites):
        if j not in delete:
            smap[j] = len(sites)
            sites.append(s)
    mmap, muts = {}, []
    for k, mu in enumerate(m.mutations):
        if mu[0] in smap:
            mmap[k] = len(muts)
            muts.append(mu)
    muts = [(smap[s], u, d, mmap.get(p, NULL) if p != NULL else NULL, t, md) for s, u, d, p, t, md in muts]
    return sites, muts


def delete_mutations_ref(m, dead):
    """Mutation rows after removing the mutation ids in `dead`; a removed parent becomes NULL."""
    mmap, rows = {}, []
    for k, mu in enumerate(m.mutations):
        if k not in dead:
            mmap[k] = len(rows)
            rows.append(mu)
    return [(s, u, d, mmap.get(p, NULL) if p != NULL else NULL, t, md) for s, u, d, p, t, md in rows]


def mutation_time(m, k):
    t = m.mutations[k][4]
    return m.time(m.mutations[k][1]) if t is None else t


def check_top_and_prov(ctx, bad, op, mi, mo, added):
    """Top-level attributes untouched; provenance grows by exactly `added` rows (None: 0 or 1)."""
    ctx.count("top-level")
    for attr in ("metadata", "time_units", "refseq", "metadata_schema"):
        if getattr(mo, attr) != getattr(mi, attr):
            bad(f"{op}/top-level-{attr}", f"{attr} {getattr(mo, attr)!r} expected {getattr(mi, attr)!r}")
    if mi.schemas or mo.schemas:
        ctx.count("table-schemas")
        for t in COLS:
            if mo.schemas.get(t, "") != mi.schemas.get(t, ""):
                bad(f"{op}/{SING[t]}-metadata-schema", f"metadata schema of table {t} is {mo.schemas.get(t, '')!r}, "
                    f"expected {mi.schemas.get(t, '')!r}")
    n0 = len(mi.provenances)
    ok = mo.provenances[:n0] == mi.provenances and (
        len(mo.provenances) - n0 in ((0, 1) if added is None else (added,)))
    if not ok:
        bad(f"{op}/provenance", f"provenance rows {mo.provenances} expected the input rows {mi.provenances} plus "
            f"{added if added is not None else '0 or 1'} new")
    elif added == 1:
        rec = mo.provenances[-1][1]
        if f'"{op}"' not in rec:
            bad(f"{op}/provenance-record", f"new provenance record does not name {op}: {rec[:120]}")


def run_op(api, mi, name, args, kwargs, src=FRESH):
    """Apply the operation through the chosen API to an object obtained from `src`; returns the output RowModel
    and the tskit tables."""
    if api == "tables":
        tc = src.tables(mi)
        call(tc, name, *args, **kwargs)
        out = tc
    else:
        ts = src.ts(mi)
        out = call(ts, name, *args, **kwargs).dump_tables()
    return from_tables(out), out


def accepts_as_ts(ctx, bad, op, out_tc, mo=None):
    """The result loads as a tree sequence.  When an in-place operation left the indexes of the collection in
    place, the trees built from those indexes must be the forests of the rows (a stale index is the operation's
    fault: tree_sequence() only builds indexes that are missing)."""
    ctx.count("validity")
    kept_index = out_tc.has_index()
    try:
        ts = out_tc.tree_sequence()
    except LIBERR as e:
        bad(f"{op}/output-invalid", f"result is not accepted by tree_sequence(): {e}"
            + (" (indexes left in place by the operation)" if kept_index else ""))
        return False
    if kept_index and mo is not None:
        ctx.count("index-kept-consistent")
        for tree in ts.trees():
            x = tree.interval.left
            pa = tree.parent_array
            got = {u: int(pa[u]) for u in range(len(mo.nodes)) if pa[u] != NULL}
            if got != mo.forest_at(x):
                bad(f"{op}/stale-index", f"tree at x={x} built from the indexes left in place is {got}, the edge rows "
                    f"give {mo.forest_at(x)}")
                break
    return True


# ------------------------------------------------------------------------------- intervals


def gen_intervals(rng, m):
    if _forced_intervals is not None:
        return _forced_intervals
    L = m.L
    grid = sorted({k * L / 32 for k in range(33)})
    bps = m.breakpoints()
    spos = [s[0] for s in m.sites]
    r = rng.random()
    if r < 0.08:
        return [], "empty"
    if r < 0.16:
        return [(0.0, L)], "whole"
    if r < 0.19:
        # every edge end and every site position is an interval end
        pts = sorted(set(bps + spos + [0.0, L]))
        ivs = [(a, b) for a, b in zip(pts[:-1], pts[1:])]
        return ([iv for k, iv in enumerate(ivs) if k % 2 == 0], "alternating-all-breakpoints-and-sites")
    if r < 0.30:
        # cut exactly at edge ends and site positions
        pts = sorted(set(rng.sample(sorted(set(bps + spos + [0.0, L])), min(len(set(bps + spos + [0.0, L])),
                                                                         rng.choice([2, 2, 4])))))
        if len(pts) % 2:
            pts = pts[:-1]
        ivs = [(pts[i], pts[i + 1]) for i in range(0, len(pts), 2)]
        return ivs, "at-breakpoints-and-sites"
    if r < 0.40:
        a, b, c = sorted(rng.sample(grid, 3))
        return [(a, b), (b, c)], "touching"
    if r < 0.54:
        # exact boundary: the double next to a site position / edge end (and -0.0 for 0)
        return X.boundary_intervals(rng, m)
    k = rng.choice([1, 1, 2, 3])
    pts = sorted(rng.sample(grid, 2 * k))
    ivs = [(pts[i], pts[i + 1]) for i in range(0, 2 * k, 2)]
    how = "single" if k == 1 else "several"
    if rng.random() < 0.3:
        ivs[0] = (0.0, ivs[0][1])
        how += "+at0"
    if rng.random() < 0.3:
        ivs[-1] = (ivs[-1][0], L)
        how += "+atL"
    return ivs, how


def gen_bad_intervals(rng, m):
    L = m.L
    return rng.choice([
        ([(L / 2, L), (0.0, L / 4)], "unsorted"),
        ([(0.0, L / 2), (L / 4, L)], "overlapping"),
        ([(L / 2, L / 2)], "empty-interval"),
        ([(L / 2, L / 4)], "reversed"),
        ([(-1.0, L / 2)], "below-zero"),
        ([(0.0, L + 1)], "beyond-L"),
        ([(0.0, L / 4, L / 2)], "wrong-shape"),
        ([0.0, L / 2], "one-dimensional"),
        # exact boundaries: wrong by one unit in the last place
        ([(0.0, math.nextafter(L, math.inf))], "beyond-L-by-one-ulp"),
        ([(-5e-324, L / 2)], "below-zero-by-one-ulp"),
        ([(0.0, L / 2), (math.nextafter(L / 2, 0.0), L)], "overlapping-by-one-ulp"),
        ([(L / 4, L / 2), (0.0, L / 4)], "touching-but-unsorted"),
        ([(L / 2, math.nextafter(L / 2, 0.0))], "reversed-by-one-ulp"),
    ])


def check_intervals_op(ctx, mi, rng, op, src=None):
    ivs, how = gen_intervals(rng, mi)
    ctx.feature(f"intervals:{how}")
    simplify = rng.random() < 0.35
    recprov = rng.random() < 0.5
    api = rng.choice(["tables", "ts"])
    src = src or Source.draw(rng)
    ctx.feature(src.tag(api))
    arg, form = X.interval_arg(rng, ivs)
    ctx.feature(f"intervals-arg:{form}")
    what = f"{api}.{op}({ivs} as {form}, simplify={simplify}, record_provenance={recprov}) [{src.tag(api)}]"
    detail = {"model": mi.to_json(), "op": op, "intervals": ivs, "simplify": simplify, "api": api}

    def bad(key, msg):
        ctx.violation(key, f"{msg} [{what}]", detail)

    def inside(x):
        hit = any(a <= x < b for a, b in ivs)
        return hit if op == "keep_intervals" else not hit

    # expected simplify=False result; (simplify, record_provenance) by keyword, by position, or left to the
    # documented defaults (both True) when that is the wanted value
    prov1 = recprov and not simplify
    pos, kw, style = X.call_form(rng, [("simplify", False, True), ("record_provenance", prov1, True)])
    ctx.feature(f"call-style:{style}")
    try:
        mo, out_tc = run_op(api, mi, op, (arg,) + pos, kw, src)
    except LIBERR as e:
        bad(f"{op}/raised-on-valid-input", f"raised {type(e).__name__}: {e} (call style {style})")
        return
    ctx.count(f"{op}:{api}")
    accepts_as_ts(ctx, bad, op, out_tc, mo if api == "tables" else None)
    what += f" [call style {style}: {pos} {kw}]"
    ok = True
    for t in ("nodes", "individuals", "populations"):
        ok &= same_table(ctx, bad, op, t, mo, getattr(mi, t))
    if mo.L != mi.L:
        bad(f"{op}/sequence-length", f"sequence_length {mo.L} expected {mi.L}")
    # sites / mutations
    dead = {j for j, s in enumerate(mi.sites) if not inside(s[0])}
    esites, emuts = delete_sites_ref(mi, dead)
    same_table(ctx, bad, op, "sites", mo, esites)
    ctx.count("mutations-resolved")
    me = mi.copy()
    me.sites, me.mutations = esites, emuts
    if len(mo.sites) == len(esites) and resolved_mutations(mo) != resolved_mutations(me):
        d = diff_rows(op, "mutations", mo.mutations, emuts)
        bad(d[0] if d else f"{op}/mutation-rows", f"mutations {mo.mutations} expected (up to order within a site) {emuts}")
    # edges and migrations per position, with metadata
    pts = {0.0, mi.L}
    for a, b in ivs:
        pts.update((a, b))
    for rows in (mi.edges, mo.edges, mi.migrations, mo.migrations):
        for r in rows:
            pts.update((r[0], r[1]))
    pts = sorted(p for p in pts if 0 <= p <= mi.L)
    ends = {a for a, _ in ivs} | {b for _, b in ivs}
    if any(s[0] in {a for a, _ in ivs} for s in mi.sites):
        ctx.feature("intervals:site-on-left-end")
    if any(s[0] in {b for _, b in ivs} for s in mi.sites):
        ctx.feature("intervals:site-on-right-end")
    if any(e[0] < p < e[1] for e in mi.edges for p in ends):
        ctx.feature("intervals:edge-cut-inside")
    if any(g[0] < p < g[1] for g in mi.migrations for p in ends):
        ctx.feature("intervals:migration-cut-inside")
    for a, b in zip(pts[:-1], pts[1:]):
        # every cover is constant on [a, b): probe its left end (the midpoint of two adjacent doubles is not inside)
        x = a
        keep = inside(x)
        ctx.count("cover:edges")
        ge = edge_cover(mo, x)
        ee = edge_cover(mi, x) if keep else []
        if ge != ee:
            key = f"{op}/edges-at-position"
            if [g[:2] for g in ge] == [e[:2] for e in ee]:
                key = f"{op}/edge-metadata-dropped" if all(g[2] == b"" for g in ge) else f"{op}/edge-metadata"
            elif not keep:
                key = f"{op}/edges-survive-outside"
            bad(key, f"at x={x} ({'kept' if keep else 'deleted'} region) edges (child,parent,metadata) {ge} expected {ee}")
            break
        ctx.count("cover:migrations")
        gm = mig_cover(mo.migrations, x)
        em = mig_cover(mi.migrations, x) if keep else []
        if gm != em:
            key = f"{op}/migrations-at-position"
            if [g[:4] for g in gm] == [e[:4] for e in em]:
                key = f"{op}/migration-metadata-dropped" if all(g[4] == b"" for g in gm) else f"{op}/migration-metadata"
            bad(key, f"at x={x} ({'kept' if keep else 'deleted'} region) migrations {gm} expected {em}")
            break
    check_top_and_prov(ctx, bad, op, mi, mo, 1 if (recprov and not simplify) else 0)
    if not simplify:
        return
    # simplify=True: equal to simplify() of the simplify=False result (which was just checked)
    ctx.count(f"{op}:simplify=True")
    refuses = bool(mo.migrations) or any(e[4] != b"" for e in mo.edges)
    pos, kw, style = X.call_form(rng, [("simplify", True, True), ("record_provenance", recprov, True)])
    ctx.feature(f"call-style:{style}")
    what += f" [simplify=True call style {style}: {pos} {kw}]"
    try:
        ms, _ = run_op(api, mi, op, (arg,) + pos, kw, src)
    except LIBERR as e:
        if refuses and not isinstance(e, OpError):
            ctx.count("either:simplify-refused")
        else:
            bad(f"{op}/simplify-raised", f"simplify=True raised {type(e).__name__}: {e}")
        return
    ref = out_tc.copy()
    try:
        ref.simplify(record_provenance=False)
    except LIBERR:
        ctx.count("either:simplify-refused")
        return
    mr = from_tables(ref)
    for t in ("nodes", "edges", "sites", "mutations", "individuals", "populations", "migrations"):
        d = diff_rows(op + "+simplify", t, getattr(ms, t), getattr(mr, t))
        if d:
            bad(*d)
    check_top_and_prov(ctx, bad, op, mi, ms, 1 if recprov else 0)


def check_bad_intervals(ctx, mi, rng):
    op = rng.choice(["keep_intervals", "delete_intervals"])
    ivs, how = gen_bad_intervals(rng, mi)
    api = rng.choice(["tables", "ts"])
    ctx.count("refusals")
    ctx.feature(f"bad-intervals:{how}")
    tc = to_tables(mi)
    before = from_tables(tc)
    if how not in ("wrong-shape", "one-dimensional") and rng.random() < 0.4:
        ivs = np.array(ivs)
    try:
        if api == "tables":
            getattr(tc, op)(ivs, simplify=False)
        else:
            getattr(tc.tree_sequence(), op)(ivs, simplify=False)
    except LIBERR:
        if api == "tables":
            after = from_tables(tc)
            for t in RowModel.TABLES:
                if getattr(after, t) != getattr(before, t):
                    ctx.violation(f"{op}/refused-but-modified", f"{op}({ivs}) raised but table {t} changed: "
                                  f"{getattr(after, t)} was {getattr(before, t)}", {"model": mi.to_json()})
                    break
        return
    except TypeError:
        return
    ctx.violation(f"{op}/bad-intervals-accepted/{how}", f"{api}.{op}({ivs}) [{how}] on L={mi.L} did not raise",
                  {"model": mi.to_json(), "intervals": ivs})


# ------------------------------------------------------------------------------- trims


def check_trim(ctx, mi, rng, op, src=None):
    api = rng.choice(["tables", "ts"])
    recprov = rng.random() < 0.5
    src = src or Source.draw(rng)
    pos, kw, style = X.call_form(rng, [("record_provenance", recprov, True)])
    what = f"{api}.{op}(record_provenance={recprov}) [{src.tag(api)}, call style {style}: {pos} {kw}]"
    detail = {"model": mi.to_json(), "op": op, "api": api}

    def bad(key, msg):
        ctx.violation(key, f"{msg} [{what}]", detail)

    if not mi.edges:
        ctx.count("refusals")
        try:
            run_op(api, mi, op, pos, kw, src)
        except LIBERR:
            return
        bad(f"{op}/no-edges-accepted", "trimming a collection with no edges did not raise")
        return
    lo = min(e[0] for e in mi.edges)
    hi = max(e[1] for e in mi.edges)
    # EITHER zone: migrations reaching outside the span of the edges may be refused (the docstring of
    # _check_trim_conditions refuses only some of them).  When the call returns, every row is still fixed by the
    # documentation (coordinates shifted, nothing else touched); only the validity of the result is not asserted.
    outside = any(g[0] < lo or g[1] > hi for g in mi.migrations)
    shift = lo if op in ("ltrim", "trim") else 0.0
    newL = hi if op in ("rtrim", "trim") else mi.L
    dead = set()
    for j, s in enumerate(mi.sites):
        if op in ("ltrim", "trim") and s[0] < lo:
            dead.add(j)
        if op in ("rtrim", "trim") and s[0] >= hi:
            dead.add(j)
    try:
        mo, out_tc = run_op(api, mi, op, pos, kw, src)
    except LIBERR as e:
        if outside and not isinstance(e, OpError):
            ctx.count("either:trim-migrations-outside")
            return
        bad(f"{op}/raised-on-valid-input", f"raised {type(e).__name__}: {e}")
        return
    ctx.count(f"{op}:{api}")
    ctx.feature(src.tag(api))
    ctx.feature(f"call-style:{style}")
    ctx.feature(f"trim:{'shift' if shift > 0 else 'noshift'}:{'cut' if newL < mi.L else 'nocut'}"
                f":{'sites-lost' if dead else 'sites-kept'}")
    if op != "rtrim" and shift > 0 and any(s[0] == lo for s in mi.sites):
        ctx.feature("trim:site-exactly-at-leftmost-edge-start")
    if op != "ltrim" and any(s[0] == hi for s in mi.sites):
        ctx.feature("trim:site-exactly-at-rightmost-edge-end")
    if outside:
        ctx.count("trim:migrations-outside-returned")
    else:
        accepts_as_ts(ctx, bad, op, out_tc, mo if api == "tables" else None)
    if mo.L != newL - shift:
        bad(f"{op}/sequence-length", f"sequence_length {mo.L} expected {newL - shift}")
    for t in ("nodes", "individuals", "populations"):
        same_table(ctx, bad, op, t, mo, getattr(mi, t))
    same_table(ctx, bad, op, "edges", mo, [(l - shift, r - shift, p, c, md) for l, r, p, c, md in mi.edges])
    same_table(ctx, bad, op, "migrations", mo,
               [(l - shift, r - shift, u, a, b, t, md) for l, r, u, a, b, t, md in mi.migrations])
    esites, emuts = delete_sites_ref(mi, dead)
    same_table(ctx, bad, op, "sites", mo, [(p - shift, a, md) for p, a, md in esites])
    same_table(ctx, bad, op, "mutations", mo, emuts)
    # topology at x - shift (redundant with the row check, kept as the documented claim)
    bps = mi.breakpoints()
    for a, b in zip(bps[:-1], bps[1:]):
        x = (a + b) / 2
        if lo <= x < hi or (op == "ltrim" and x >= lo) or (op == "rtrim" and x < hi):
            ctx.count("cover:edges")
            if [g[:2] for g in edge_cover(mo, x - shift)] != [g[:2] for g in edge_cover(mi, x)]:
                bad(f"{op}/topology-shifted", f"forest at {x}-{shift} differs from the input forest at {x}")
                break
    check_top_and_prov(ctx, bad, op, mi, mo, 1 if recprov else 0)


# ------------------------------------------------------------------------------- delete_sites


def check_delete_sites(ctx, mi, rng, src=None, valid_input=True):
    ns = len(mi.sites)
    api = rng.choice(["tables", "ts"]) if valid_input else "tables"
    recprov = rng.random() < 0.5
    src = src or Source.draw(rng)
    r = rng.random()
    if r < 0.15:
        ids, how = [], "empty"
    elif r < 0.3:
        ids, how = list(range(ns)), "all"
    elif r < 0.55 and ns:
        ids = [rng.randrange(ns) for _ in range(rng.randint(2, 5))]
        ids += [ids[0]]
        how = "duplicates"
    elif r < 0.65 and ns:
        # exact boundary ids and a contiguous run (so that range() is a possible container)
        a = rng.randrange(ns)
        ids, how = rng.choice([[0], [ns - 1], [0, ns - 1], list(range(a, rng.randint(a, ns - 1) + 1))]), "first-last-run"
    elif ns:
        ids, how = rng.sample(range(ns), rng.randint(1, ns)), "subset"
    else:
        ids, how = [], "empty"
    if r > 0.9:
        # ids outside [0, num_sites) must be refused (as whatever exception the conversion layer produces) and a
        # refused in-place call must leave the tables alone
        bad_id = rng.choice([ns, -1, ns + 3, 2 ** 31 - 1, 2 ** 31, -2 ** 31, -2 ** 31 - 1, 2 ** 32, 2 ** 32 + (ns - 1 if ns else 0)])
        arg = ids + [bad_id]
        if rng.random() < 0.3 and -2 ** 63 <= bad_id < 2 ** 63:
            arg = np.array(arg, dtype=np.int64)
        ctx.count("refusals")
        ctx.feature("site-ids:out-of-range" if abs(bad_id) < 2 ** 31 - 1 else "site-ids:out-of-int32-range")
        tc = src.tables(mi)
        before = from_tables(tc)
        try:
            if api == "tables":
                tc.delete_sites(arg)
            else:
                tc.tree_sequence().delete_sites(arg)
        except REFUSAL:
            after = from_tables(tc)
            for t in RowModel.TABLES:
                if getattr(after, t) != getattr(before, t):
                    ctx.violation("delete_sites/refused-but-modified", f"delete_sites({list(arg)}) raised but table {t} "
                                  f"changed: {getattr(after, t)} was {getattr(before, t)}", {"model": mi.to_json()})
                    break
            return
        ctx.violation("delete_sites/out-of-range-accepted", f"{api}.delete_sites({list(arg)}) with {ns} sites "
                      f"did not raise", {"model": mi.to_json()})
        return
    ctx.feature(f"site-ids:{how}")
    arg, form = X.site_ids_arg(rng, ids)
    ctx.feature(f"site-ids-arg:{form}")
    pos, kw, style = X.call_form(rng, [("record_provenance", recprov, True)])
    ctx.feature(f"call-style:{style}")
    ctx.feature(src.tag(api))
    what = (f"{api}.delete_sites({ids} as {form}, record_provenance={recprov}) [{src.tag(api)}, call style {style}: "
            f"{pos} {kw}]")
    detail = {"model": mi.to_json(), "site_ids": ids, "api": api}

    def bad(key, msg):
        ctx.violation(key, f"{msg} [{what}]", detail)

    try:
        mo, out_tc = run_op(api, mi, "delete_sites", (arg,) + pos, kw, src)
    except LIBERR as e:
        bad("delete_sites/raised-on-valid-input", f"raised {type(e).__name__}: {e}")
        return
    ctx.count(f"delete_sites:{api}")
    if valid_input:
        accepts_as_ts(ctx, bad, "delete_sites", out_tc, mo if api == "tables" else None)
    esites, emuts = delete_sites_ref(mi, set(ids))
    if any(mu[3] != NULL and mu[3] != k - 1 for k, mu in enumerate(emuts)) and len(esites) < ns:
        ctx.feature("delete_sites:non-adjacent-parent-remapped")
    for t in ("nodes", "edges", "individuals", "populations", "migrations"):
        same_table(ctx, bad, "delete_sites", t, mo, getattr(mi, t))
    same_table(ctx, bad, "delete_sites", "sites", mo, esites)
    same_table(ctx, bad, "delete_sites", "mutations", mo, emuts)
    if mo.L != mi.L:
        bad("delete_sites/sequence-length", f"sequence_length {mo.L} expected {mi.L}")
    check_top_and_prov(ctx, bad, "delete_sites", mi, mo, 1 if recprov else 0)


# ------------------------------------------------------------------------------- time cut-offs


def cutoff_times(rng, m, n=5):
    """n cut-off times: the first three are forced classes (exactly a node / mutation / migration time, preferring a
    known mutation time; the double just below or above such a time; strictly between two times), the rest is drawn
    from all classes including below / above everything and +-0.0."""
    ntimes = sorted({nd[1] for nd in m.nodes})
    mtimes = sorted({mu[4] for mu in m.mutations if mu[4] is not None})
    ts_ = sorted(set(ntimes) | set(mtimes) | {g[5] for g in m.migrations})
    if not ts_:
        return [(0.0, "no-times")]
    forced = []
    at = rng.choice(mtimes) if mtimes and rng.random() < 0.5 else rng.choice(ts_)
    forced.append((at, "at-a-time"))
    t = rng.choice(ts_)
    forced.append(rng.choice([(math.nextafter(t, -math.inf), "just-below-a-time"),
                              (math.nextafter(t, math.inf), "just-above-a-time")]))
    if len(ts_) > 1:
        j = rng.randrange(len(ts_) - 1)
        forced.append(((ts_[j] + ts_[j + 1]) / 2, "between"))
    out = [(ts_[0] - 1.0, "below-all"), (ts_[-1] + 1.0, "above-all"), (rng.choice([0.0, -0.0]), "zero")]
    out += [(t, "at-a-time") for t in rng.sample(ts_, min(len(ts_), 3))]
    for a, b in zip(ts_[:-1], ts_[1:]):
        if rng.random() < 0.5:
            out.append(((a + b) / 2, "between"))
    for t in rng.sample(ts_, min(len(ts_), 2)):
        out.append((math.nextafter(t, -math.inf), "just-below-a-time"))
        out.append((math.nextafter(t, math.inf), "just-above-a-time"))
    rng.shuffle(out)
    return (forced + out)[:n]


def split_reference(mi, t):
    """Edges (ids) intersecting time t, and for every mutation whether it moves to the new node."""
    hit = [j for j, e in enumerate(mi.edges) if mi.time(e[3]) < t < mi.time(e[2])]
    moves = {}
    for k, mu in enumerate(mi.mutations):
        x = mi.sites[mu[0]][0]
        above = [j for j in hit if mi.edges[j][3] == mu[1] and mi.edges[j][0] <= x < mi.edges[j][1]]
        if above and mutation_time(mi, k) >= t:
            moves[k] = above[0]
    return hit, moves


def new_node_kwargs(rng, m):
    """Keyword arguments for split_edges / decapitate and the expected columns of the new nodes.  exp["metadata"] is
    the expected bytes, or ("json", obj) when the node table has a JSON schema (the stored text may be any JSON
    spelling of obj; an empty byte string reads as {} under the JSON codec)."""
    kw, exp = {}, {"flags": 0, "population": NULL, "metadata": b""}
    forms = []
    if rng.random() < 0.5:
        exp["flags"] = rng.choice([0, 1, 2, 1 << 20, 2 ** 31, 2 ** 32 - 1])
        kw["flags"], f = X.number_form(rng, exp["flags"], "int")
        forms.append("flags:" + f)
    if rng.random() < 0.5:
        exp["population"] = rng.choice([NULL] + list(range(len(m.populations))) + [len(m.populations) - 1])
        kw["population"], f = X.number_form(rng, exp["population"], "int")
        forms.append("population:" + f)
    schema = m.schemas.get("nodes", "")
    if '"struct"' in schema:
        # X.STRUCT_NODE_SCHEMA: one little-endian int32 "a", default 9; "the default metadata is an empty dictionary
        # if a metadata schema is defined"
        import struct
        exp["metadata"] = struct.pack("<i", 9)
        if rng.random() < 0.6:
            obj = rng.choice([{}, {"a": 0}, {"a": -2 ** 31}, {"a": 2 ** 31 - 1}])
            kw["metadata"] = obj
            exp["metadata"] = struct.pack("<i", obj.get("a", 9))
        forms.append("metadata:struct-schema:" + ("given" if "metadata" in kw else "default"))
    elif schema:
        exp["metadata"] = ("json", {})
        if rng.random() < 0.6:
            obj = rng.choice([{}, {"id": 5}, {"id": 0, "z": [1, "x", None], "a": {"b": 1.5}}])
            kw["metadata"] = obj
            exp["metadata"] = ("json", obj)
        forms.append("metadata:json-schema:" + ("given" if "metadata" in kw else "default"))
    elif rng.random() < 0.5:
        exp["metadata"] = kw["metadata"] = rng.choice([b"", b"new", b"\x00\xff", b"x" * 300])
    return kw, exp, forms


def md_matches(got, want):
    if isinstance(want, tuple):
        import json
        try:
            return (json.loads(got) if got else {}) == want[1]
        except ValueError:
            return False
    return got == want


def check_new_nodes(ctx, bad, op, mi, mo, t, nhit, exp):
    n = mi.num_nodes
    ctx.count("new-nodes")
    same_rows = mo.nodes[:n] == mi.nodes
    if not same_rows:
        d = diff_rows(op, "nodes", mo.nodes[:n], mi.nodes)
        bad(*d)
    new = mo.nodes[n:]
    want = (exp["flags"], t, exp["population"], NULL, exp["metadata"])
    if len(new) != nhit:
        bad(f"{op}/new-node-count", f"{len(new)} new nodes, but {nhit} edges intersect time {t}")
        return False
    wrong = [(n + i, r) for i, r in enumerate(new) if r[:4] != want[:4] or not md_matches(r[4], want[4])]
    if wrong:
        cols = [c for c, a, b in zip(COLS["nodes"], wrong[0][1], want)
                if (not md_matches(a, b) if c == "metadata" else a != b)]
        bad(f"{op}/new-node-{'+'.join(cols)}", f"new node {wrong[0][0]} is {wrong[0][1]}, expected {want}")
        return False
    return same_rows


def kwjson(kw):
    return {k: (v.hex() if isinstance(v, bytes) else (v if isinstance(v, dict) else int(v))) for k, v in kw.items()}


def check_split_edges(ctx, mi, rng, t, how, src=None):
    kw, exp, forms = new_node_kwargs(rng, mi)
    src = src or Source.draw(rng)
    targ, tform = X.number_form(rng, t, "time")
    what = f"ts.split_edges({t!r} as {tform}, {kw}) [{src.tag('ts')}]"
    detail = {"model": mi.to_json(), "time": t, "kwargs": kwjson(kw)}
    op = "split_edges"

    def bad(key, msg):
        ctx.violation(key, f"{msg} [{what}]", detail)

    ts = src.ts(mi)
    if mi.migrations:
        ctx.count("refusals")
        try:
            ts.split_edges(targ, **kw)
        except LIBERR:
            return
        bad("split_edges/migrations-accepted", "split_edges on a tree sequence with migrations did not raise")
        return
    try:
        out = call(ts, "split_edges", targ, **kw) if rng.random() < 0.8 else call(ts, "split_edges", time=targ, **kw)
    except LIBERR as e:
        bad("split_edges/raised-on-valid-input", f"raised {type(e).__name__}: {e}")
        return
    for f in forms + ["time:" + tform]:
        ctx.feature("new-node-arg:" + f)
    ctx.feature(src.tag("ts"))
    ctx.count("split_edges:ts")
    ctx.feature(f"cutoff:{how}")
    mo = from_tables(out.dump_tables())
    n = mi.num_nodes
    hit, moves = split_reference(mi, t)
    if len(hit) >= 256:
        ctx.feature("split:>=256-new-nodes")
    if moves:
        ctx.feature("split:mutation-moved")
        if any(mutation_time(mi, k) == t for k in moves):
            ctx.feature("split:mutation-exactly-at-cutoff-moved")
    if any(mi.edges[j][3] == mu[1] and mi.edges[j][0] <= mi.sites[mu[0]][0] < mi.edges[j][1]
           for k, mu in enumerate(mi.mutations) if k not in moves for j in hit):
        ctx.feature("split:mutation-below-cutoff-on-split-edge-stays")
    if not check_new_nodes(ctx, bad, op, mi, mo, t, len(hit), exp):
        return
    for tb in ("sites", "individuals", "populations", "migrations"):
        same_table(ctx, bad, op, tb, mo, getattr(mi, tb))
    # edges: contracting every new node gives back the input rows (as a multiset, metadata included)
    ctx.count("split:edges")
    up, down = {}, {}
    rest = []
    for e in mo.edges:
        l, r, p, c, md = e
        if c >= n and p >= n:
            bad("split_edges/new-nodes-chained", f"edge {e} joins two new nodes")
            return
        if c >= n:
            up.setdefault(c, []).append(e)
        elif p >= n:
            down.setdefault(p, []).append(e)
        else:
            rest.append(e)
    contracted = []
    child_of = {}
    for u in range(n, len(mo.nodes)):
        a, b = up.get(u, []), down.get(u, [])
        if len(a) != 1 or len(b) != 1:
            bad("split_edges/new-node-degree", f"new node {u} has {len(a)} edges above and {len(b)} below; "
                f"expected exactly one of each")
            return
        if a[0][:2] != b[0][:2]:
            bad("split_edges/halves-differ-in-span", f"halves {a[0]} and {b[0]} of a split edge cover different spans")
            return
        if a[0][4] != b[0][4]:
            bad("split_edges/edge-metadata-not-copied", f"halves {a[0]} and {b[0]} carry different metadata")
            return
        contracted.append((a[0][0], a[0][1], a[0][2], b[0][3], a[0][4]))
        child_of[u] = (b[0][3], b[0][0], b[0][1])
    exp_split = sorted((mi.edges[j] for j in hit), key=repr)
    exp_rest = sorted((e for j, e in enumerate(mi.edges) if j not in set(hit)), key=repr)
    if sorted(contracted, key=repr) != exp_split:
        d = diff_rows(op, "edges", sorted(contracted, key=repr), exp_split)
        bad(d[0] if d else "split_edges/edge-rows", f"edges through new nodes contract to {sorted(contracted, key=repr)}, "
            f"expected the intersecting input edges {exp_split}")
    if sorted(rest, key=repr) != exp_rest:
        d = diff_rows(op, "edges", sorted(rest, key=repr), exp_rest)
        bad(d[0] if d else "split_edges/edge-rows", f"untouched edges {sorted(rest, key=repr)} expected {exp_rest}")
    # mutations: identical rows in the same order, node replaced only by the documented rule
    ctx.count("split:mutations")
    if len(mo.mutations) != len(mi.mutations):
        bad("split_edges/mutation-rows", f"{len(mo.mutations)} mutations, expected {len(mi.mutations)}")
        return
    for k, (a, b) in enumerate(zip(mo.mutations, mi.mutations)):
        x = mi.sites[b[0]][0]
        if k in moves:
            e = mi.edges[moves[k]]
            u = a[1]
            okn = u >= n and child_of.get(u, (None,))[0] == b[1] and child_of[u][1] <= x < child_of[u][2]
            if not okn:
                bad("split_edges/mutation-not-moved", f"mutation {k} {b} (time {mutation_time(mi, k)} >= {t}) lies on "
                    f"split edge {e} and must move to its new node; got {a}")
                return
        elif a[1] != b[1]:
            bad("split_edges/mutation-moved", f"mutation {k} {b} (time {mutation_time(mi, k)}) must keep its node for "
                f"cut-off {t}; got {a}")
            return
        if a[:1] + a[2:] != b[:1] + b[2:]:
            d = diff_rows(op, "mutations", [a], [b[:1] + (a[1],) + b[2:]])
            bad(d[0], f"mutation {k} is {a}, was {b}")
            return
    if mo.L != mi.L:
        bad("split_edges/sequence-length", f"sequence_length {mo.L} expected {mi.L}")
    check_top_and_prov(ctx, bad, op, mi, mo, None)


def check_decapitate(ctx, mi, rng, t, how, src=None):
    kw, exp, forms = new_node_kwargs(rng, mi)
    src = src or Source.draw(rng)
    targ, tform = X.number_form(rng, t, "time")
    what = f"ts.decapitate({t!r} as {tform}, {kw}) [{src.tag('ts')}]"
    detail = {"model": mi.to_json(), "time": t, "kwargs": kwjson(kw)}
    op = "decapitate"

    def bad(key, msg):
        ctx.violation(key, f"{msg} [{what}]", detail)

    ts = src.ts(mi)
    if mi.migrations:
        ctx.count("refusals")
        try:
            ts.decapitate(targ, **kw)
        except LIBERR:
            return
        bad("decapitate/migrations-accepted", "decapitate on a tree sequence with migrations did not raise")
        return
    try:
        out = call(ts, "decapitate", targ, **kw) if rng.random() < 0.8 else call(ts, "decapitate", time=targ, **kw)
    except LIBERR as e:
        bad("decapitate/raised-on-valid-input", f"raised {type(e).__name__}: {e}")
        return
    for f in forms + ["time:" + tform]:
        ctx.feature("new-node-arg:" + f)
    ctx.feature(src.tag("ts"))
    ctx.count("decapitate:ts")
    ctx.feature(f"cutoff:{how}")
    mo = from_tables(out.dump_tables())
    n = mi.num_nodes
    hit = [j for j, e in enumerate(mi.edges) if mi.time(e[3]) < t < mi.time(e[2])]
    if not check_new_nodes(ctx, bad, op, mi, mo, t, len(hit), exp):
        return
    for tb in ("sites", "individuals", "populations", "migrations"):
        same_table(ctx, bad, op, tb, mo, getattr(mi, tb))
    ctx.count("decapitate:edges")
    seen_parent = set()
    stumps, rest = [], []
    for e in mo.edges:
        l, r, p, c, md = e
        if c >= n:
            bad("decapitate/edge-above-new-node", f"edge {e} survives above a new node (its parent is older than {t})")
            return
        if p >= n:
            if p in seen_parent:
                bad("decapitate/new-node-shared", f"new node {p} is the parent of more than one edge")
                return
            seen_parent.add(p)
            stumps.append((l, r, c, md))
        else:
            rest.append(e)
    exp_stumps = sorted(((mi.edges[j][0], mi.edges[j][1], mi.edges[j][3], mi.edges[j][4]) for j in hit), key=repr)
    exp_rest = sorted((e for e in mi.edges if mi.time(e[2]) <= t), key=repr)
    if sorted(stumps, key=repr) != exp_stumps:
        key = "decapitate/stump-edges"
        if [s[:3] for s in sorted(stumps, key=repr)] == [s[:3] for s in exp_stumps]:
            key = "decapitate/edge-metadata"
        bad(key, f"edges below new nodes (left,right,child,metadata) {sorted(stumps, key=repr)} expected {exp_stumps}")
    if sorted(rest, key=repr) != exp_rest:
        d = diff_rows(op, "edges", sorted(rest, key=repr), exp_rest)
        bad(d[0] if d else "decapitate/edge-rows", f"edges between old nodes {sorted(rest, key=repr)}, expected those with "
            f"parent time <= {t}: {exp_rest}")
    dead = {k for k in range(len(mi.mutations)) if mutation_time(mi, k) >= t}
    same_table(ctx, bad, op, "mutations", mo, delete_mutations_ref(mi, dead))
    # the forest strictly below the cut is untouched
    bps = mi.breakpoints()
    for a, b in zip(bps[:-1], bps[1:]):
        x = (a + b) / 2
        ctx.count("cover:edges")
        fi, fo = mi.forest_at(x), mo.forest_at(x)
        below = {c: p for c, p in fi.items() if mi.time(p) <= t}
        got = {c: p for c, p in fo.items() if p < n}
        if got != below:
            bad("decapitate/forest-below-cut", f"at x={x} links among old nodes {got} expected {below}")
            break
    check_top_and_prov(ctx, bad, op, mi, mo, None)


def check_delete_older(ctx, mi, rng, t, how, src=None, valid_input=True):
    src = src or Source.draw(rng)
    targ, tform = X.number_form(rng, t, "time")
    what = f"tables.delete_older({t!r} as {tform}) [{src.tag('tables')}]"
    detail = {"model": mi.to_json(), "time": t}
    op = "delete_older"

    def bad(key, msg):
        ctx.violation(key, f"{msg} [{what}]", detail)

    try:
        mo, out_tc = run_op("tables", mi, "delete_older", (), {"time": targ}, src) if rng.random() < 0.2 else \
            run_op("tables", mi, "delete_older", (targ,), {}, src)
    except LIBERR as e:
        bad("delete_older/raised-on-valid-input", f"raised {type(e).__name__}: {e}")
        return
    ctx.count("delete_older:tables")
    ctx.feature(f"cutoff:{how}")
    ctx.feature(src.tag("tables"))
    ctx.feature("cutoff-arg:" + tform)
    if valid_input:
        # edges, mutations and migrations are only removed and mutation parents are kept up: still a tree sequence
        accepts_as_ts(ctx, bad, op, out_tc, mo)
    for tb in ("nodes", "sites", "individuals", "populations"):
        same_table(ctx, bad, op, tb, mo, getattr(mi, tb))
    same_table(ctx, bad, op, "edges", mo, [e for e in mi.edges if not mi.time(e[2]) > t])
    same_table(ctx, bad, op, "migrations", mo, [g for g in mi.migrations if not g[5] >= t])
    dead = {k for k in range(len(mi.mutations)) if mutation_time(mi, k) >= t}
    if any(mu[3] in dead for k, mu in enumerate(mi.mutations) if k not in dead):
        ctx.feature("delete_older:kept-mutation-loses-parent")
    if any(mu[3] != NULL and mu[3] not in dead and any(d < mu[3] for d in dead)
           for k, mu in enumerate(mi.mutations) if k not in dead):
        ctx.feature("delete_older:kept-parent-id-shifts")
    if any(mutation_time(mi, k) == t for k in dead):
        ctx.feature("delete_older:mutation-exactly-at-cutoff")
    if any(mi.time(e[2]) == t for e in mi.edges):
        ctx.feature("delete_older:edge-parent-exactly-at-cutoff")
    if any(g[5] == t for g in mi.migrations):
        ctx.feature("delete_older:migration-exactly-at-cutoff")
    same_table(ctx, bad, op, "mutations", mo, delete_mutations_ref(mi, dead))
    if mo.L != mi.L:
        bad("delete_older/sequence-length", f"sequence_length {mo.L} expected {mi.L}")
    check_top_and_prov(ctx, bad, op, mi, mo, None)


def check_bad_split_args(ctx, mi, rng):
    if mi.migrations:
        return
    ts = to_tables(mi).tree_sequence()
    npop = len(mi.populations)
    op = rng.choice(["split_edges", "decapitate"])
    kind, kw, t = rng.choice([
        ("population-out-of-range", {"population": npop}, 0.5),
        ("population-out-of-range", {"population": -2}, 0.5),
        ("population-out-of-range", {"population": 2 ** 31 - 1}, 0.5),
        ("population-out-of-range", {"population": 2 ** 31}, 0.5),
        ("flags-out-of-range", {"flags": 2 ** 32}, 0.5),
        ("flags-out-of-range", {"flags": -1}, 0.5),
        ("nonfinite-time", {}, float("nan")),
        ("nonfinite-time", {}, float("inf")),
        ("nonfinite-time", {}, float("-inf")),
    ])
    ctx.count("refusals")
    ctx.feature(f"bad-split-arg:{kind}")
    try:
        getattr(ts, op)(t, **kw)
    except REFUSAL:
        return
    ctx.violation(f"{op}/{kind}-accepted", f"ts.{op}({t}, {kw}) with {npop} populations did not raise",
                  {"model": mi.to_json()})


# ------------------------------------------------------------------------------- extend_haplotypes


def extend_call(rng, ts, max_iter):
    """ts.extend_haplotypes with max_iter as positional / keyword / omitted (documented default 10) / another numeric
    type of the same value."""
    form = rng.choice(["pos", "pos", "kw", "np.int64", "np.int32", "float"] + (["default"] * 3 if max_iter == 10 else []))
    if form == "default":
        return call(ts, "extend_haplotypes"), form
    if form == "kw":
        return call(ts, "extend_haplotypes", max_iter=max_iter), form
    v = {"pos": max_iter, "np.int64": np.int64(max_iter), "np.int32": np.int32(max_iter), "float": float(max_iter)}[form]
    return call(ts, "extend_haplotypes", v), form


def check_extend(ctx, mi, rng, src=None, light=False):
    op = "extend_haplotypes"
    max_iter = rng.choice([1, 2, 10, 10, 10, 2 ** 31 - 1])
    src = src or Source.draw(rng)
    what = f"ts.extend_haplotypes(max_iter={max_iter}) [{src.tag('ts')}]"
    detail = {"model": mi.to_json(), "max_iter": max_iter}

    def bad(key, msg):
        ctx.violation(key, f"{msg} [{what}]", detail)

    ts = src.ts(mi)
    unknown = any(mu[4] is None for mu in mi.mutations)
    if mi.migrations or unknown:
        ctx.count("refusals")
        try:
            ts.extend_haplotypes(max_iter)
        except LIBERR:
            return
        bad(f"extend_haplotypes/{'migrations' if mi.migrations else 'unknown-mutation-times'}-accepted",
            "did not raise although the docstring requires known mutation times and no migrations")
        return
    if rng.random() < 0.05:
        ctx.count("refusals")
        v = rng.choice([0, -1, -2 ** 31, 2 ** 31])
        try:
            ts.extend_haplotypes(v)
        except REFUSAL:
            return
        bad("extend_haplotypes/bad-max_iter-accepted", f"max_iter = {v} did not raise")
        return
    try:
        out, form = extend_call(rng, ts, max_iter)
    except LIBERR as e:
        bad("extend_haplotypes/raised-on-valid-input", f"raised {type(e).__name__}: {e}")
        return
    ctx.feature("extend-arg:" + form)
    ctx.feature(src.tag("ts"))
    what += f" [max_iter passed as {form}]"
    ctx.count("extend_haplotypes:ts")
    mo = from_tables(out.dump_tables())
    if mo.edges != mi.edges:
        ctx.feature("extend:edges-changed")
    for tb in ("nodes", "sites", "individuals", "populations", "migrations"):
        same_table(ctx, bad, op, tb, mo, getattr(mi, tb))
    ctx.count("extend:mutations")
    strip = lambda rows: [r[:1] + r[2:] for r in rows]  # noqa: E731
    if strip(mo.mutations) != strip(mi.mutations):
        d = diff_rows(op, "mutations", [r[:1] + (0,) + r[2:] for r in mo.mutations],
                      [r[:1] + (0,) + r[2:] for r in mi.mutations])
        bad(d[0], f"a mutation column other than node changed: {mo.mutations} was {mi.mutations}")
        return
    if [r[1] for r in mo.mutations] != [r[1] for r in mi.mutations]:
        ctx.feature("extend:mutation-nodes-changed")
    if mo.L != mi.L:
        bad("extend_haplotypes/sequence-length", f"sequence_length {mo.L} expected {mi.L}")
    S = set(mi.samples())
    # every sample genotype identical
    for j, s in enumerate(mi.sites):
        fi, fo = forest(mi, s[0]), forest(mo, s[0])
        for u in S:
            ctx.count("extend:genotypes")
            a, b = allele_at(mi, fi, j, u), allele_at(mo, fo, j, u)
            if a != b:
                bad("extend_haplotypes/genotype-changed", f"sample {u} at site {j} (x={s[0]}) has allele {b!r}, was {a!r}")
                return
    # simplify() of the result == simplify() of the input: same induced sample genealogy at every position,
    # and every mutation ends up on the same simplified node
    opts = dict(DEFAULT_OPTS)
    bps = sorted(set(mi.breakpoints()) | set(mo.breakpoints()))
    for a, b in zip(bps[:-1], bps[1:]):
        x = (a + b) / 2
        ctx.count("extend:simplified-genealogy")
        pi = expected_parent_map(mi, forest(mi, x), S, opts)[0]
        po = expected_parent_map(mo, forest(mo, x), S, opts)[0]
        if pi != po:
            bad("extend_haplotypes/simplified-genealogy-changed",
                f"at x={x} the sample genealogy after simplification is {po}, was {pi}; forests {mo.forest_at(x)} / "
                f"{mi.forest_at(x)}")
            return
    for k, (mu_i, mu_o) in enumerate(zip(mi.mutations, mo.mutations)):
        x = mi.sites[mu_i[0]][0]
        ctx.count("extend:simplified-mutation-node")
        res = []
        for m, mu in ((mi, mu_i), (mo, mu_o)):
            fr = forest(m, x)
            par, kept, A, rex = expected_parent_map(m, fr, S, opts)[:4]
            res.append(expected_mutation_node(fr, mu[1], kept, A, rex) if mu[1] in A else None)
        if res[0] != res[1]:
            bad("extend_haplotypes/simplified-mutation-node-changed",
                f"mutation {k} sits on simplified node {res[1]} after extension (node {mu_o[1]}), was {res[0]} "
                f"(node {mu_i[1]})")
            return
    # cross-check through the real simplify (row-level, canonical edge order)
    if not any(e[4] for e in mi.edges) and rng.random() < 0.5:
        ctx.count("extend:simplify-differential")
        try:
            a = to_tables(mi)
            a.simplify(record_provenance=False)
            b = out.dump_tables()
            b.simplify(record_provenance=False)
        except LIBERR:
            return
        ma, mb = from_tables(a), from_tables(b)
        # node ids of equal-time ancestors may be numbered differently: compare through position-wise forests
        # over (time, metadata, flags) labels when the node tables are equal, else fall back to counts
        if ma.nodes == mb.nodes:
            bb = sorted(set(ma.breakpoints()) | set(mb.breakpoints()))
            for l, r in zip(bb[:-1], bb[1:]):
                x = (l + r) / 2
                if ma.forest_at(x) != mb.forest_at(x):
                    bad("extend_haplotypes/simplify-differs", f"simplify(result) and simplify(input) differ at x={x}: "
                        f"{mb.forest_at(x)} / {ma.forest_at(x)}")
                    return
            if ma.mutations != mb.mutations or ma.sites != mb.sites:
                bad("extend_haplotypes/simplify-differs", f"simplify(result) and simplify(input) differ in sites/"
                    f"mutations: {mb.mutations} / {ma.mutations}")
        else:
            ctx.count("either:simplified-node-order")
    check_top_and_prov(ctx, bad, op, mi, mo, None)


# ------------------------------------------------------------------------------- driver


def build_arg(rng):
    """Simplified msprime ancestry with recombination: ancestors are present only where they are coalescent,
    which is exactly the situation extend_haplotypes is meant to repair.  Known mutation times."""
    import msprime

    ts = msprime.sim_ancestry(rng.randint(2, 5), ploidy=rng.choice([1, 2]), sequence_length=rng.choice([8, 16]),
                              recombination_rate=rng.choice([0.05, 0.15, 0.3]), population_size=rng.choice([1, 4]),
                              random_seed=rng.randint(1, 2 ** 31 - 1), discrete_genome=rng.random() < 0.7,
                              coalescing_segments_only=False)
    ts = msprime.sim_mutations(ts, rate=rng.choice([0.02, 0.1, 0.3]), random_seed=rng.randint(1, 2 ** 31 - 1),
                               discrete_genome=rng.random() < 0.5)
    tc = ts.dump_tables()
    tc.provenances.clear()
    mode = rng.choice(["simplified", "simplified", "subset-simplified", "raw"])
    if mode != "raw":
        flagged = [u for u in range(tc.nodes.num_rows) if tc.nodes.flags[u] & 1]
        smp = flagged if mode == "simplified" else rng.sample(flagged, rng.randint(2, len(flagged)))
        tc.simplify(smp, record_provenance=False, filter_nodes=rng.random() < 0.7)
    m = from_tables(tc)
    m.schemas, m.metadata_schema, m.metadata, m.refseq = {}, "", b"", None
    m.tags.add("arg:" + mode)
    if rng.random() < 0.5:
        gen.decorate_meta(rng, m, tables=("nodes", "sites", "mutations", "individuals", "populations"))
    return m


def witness_extend_detached():
    m = RowModel(10.0)
    m.nodes = [(NODE_IS_SAMPLE, 0.0, NULL, NULL, b""), (0, 2.0, NULL, NULL, b""), (0, 1.0, NULL, NULL, b"")]
    m.edges = [(0.0, 5.0, 2, 0, b""), (0.0, 5.0, 1, 2, b""), (5.0, 10.0, 1, 0, b"")]
    m.edges.sort(key=lambda e: (m.nodes[e[2]][1], e[2], e[3], e[0]))
    m.sites = [(7.0, "A", b"")]
    m.mutations = [(0, 2, "T", NULL, 1.5, b"")]
    return m


def clipped_variant(rng, m):
    """The model with every edge / migration clipped to [lo, hi) so that the trims really shift and cut.  In half of
    the cases lo (hi) is exactly a site position: that site is kept at the new position 0 (dropped, since positions
    >= the new sequence length go)."""
    m2 = m.copy()
    grid = [k * m.L / 16 for k in range(17)]
    lo, hi = sorted(rng.sample(grid, 2))
    spos = [s[0] for s in m.sites]
    r = rng.random()
    if spos and r < 0.3:
        lo = rng.choice(spos)
    elif spos and r < 0.6:
        hi = rng.choice(spos)
    elif len(spos) > 1 and r < 0.7:
        lo, hi = sorted(rng.sample(spos, 2))
    if not lo < hi:
        lo, hi = sorted(rng.sample(grid, 2))
    m2.edges = [(max(l, lo), min(r, hi), p, c, md) for l, r, p, c, md in m.edges if l < hi and r > lo]
    m2.migrations = [(max(g[0], lo), min(g[1], hi)) + tuple(g[2:]) for g in m.migrations
                     if g[0] < hi and g[1] > lo]
    par = mutation_parents(m2)
    m2.mutations = [mu[:3] + (par[k],) + mu[4:] for k, mu in enumerate(m2.mutations)]
    return m2


def check_reused_object(ctx, m, rng):
    """Two in-place operations on ONE TableCollection object: the first (checked elsewhere) only prepares the
    object, its result read back through raw columns is the input model of the second, which is checked in full."""
    L = m.L
    ns = len(m.sites)
    first = rng.choice(["delete_sites", "keep_intervals", "delete_older", "rtrim", "ltrim", "sort+index"])
    if first == "delete_sites":
        ids = rng.sample(range(ns), rng.randint(0, ns)) if ns else []
        prep = lambda tc, ids=ids: tc.delete_sites(ids, record_provenance=False)  # noqa: E731
    elif first == "keep_intervals":
        a, b = sorted(rng.sample([k * L / 8 for k in range(9)], 2))
        prep = lambda tc, a=a, b=b: tc.keep_intervals([(a, b)], simplify=False, record_provenance=False)  # noqa: E731
    elif first == "delete_older":
        t0 = rng.choice(sorted({n[1] for n in m.nodes})) if m.nodes else 0.0
        prep = lambda tc, t0=t0: tc.delete_older(t0)  # noqa: E731
    elif first in ("rtrim", "ltrim"):
        if not m.edges:
            return
        prep = lambda tc, first=first: getattr(tc, first)(record_provenance=False)  # noqa: E731
    else:
        prep = lambda tc: (tc.sort(), tc.build_index())  # noqa: E731
    src = Source(base=m, prep=prep)
    try:
        tc = src.tables(m)
        m1 = from_tables(tc)
        tc.tree_sequence()
    except LIBERR:
        ctx.count("either:reused-object-first-op-refused")
        return
    ctx.count("reused-object")
    ctx.feature(f"reused-object:first={first}")
    second = rng.choice(["keep_intervals", "delete_intervals", "delete_sites", "ltrim", "rtrim", "trim",
                         "delete_older", "split_edges", "extend_haplotypes"])
    ctx.feature(f"reused-object:second={second}")
    if second in ("keep_intervals", "delete_intervals"):
        check_intervals_op(ctx, m1, rng, second, src)
    elif second == "delete_sites":
        check_delete_sites(ctx, m1, rng, src)
    elif second in ("ltrim", "rtrim", "trim"):
        check_trim(ctx, m1, rng, second, src)
    elif second == "delete_older":
        t, how = cutoff_times(rng, m1, 1)[0]
        check_delete_older(ctx, m1, rng, t, how, src)
    elif second == "split_edges":
        t, how = cutoff_times(rng, m1, 1)[0]
        check_split_edges(ctx, m1, rng, t, how, src)
    elif not m1.migrations and all(mu[4] is not None for mu in m1.mutations):
        m1d = m1.copy()
        if not drop_detached_mutations(m1d):
            check_extend(ctx, m1, rng, src)


def check_unsorted(ctx, m, rng):
    """delete_older is documented to have 'no specific sorting requirements' and to maintain mutation parents;
    delete_sites (TableCollection) states none either: rows of edges / sites / mutations / migrations in random
    order, mutation parents possibly after their children."""
    mu = X.shuffled_rows(rng, m)
    ctx.count("unsorted-tables")
    if any(p > k for k, (_, _, _, p, _, _) in enumerate(mu.mutations)):
        ctx.feature("unsorted:mutation-parent-after-child")
    t, how = cutoff_times(rng, mu, 1)[0]
    check_delete_older(ctx, mu, rng, t, how, FRESH, valid_input=False)
    check_delete_sites(ctx, mu, rng, FRESH, valid_input=False)


def run_big(ctx, rng):
    global _forced_intervals
    m = X.build_big(rng)
    for t in m.tags:
        ctx.feature(t)
    ctx.sig(m.signature(), nontrivial=True)
    ctx.count("big-instances")
    check_delete_sites(ctx, m, rng)
    # three of the remaining six operation groups per instance (the reference model is quadratic here)
    todo = rng.sample(["intervals", "many-intervals", "trim", "split+decapitate", "delete_older", "extend"], 3)
    if "intervals" in todo:
        check_intervals_op(ctx, m, rng, rng.choice(["keep_intervals", "delete_intervals"]))
    if "many-intervals" in todo:
        # >= 64 intervals: gaps between consecutive sites, ends exactly on site positions
        sp = [s[0] for s in m.sites]
        ivs = [(a, b) for a, b in zip(sp[0:-1:2], sp[1::2])]
        j = rng.randrange(len(ivs) - 70)
        _forced_intervals = (ivs[j:j + rng.choice([64, 65, 70])], "many-intervals")
        try:
            check_intervals_op(ctx, m, rng, rng.choice(["keep_intervals", "delete_intervals"]))
        finally:
            _forced_intervals = None
    if "trim" in todo:
        m2 = clipped_variant(rng, m)
        if m2.edges and loads(m2):
            check_trim(ctx, m2, rng, rng.choice(["ltrim", "rtrim", "trim"]))
    if "split+decapitate" in todo:
        t, how = rng.choice([(0.5, "between"), (1.5, "between"), (2.5, "between"), (1.0, "at-a-time")])
        check_split_edges(ctx, m, rng, t, how)
        check_decapitate(ctx, m, rng, t, how)
    if "delete_older" in todo:
        check_delete_older(ctx, m, rng, rng.choice([1.0, 2.0, 3.0, 0.0]), "at-a-time")
    if "extend" in todo:
        m3 = X.few_sites(rng, m, 8)
        m3.mutations = [mu[:4] + (mutation_time(m3, k),) + mu[5:] for k, mu in enumerate(m3.mutations)]
        if valid_mutation_times(m3) and loads(m3):
            check_extend(ctx, m3, rng)


_forced_intervals = None


def run_case(case, ctx):
    rng = case_rng(case)
    if case["gen"] == "witness-extend-detached":
        m = witness_extend_detached()
        ctx.sig(m.signature(), nontrivial=True)
        ctx.count("extend:detached-mutation-inputs")
        check_extend_detached(ctx, m)
        return
    if case["gen"] == "big":
        run_big(ctx, rng)
        return
    if case["gen"] == "extend-motif":
        # forced trigger for the extension rule: a chain present on one side of a breakpoint only; samples inside the
        # chain must stay where they are
        m = X.build_extend_motif(rng)
        gen.decorate_sites(rng, m, max_sites=5, known_times=True)
        if rng.random() < 0.4:
            gen.decorate_meta(rng, m, tables=("nodes", "sites", "mutations"))
        for t in gen.topo_tags(m):
            ctx.feature(t)
        ctx.sig(m.signature(), nontrivial=True)
        md = m.copy()
        if drop_detached_mutations(m):
            ctx.count("extend:detached-mutation-inputs")
            check_extend_detached(ctx, md)
        if valid_mutation_times(m) and loads(m):
            check_extend(ctx, m, rng)
            t, how = cutoff_times(rng, m, 1)[0]
            check_split_edges(ctx, m, rng, t, how)
            check_intervals_op(ctx, m, rng, rng.choice(["keep_intervals", "delete_intervals"]))
        return
    if case["gen"] == "arg-extend":
        m = build_arg(rng)
        for t in gen.topo_tags(m):
            ctx.feature(t)
        ctx.sig(m.signature(), nontrivial=len(m.edges) > 0)
        check_extend(ctx, m, rng)
        for t, how in cutoff_times(rng, m, 2):
            check_split_edges(ctx, m, rng, t, how)
            check_decapitate(ctx, m, rng, t, how)
        check_intervals_op(ctx, m, rng, "keep_intervals")
        check_intervals_op(ctx, m, rng, "delete_intervals")
        return
    m = build(rng)
    for t in gen.topo_tags(m):
        ctx.feature(t)
    if any(e[4] for e in m.edges):
        ctx.feature("edge-metadata")
    if any(g[6] for g in m.migrations):
        ctx.feature("migration-metadata")
    ctx.sig(m.signature(), nontrivial=len(m.edges) > 0)
    if case["k"] < 2:
        ctx.sample({"case": case, "model": m.to_json()})
    thorough = case.get("tier") == "thorough"
    for _ in range(6 if thorough else 3):
        check_intervals_op(ctx, m, rng, "keep_intervals")
        check_intervals_op(ctx, m, rng, "delete_intervals")
    check_bad_intervals(ctx, m, rng)
    for op in ("ltrim", "rtrim", "trim"):
        check_trim(ctx, m, rng, op)
    # a second, trimmed-down variant so that the trims really shift / cut
    if m.edges and rng.random() < 0.7:
        m2 = clipped_variant(rng, m)
        if m2.edges and valid_mutation_times(m2) and loads(m2):
            for op in ("ltrim", "rtrim", "trim"):
                check_trim(ctx, m2, rng, op)
    for _ in range(4 if thorough else 2):
        check_delete_sites(ctx, m, rng)
    for t, how in cutoff_times(rng, m, 12 if thorough else 5):
        check_split_edges(ctx, m, rng, t, how)
        check_decapitate(ctx, m, rng, t, how)
        check_delete_older(ctx, m, rng, t, how)
    check_bad_split_args(ctx, m, rng)
    # audit additions: one object through two in-place operations; tables in arbitrary row order
    for _ in range(2 if thorough else 1):
        check_reused_object(ctx, m, rng)
    check_unsorted(ctx, m, rng)
    # extend_haplotypes: refusal classes on the raw input, then a variant it accepts
    if m.migrations or any(mu[4] is None for mu in m.mutations):
        check_extend(ctx, m, rng)
    m3 = m.copy()
    m3.migrations = []
    m3.mutations = [mu[:4] + (mutation_time(m, k),) + mu[5:] for k, mu in enumerate(m.mutations)]
    m3d = m3.copy()
    ndet = drop_detached_mutations(m3)
    if ndet:
        ctx.count("extend:detached-mutation-inputs")
        check_extend_detached(ctx, m3d)
    if valid_mutation_times(m3) and loads(m3):
        check_extend(ctx, m3, rng)


def check_extend_detached(ctx, mi):
    """Known finding (recorded in known_findings.json): inputs that carry a mutation on a non-sample node which is
    NOT part of the marginal tree at its site.  extend_haplotypes documents 'will not affect the genotype matrix',
    but extending such a node into that tree makes its mutation visible.  Only the genotype clause is checked here, and
    a changed genotype is attributed to this mechanism only when the site carries such a detached mutation."""
    if not (valid_mutation_times(mi) and loads(mi)):
        return
    ts = to_tables(mi).tree_sequence()
    try:
        out = ts.extend_haplotypes()
    except tskit.LibraryError:
        ctx.count("extend:detached-refused")
        return
    mo = from_tables(out.dump_tables())
    detached_sites = set()
    for mu in mi.mutations:
        f = forest(mi, mi.sites[mu[0]][0])
        if f.is_isolated(mu[1]) and not mi.is_sample(mu[1]):
            detached_sites.add(mu[0])
    for j, s in enumerate(mi.sites):
        fi, fo = forest(mi, s[0]), forest(mo, s[0])
        for u in mi.samples():
            ctx.count("extend:genotypes-detached-class")
            a, b = allele_at(mi, fi, j, u), allele_at(mo, fo, j, u)
            if a != b:
                key = ("extend_haplotypes/genotype-changed/mutation-on-node-absent-from-marginal-tree"
                       if j in detached_sites else "extend_haplotypes/genotype-changed")
                ctx.violation(key, f"sample {u} at site {j} (x={s[0]}) has allele {b!r} after extend_haplotypes(), was {a!r}",
                              {"model": mi.to_json()})


def drop_detached_mutations(m):
    """EITHER zone / reported finding: a mutation on a non-sample node that is not part of the marginal tree at
    its site (no parent, no child there) is invisible to every sample; extend_haplotypes may pull exactly such
    a node into that tree (it only inserts nodes absent from it), which makes the mutation visible.  The
    docstring does not exclude such inputs but the operation cannot honour 'genotypes unchanged' on them, so
    they are removed from the workload (counted).
    Witness (L=10): nodes 0 (sample, t=0), 1 (t=2), 2 (t=1); edges [0,5) 2->0, [0,5) 1->2, [5,10) 1->0; site at 7
    'A' with a mutation on node 2 ('T', time 1.5): haplotype of sample 0 is 'A' before and 'T' after
    extend_haplotypes()."""
    keep = []
    for k, mu in enumerate(m.mutations):
        f = forest(m, m.sites[mu[0]][0])
        if f.is_isolated(mu[1]) and not m.is_sample(mu[1]):
            continue
        keep.append(mu)
    n = len(m.mutations) - len(keep)
    if n:
        m.mutations = keep
        par = mutation_parents(m)
        m.mutations = [mu[:3] + (par[k],) + mu[4:] for k, mu in enumerate(m.mutations)]
    return n


def valid_mutation_times(m):
    """Known mutation times must lie between the node and its parent and not exceed the parent mutation's."""
    for k, mu in enumerate(m.mutations):
        if mu[4] is None:
            continue
        x = m.sites[mu[0]][0]
        f = m.forest_at(x)
        if mu[4] < m.time(mu[1]):
            return False
        p = f.get(mu[1])
        if p is not None and mu[4] > m.time(p):
            return False
        if mu[3] != NULL and m.mutations[mu[3]][4] is not None and m.mutations[mu[3]][4] < mu[4]:
            return False
    return True


def loads(m):
    try:
        to_tables(m).tree_sequence()
        return True
    except LIBERR:
        return False
