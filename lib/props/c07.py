"""C07 — sort and repair tools reorder without changing content; result loads.

Oracles (reference semantics live in lib/props/c14.py: ref_sort, ref_dedup_sites, ref_subset; and here:
ref_canonical, ref_mutation_times, ref_squash), all written from docs/data-model.md and the docstrings of
TableCollection.sort / canonicalise / sort_individuals / deduplicate_sites / compute_mutation_parents /
compute_mutation_times and EdgeTable.squash.

EITHER zones:
  E1  edges / migrations with equal sort keys: relative order unspecified -> multiset + key order.
  E2  canonicalise(): order of the individual table (docstring: "sorted by the first node that refers to each";
      implementation: most descendants first).  The statement only claims invariance, so individuals are compared
      as a set with consistent id remapping against the reference and byte-wise between two scrambles.
  E3  canonicalise()/subset() with migrations raise TSK_ERR_MIGRATIONS_NOT_SUPPORTED by design; tables after a
      failed call are unspecified.  Accepted: a LibraryError, or a result that still has every migration row.
  E4  compute_mutation_times: "evenly spread along the edge" fixes the value only up to rounding -> rtol 1e-9.
  E5  negative edge_start / site_start / mutation_start and values beyond ssize_t: any tskit/Python error is
      accepted (must not be silently treated as 0 .. len).  In-range invalid values must raise a LibraryError.
  E6  sort_individuals: only "parents before children" + consistent remapping is documented, not the order.
  E7  compute_mutation_parents / compute_mutation_times on a collection without an index: a LibraryError or the
      right answer (the docstrings only say "must be indexed" for the times).
  E8  EdgeTable.squash with overlapping pieces of one (parent, child): undocumented, never generated.

Widened by the audit (lib/props/AUDIT-C07.md): every argument form of sort() / canonicalise() incl. the low-level
methods (SORT_FORMS, CANON_FORMS), collections that arrived through copy / fromdict / pickle / dump+load /
set_columns (BUILD_FORMS), metadata schemas + top-level metadata / time units / reference sequence / provenance
that every operation must leave alone (dress, check_untouched), five routes from the repaired tables to a
TreeSequence (LOAD_FORMS), start arguments at every boundary (sort_args), 3+ rows per site position, all rows at one
position, 0.0 / -0.0 (run_dedup), one-ulp gaps / 300 pieces / the edge table of a collection (run_squash), large
instances (run_big: >= 256 rows per key group, > 64 KiB ragged columns and single rows, mutation / individual
parent chains deeper than 256), > 2^16 rows (run_huge), empty / one-row tables (run_tiny), cross-operation laws
(canon_cross_checks, sort:partial-then-full).
"""
import bisect
import hashlib
import itertools
import math
import os
import pickle
import tempfile

import numpy as np
import tskit

from lib import gen
from lib.harness import case_rng
from lib.model import NODE_IS_SAMPLE, NULL, RowModel, allele_at, forest, isclose, mutation_parents, sorted_copy
from lib.props.c14 import (_first_diff, _msorted, bad_offsets, compare_individuals, diff_models, edge_key,
                           mask_individuals, msprime_model, read_back, ref_dedup_sites, ref_sort, ref_subset,
                           stale_index)
from lib.tsk import from_tables, tables_bytes, to_tables

ID = "C07"
LIBERR = (tskit.LibraryError,)


def _sig(ctx, case, obj, nontrivial=True):
    """Case signature for the distinct-non-trivial count.  In the thorough tier only every 8th case is recorded
    (the worker rewrites the whole signature set every 50 cases; millions of entries would dominate the run), so
    the reported number is a lower bound there."""
    if case.get("tier") == "thorough" and case.get("idx", 0) % 8:
        return
    ctx.sig(obj, nontrivial=nontrivial)


# =========================================================================== scrambler (DESIGN 3.3 item 3)


def _perm_keep_groups(rng, n, group_of):
    """Random order (list of old ids) in which rows with the same non-None group keep their relative order."""
    order = list(range(n))
    rng.shuffle(order)
    slots = {}
    for pos, old in enumerate(order):
        g = group_of(old)
        if g is not None:
            slots.setdefault(g, []).append(pos)
    for ps in slots.values():
        members = sorted(order[p] for p in ps)
        for p, old in zip(ps, members):
            order[p] = old
    return order


def apply_orders(m, edges=None, sites=None, mutations=None, migrations=None, individuals=None,
                 populations=None):
    """Reorder rows (each argument: list of old row ids in new order) and remap every reference."""
    out = m.copy()
    ident = lambda n: list(range(n))  # noqa: E731
    eo = edges if edges is not None else ident(len(m.edges))
    so = sites if sites is not None else ident(len(m.sites))
    mo = mutations if mutations is not None else ident(len(m.mutations))
    go = migrations if migrations is not None else ident(len(m.migrations))
    io = individuals if individuals is not None else ident(len(m.individuals))
    po = populations if populations is not None else ident(len(m.populations))
    smap = {old: new for new, old in enumerate(so)}
    mmap = {old: new for new, old in enumerate(mo)}
    imap = {old: new for new, old in enumerate(io)}
    pmap = {old: new for new, old in enumerate(po)}
    rm = lambda mp, x: x if x == NULL else mp[x]  # noqa: E731
    out.edges = [m.edges[j] for j in eo]
    out.sites = [m.sites[j] for j in so]
    out.mutations = [(smap[s], u, d, rm(mmap, p), t, md) for s, u, d, p, t, md in (m.mutations[k] for k in mo)]
    out.migrations = [(l, r, u, pmap[a], pmap[b], t, md) for l, r, u, a, b, t, md in (m.migrations[k] for k in go)]
    out.individuals = [(fl, loc, tuple(rm(imap, p) for p in par), md)
                       for fl, loc, par, md in (m.individuals[i] for i in io)]
    out.populations = [m.populations[p] for p in po]
    out.nodes = [(fl, t, rm(pmap, p), rm(imap, i), md) for fl, t, p, i, md in m.nodes]
    return out


def scramble(rng, m, nodes_fixed=True, free_mutations=False, tables=None, p_table=0.85):
    """Row-order scrambler: permutes edges, sites, mutations, migrations, individuals, populations and remaps
    ids consistently; nodes are never moved.  Unless free_mutations, the relative order of the mutations at one
    *position* (and of the site rows sharing that position) is kept, except where all mutations at the position
    have distinct known times: with unknown or tied times the row order is the only record of which mutation
    is older."""
    if tables is None:
        tables = {t for t in ("edges", "sites", "mutations", "migrations", "individuals", "populations")
                  if rng.random() < p_table}
    pos_of_site = [s[0] for s in m.sites]
    at_pos = {}
    for k, mu in enumerate(m.mutations):
        at_pos.setdefault(pos_of_site[mu[0]], []).append(k)
    free_pos = set()
    for pos, ks in at_pos.items():
        ts_ = [m.mutations[k][4] for k in ks]
        if all(t is not None for t in ts_) and len(set(ts_)) == len(ts_):
            free_pos.add(pos)
    nsites_at = {}
    for p in pos_of_site:
        nsites_at[p] = nsites_at.get(p, 0) + 1

    def mgroup(k):
        pos = pos_of_site[m.mutations[k][0]]
        return None if (free_mutations or pos in free_pos) else pos

    def sgroup(j):
        pos = pos_of_site[j]
        if nsites_at[pos] < 2 or free_mutations or pos in free_pos:
            return None
        return pos

    kw = {}
    if "edges" in tables:
        kw["edges"] = _perm_keep_groups(rng, len(m.edges), lambda j: None)
    if "migrations" in tables:
        kw["migrations"] = _perm_keep_groups(rng, len(m.migrations), lambda j: None)
    if "sites" in tables:
        kw["sites"] = _perm_keep_groups(rng, len(m.sites), sgroup)
    if "mutations" in tables:
        kw["mutations"] = _perm_keep_groups(rng, len(m.mutations), mgroup)
    if "individuals" in tables:
        kw["individuals"] = _perm_keep_groups(rng, len(m.individuals), lambda j: None)
    if "populations" in tables:
        kw["populations"] = _perm_keep_groups(rng, len(m.populations), lambda j: None)
    out = apply_orders(m, **kw)
    out.tags = set(m.tags) | {"scrambled:" + t for t in tables}
    return out


def split_sites(rng, m, same_ancestral):
    """Duplicate site positions: some sites become two rows at the same position, the later mutations of the
    site hanging off the second row.  Logically consistent: deduplicate_sites() gives the original back."""
    out = m.copy()
    sites, muts = [], []
    newid = {}
    split_at = {}
    for j, s in enumerate(m.sites):
        newid[j] = len(sites)
        sites.append(s)
        ks = m.site_mutations(j)
        if rng.random() < 0.5:
            cut = rng.randint(0, len(ks))
            split_at[j] = (len(sites), set(ks[cut:]))
            anc = s[1] if same_ancestral else rng.choice(["A", "C", "G", "T", "", "dup"])
            sites.append((s[0], anc, gen.rbytes(rng)))
            out.tags.add("duplicate-site-positions")
    for k, (s, u, d, p, t, md) in enumerate(m.mutations):
        ns = newid[s]
        if s in split_at and k in split_at[s][1]:
            ns = split_at[s][0]
        muts.append((ns, u, d, p, t, md))
    # a parent reference must stay within one site row (tskit's basic integrity rule)
    muts = [(s, u, d, p if (p != NULL and muts[p][0] == s) else NULL, t, md) for s, u, d, p, t, md in muts]
    out.sites, out.mutations = sites, muts
    return out


def multi_split_sites(rng, m, kmax=5, same_ancestral=True, p_split=0.6):
    """Like split_sites, with up to kmax rows per position: the mutations of a site are dealt out to its rows in
    consecutive chunks (some rows get none).  deduplicate_sites() gives the original back."""
    out = m.copy()
    sites, muts = [], [None] * len(m.mutations)
    for j, s in enumerate(m.sites):
        ks = m.site_mutations(j)
        k = rng.randint(2, kmax) if rng.random() < p_split else 1
        cuts = sorted(rng.randint(0, len(ks)) for _ in range(k - 1)) + [len(ks)]
        lo = 0
        for i, hi in enumerate(cuts):
            row = len(sites)
            if i == 0:
                sites.append(s)
            else:
                anc = s[1] if same_ancestral else rng.choice(["A", "C", "G", "T", "", "dup"])
                sites.append((s[0], anc, gen.rbytes(rng)))
            for q in ks[lo:hi]:
                mu = m.mutations[q]
                muts[q] = (row,) + mu[1:]
            lo = hi
        if k > 1:
            out.tags.add("duplicate-site-positions")
        if k > 2:
            out.tags.add("duplicate-site-positions:3+rows")
    muts = [(s, u, d, p if (p != NULL and muts[p][0] == s) else NULL, t, md) for s, u, d, p, t, md in muts]
    out.sites, out.mutations = sites, muts
    return out


def arbitrary_parents(rng, m):
    """Referentially intact but otherwise arbitrary mutation parents: NULL or another mutation of the same site
    row that is not younger (the basic integrity rules every table operation enforces)."""
    muts = []
    for k, (s, u, d, p, t, md) in enumerate(m.mutations):
        cand = [NULL] + [j for j, mu in enumerate(m.mutations)
                         if j != k and mu[0] == s and (t is None or (mu[4] is not None and mu[4] >= t))]
        muts.append((s, u, d, rng.choice(cand), t, md))
    m.mutations = muts
    m.tags.add("arbitrary-mutation-parents")
    return m


# =========================================================================== entry points and argument forms
# (AUDIT-C07.md gaps 1-9).  Every form below is documented to mean the same call; the oracles never depend on
# the form, only the way the real code is reached does.

TABLES7 = ("nodes", "edges", "sites", "mutations", "individuals", "populations", "migrations")
TABLES8 = TABLES7 + ("provenances",)
SSIZE_MIN, SSIZE_MAX = -2 ** 63, 2 ** 63 - 1
ARGERR = (OverflowError, ValueError, TypeError)
SORT_FORMS = ("pos+kw", "all-kw", "kw-reordered", "numpy", "ll-positional", "ll-kw", "defaults")
CANON_FORMS = ("kw", "positional", "none", "omitted", "int", "ll-kw", "ll-positional")
BUILD_FORMS = ("copy", "fromdict", "pickle", "dump-load", "columns")
LOAD_FORMS = ("indexed.tree_sequence", "unindexed.tree_sequence", "load_tables(build_indexes=True)",
              "indexed.load_tables", "rebuilt-index.tree_sequence")
_TMPDIR = "/dev/shm" if os.path.isdir("/dev/shm") else None


def _np_int(rng, v):
    """v as a numpy integer scalar of a random dtype that can hold it (all have __index__)."""
    cands = [np.int64, np.intp]
    if -2 ** 31 <= v < 2 ** 31:
        cands.append(np.int32)
    if -2 ** 15 <= v < 2 ** 15:
        cands.append(np.int16)
    if 0 <= v < 2 ** 32:
        cands.append(np.uint32)
    if 0 <= v < 256:
        cands.append(np.uint8)
    if v >= 0:
        cands.append(np.uint64)
    return rng.choice(cands)(v)


def form_index(case):
    """Cycles the argument forms deterministically: one step per round of KINDS (per case for big / huge)."""
    return case["k"] if case["gen"] in ("big", "huge", "tiny") else case["k"] // len(KINDS)


def call_sort(tc, es, ss, ms, form, rng):
    """TableCollection.sort(edge_start, *, site_start, mutation_start) through one of its argument forms /
    the low-level method it wraps."""
    if form == "numpy" and all(SSIZE_MIN <= v <= SSIZE_MAX for v in (es, ss, ms)):
        return tc.sort(_np_int(rng, es), site_start=_np_int(rng, ss), mutation_start=_np_int(rng, ms))
    if form == "all-kw":
        return tc.sort(edge_start=es, site_start=ss, mutation_start=ms)
    if form == "kw-reordered":
        return tc.sort(mutation_start=ms, edge_start=es, site_start=ss)
    if form == "ll-positional":
        return tc._ll_tables.sort(es, ss, ms)
    if form == "ll-kw":
        return tc._ll_tables.sort(mutation_start=ms, site_start=ss, edge_start=es)
    if form == "defaults":
        kw = {}
        if es != 0:
            kw["edge_start"] = es
        if ss != 0:
            kw["site_start"] = ss
        if ms != 0:
            kw["mutation_start"] = ms
        return tc.sort(**kw)
    return tc.sort(es, site_start=ss, mutation_start=ms)


def call_canonicalise(tc, remove, form):
    if form == "positional":
        return tc.canonicalise(remove)
    if form == "none":
        # None is documented to mean the default (True); only usable for remove=True
        return tc.canonicalise(None) if remove else tc.canonicalise(False)
    if form == "omitted":
        return tc.canonicalise() if remove else tc.canonicalise(remove_unreferenced=False)
    if form == "int":
        return tc.canonicalise(remove_unreferenced=int(remove))
    if form == "ll-kw":
        return tc._ll_tables.canonicalise(remove_unreferenced=remove)
    if form == "ll-positional":
        return tc._ll_tables.canonicalise(remove)
    return tc.canonicalise(remove_unreferenced=remove)


def _schema(name, kind):
    if kind == "json":
        return tskit.MetadataSchema({"codec": "json", "title": f"c07-{name}"})
    return tskit.MetadataSchema({"codec": "struct", "type": "object", "title": f"c07-{name}",
                                 "properties": {"x": {"type": "integer", "binaryFormat": "i"}}})


def dress(rng, tc):
    """Everything a sort / repair call must leave alone: a metadata schema on every table (set after the rows
    exist: nothing in the sorted paths decodes row metadata), top-level metadata + schema, time units, a
    reference sequence and provenance rows."""
    for name in TABLES7:
        r = rng.random()
        if r < 0.55:
            getattr(tc, name).metadata_schema = _schema(name, "json")
        elif r < 0.8:
            getattr(tc, name).metadata_schema = _schema(name, "struct")
    if rng.random() < 0.7:
        tc.metadata_schema = _schema("top", "json")
        tc.metadata = {"c07": ["top", rng.randint(0, 9)]}
    elif rng.random() < 0.5:
        tc.metadata = bytes(rng.choice([0, 1, 97, 255]) for _ in range(rng.randint(1, 5)))
    if rng.random() < 0.6:
        tc.time_units = rng.choice(["generations", "ticks", "c07 units"])
    if rng.random() < 0.6:
        rs = tc.reference_sequence
        rs.data = "ACGT" * rng.randint(0, 4) + "N"
        if rng.random() < 0.5:
            rs.url = "file://c07"
        if rng.random() < 0.5:
            rs.metadata_schema = _schema("refseq", "json")
            rs.metadata = {"c07": "refseq"}
    for k in range(rng.choice([0, 1, 1, 3])):
        tc.provenances.add_row(record='{"c07": %d}' % k, timestamp="2026-01-0%dT00:00:00" % (k + 1))
    return tc


def _no_index(snapshot):
    return [x for x in snapshot if not x[0].startswith("/indexes")]


def materialise(tc, form):
    """The same collection arrived at another way (AUDIT gap 4)."""
    if form == "copy":
        return tc.copy()
    if form == "fromdict":
        return tskit.TableCollection.fromdict(tc.asdict())
    if form == "pickle":
        return pickle.loads(pickle.dumps(tc))
    if form == "dump-load":
        fd, path = tempfile.mkstemp(prefix="c07-", suffix=".trees", dir=_TMPDIR)
        os.close(fd)
        try:
            tc.dump(path)
            return tskit.TableCollection.load(path)
        finally:
            os.unlink(path)
    if form == "columns":
        new = tc.copy()
        for name in TABLES8:
            t = getattr(new, name)
            d = t.asdict()
            d.pop("metadata_schema", None)
            t.clear()
            t.set_columns(**d)
        return new
    raise ValueError(form)


def build_tc(m, brng=None, ctx=None, p_dress=0.5, p_form=0.3, index=False):
    """RowModel -> TableCollection; with brng, dressed (schemas, top-level data) and / or re-materialised through
    another construction path in a fixed share of the cases.  index=True: try build_index() (before the
    re-materialisation, so that copies / files carry the index along)."""
    tc = to_tables(m)
    if brng is not None and brng.random() < p_dress:
        dress(brng, tc)
        ctx.feature("build:dressed")
    if index:
        try:
            tc.build_index()
        except LIBERR:
            pass
    if brng is None:
        return tc
    if brng.random() < p_form:
        form = brng.choice(BUILD_FORMS)
        new = materialise(tc, form)
        if _no_index(tables_bytes(new)) == _no_index(tables_bytes(tc)):
            ctx.feature("build:" + form)
            tc = new
        else:
            # a copy / file round trip that loses data is what C05 / C13 check; not attributed to sort
            ctx.count("build:materialised-copy-differs(ignored)")
    else:
        ctx.feature("build:add_row")
    return tc


def changed_keys(before, after):
    b = {k: (t, v) for k, t, v in before}
    a = {k: (t, v) for k, t, v in after}
    return sorted(k for k in set(a) | set(b) if a.get(k) != b.get(k))


def check_untouched(ctx, key, what, before, after, tables=(), exact=(), detail=None):
    """Only the row columns of `tables` (never a metadata_schema), the columns listed in `exact` and the index
    may differ between two tables_bytes snapshots; a key that disappeared counts as changed."""
    ctx.count("untouched:schemas-toplevel-other-tables")
    bad = []
    for k in changed_keys(before, after):
        parts = k.split("/")
        if k in exact or parts[1] == "indexes":
            continue
        if len(parts) == 3 and parts[1] in tables and parts[2] != "metadata_schema":
            continue
        bad.append(k)
    if bad:
        ctx.violation(key, f"{what} changed {bad[:8]}; it may only reorder / rewrite rows of "
                           f"{sorted(tables) + sorted(exact)}", detail)
    return not bad


# =========================================================================== reference semantics


def ref_mutation_times(m):
    """compute_mutation_times(): single mutation on a branch: mid-point; k on one branch: evenly spread, the
    earlier row older; above a root: the node's time.  m must be sorted; returns the list of times."""
    out = [None] * len(m.mutations)
    for j, s in enumerate(m.sites):
        fr = forest(m, s[0])
        per = {}
        for k in m.site_mutations(j):
            per.setdefault(m.mutations[k][1], []).append(k)
        for u, ks in per.items():
            p = fr.par(u)
            for i, k in enumerate(ks, start=1):
                if p == NULL:
                    out[k] = m.time(u)
                else:
                    pt, nt = m.time(p), m.time(u)
                    out[k] = pt - (pt - nt) * i / (len(ks) + 1)
    return out


def ref_squash(edges):
    """EdgeTable.squash(): adjacent edges (same parent and child, touching) merged; output sorted by
    (parent, child, left, right)."""
    rows = sorted(edges, key=lambda e: (e[2], e[3], e[0], e[1]))
    out = []
    for l, r, p, c, md in rows:
        if out and out[-1][2] == p and out[-1][3] == c and out[-1][1] == l:
            out[-1] = (out[-1][0], r, p, c, md)
        else:
            out.append((l, r, p, c, md))
    return out


def ref_canonical(m, remove_unreferenced=True):
    """canonicalise(): subset on all nodes (populations by first referencing node, unreferenced sites /
    individuals / populations removed unless kept), then sort() with mutations ordered by site, time, number
    of descendant mutations (most first), node, original order.  Individuals: see E2."""
    s = ref_subset(m, list(range(len(m.nodes))), True, remove_unreferenced)
    s = ref_sort(s)  # edges, sites (and mutation.site remap); mutation order redone below
    nm = len(s.mutations)
    ndesc = [0] * nm
    for k in range(nm):
        p = s.mutations[k][3]
        seen = 0
        while p != NULL and seen <= nm:
            ndesc[p] += 1
            p = s.mutations[p][3]
            seen += 1

    def key(k):
        mu = s.mutations[k]
        return (mu[0], -mu[4] if mu[4] is not None else 0.0, -ndesc[k], mu[1], k)

    order = sorted(range(nm), key=key)
    mmap = {old: new for new, old in enumerate(order)}
    s.mutations = [(a, u, d, mmap[p] if p != NULL else NULL, t, md)
                   for a, u, d, p, t, md in (s.mutations[k] for k in order)]
    return s


def individual_cycle(m):
    n = len(m.individuals)
    state = [0] * n
    for start in range(n):
        if state[start]:
            continue
        stack = [(start, iter(m.individuals[start][2]))]
        state[start] = 1
        while stack:
            i, it = stack[-1]
            nxt = next(it, None)
            if nxt is None:
                state[i] = 2
                stack.pop()
            elif nxt != NULL:
                if state[nxt] == 1:
                    return True
                if state[nxt] == 0:
                    state[nxt] = 1
                    stack.append((nxt, iter(m.individuals[nxt][2])))
    return False


# =========================================================================== workload

QUICK_N = 60000
THOROUGH_N = 3000000
KINDS = ["sort"] * 6 + ["repair"] * 5 + ["canon"] * 4 + ["parents"] * 2 + ["dedup", "sortind", "squash"]
EXH_BASES = {"quick": 6, "thorough": 60}
EXH_TABLES = ("edges", "sites", "mutations", "migrations", "individuals", "populations")


BIG_HEAD = {"quick": 35, "thorough": 400}     # large instances at the head of the stream (they always run) ...
BIG_EVERY = {"quick": 600, "thorough": 350}   # ... and one every so many cases afterwards
HUGE_HEAD = {"quick": 3, "thorough": 24}


def cases(tier, seed):
    for k in range(TINY_N):
        yield {"gen": "tiny", "k": k}
    for k in range(HUGE_HEAD[tier]):
        yield {"gen": "huge", "k": k}
    for k in range(BIG_HEAD[tier]):
        yield {"gen": "big", "op": BIG_OPS[k % len(BIG_OPS)], "k": k}
    for b in range(EXH_BASES[tier]):
        for t in EXH_TABLES:
            yield {"gen": "exh", "base": b, "table": t, "rows": 4 if tier == "quick" else 5}
    n = QUICK_N if tier == "quick" else THOROUGH_N
    nb = BIG_HEAD[tier]
    for k in range(n):
        yield {"gen": KINDS[k % len(KINDS)], "k": k}
        if k % BIG_EVERY[tier] == BIG_EVERY[tier] - 1:
            yield {"gen": "big", "op": BIG_OPS[nb % len(BIG_OPS)], "k": nb}
            nb += 1


def base_model(rng, migrations=None, big=None, tier="quick", **kw):
    big = (rng.random() < (0.3 if tier == "thorough" else 0.12)) if big is None else big
    migrations = (rng.random() < 0.4) if migrations is None else migrations
    if rng.random() < 0.05 and not kw:
        m = msprime_model(rng, migrations=migrations)
        if rng.random() < 0.6:
            gen.decorate_meta(rng, m, tables=("nodes", "edges", "sites", "mutations", "individuals", "populations",
                                              "migrations"))
        return m
    m = gen.gen_full(rng, max_nodes=16 if big else 8, max_bp=6 if big else 4, max_sites=8 if big else 5,
                     pops=True if migrations else (rng.random() < 0.6), meta=rng.random() < 0.75,
                     migrations=migrations, **kw)
    if m.migrations and rng.random() < 0.6:
        # ties on the leading migration sort keys, so that source / dest / left / node decide
        tv = [rng.randint(0, 8) / 2 for _ in range(2)]
        pv = [rng.randrange(len(m.populations)) for _ in range(2)]
        migs = list(m.migrations)
        migs += [rng.choice(migs) for _ in range(rng.randint(0, 3))]
        out = []
        for l, r, u, a, b, t, md in migs:
            if rng.random() < 0.5:
                l = rng.randint(0, 7) * m.L / 16
                r = l + rng.randint(1, 8) * m.L / 16
            out.append((l, r, rng.randrange(len(m.nodes)) if rng.random() < 0.5 else u,
                        rng.choice(pv) if rng.random() < 0.7 else a, rng.choice(pv) if rng.random() < 0.5 else b,
                        rng.choice(tv) if rng.random() < 0.8 else t, gen.rbytes(rng) if md else md))
        m.migrations = sorted(out, key=lambda g: g[5])
        m.tags.add("migration-key-ties")
    return m


def run_case(case, ctx):
    fn = {"sort": run_sort, "repair": run_repair, "canon": run_canon, "parents": run_parents,
          "dedup": run_dedup, "sortind": run_sortind, "squash": run_squash, "exh": run_exh, "big": run_big,
          "huge": run_huge, "tiny": run_tiny}[case["gen"]]
    fn(case, ctx)


def feat(ctx, m, *extra):
    for t in m.tags:
        ctx.feature(t)
    for t in extra:
        ctx.feature(t)


# --------------------------------------------------------------------------- sort


def check_sort_call(ctx, m, edge_start, site_start, mutation_start, detail, tag="sort", pre_index=False,
                    brng=None, form="pos+kw", then_full=False):
    """Run tables.sort(...) on model m and compare with ref_sort.  Returns the sorted tables or None.
    brng: dress / re-materialise the collection (build_tc); form: argument form (call_sort); then_full: follow a
    partial sort by a full sort() of the same object and compare that with the full reference sort too."""
    ne, ns, nmu = len(m.edges), len(m.sites), len(m.mutations)
    # pre_index: an index over the not-yet-sorted rows (possible when the edges already meet the weaker validity
    # ordering): it must not survive the sort as a stale cache
    tc = build_tc(m, brng, ctx, index=pre_index)
    pre_index = pre_index and tc.has_index()
    before = tables_bytes(tc)
    frng = brng if brng is not None else case_rng({"c07": "dtype"})
    args = f"sort(edge_start={edge_start}, site_start={site_start}, mutation_start={mutation_start}) [form {form}]"
    skip = (site_start == ns and mutation_start == nmu)
    valid_sm = skip or (site_start == 0 and mutation_start == 0)
    try:
        call_sort(tc, edge_start, site_start, mutation_start, form, frng)
        err = None
    except LIBERR as e:
        err = e
    except ARGERR as e:
        err = e
    if any(not SSIZE_MIN <= v <= SSIZE_MAX for v in (edge_start, site_start, mutation_start)):
        # E5: beyond ssize_t the argument parser refuses (OverflowError); any error is fine, success is not
        ctx.count("sort:start-beyond-ssize_t(either error)")
        if err is None:
            ctx.violation(f"{tag}/invalid-start-accepted", f"{args} returned", detail)
        return None
    if edge_start < 0:
        ctx.count("sort:negative-edge_start(either)")
        if err is None:
            ctx.violation(f"{tag}/negative-edge_start-accepted", f"{args} returned", detail)
        return None
    if site_start < 0 or mutation_start < 0:
        # never 0 and never a length: documented as invalid; which error is raised is left open (E5)
        ctx.count("sort:negative-site/mutation_start(either error)")
        if err is None:
            ctx.violation(f"{tag}/invalid-start-accepted", f"{args} returned", detail)
        return None
    if edge_start > ne or not valid_sm:
        ctx.count("sort:invalid-start-rejected")
        if err is None or not isinstance(err, LIBERR):
            ctx.violation(f"{tag}/invalid-start-accepted",
                          f"{args} on {ne} edges, {ns} sites, {nmu} mutations: "
                          f"{'returned' if err is None else repr(err)}; the documentation allows edge_start <= "
                          f"len(edges) and (site_start, mutation_start) in {{(0, 0), (len, len)}} only", detail)
        return None
    if err is not None:
        ctx.violation(f"{tag}/raised", f"{args} raised {type(err).__name__}: {err}", detail)
        return None
    ctx.count("sort:ref")
    got, bad = read_back(tc)
    if bad:
        which = sorted({f"{t}.{c}" for t, c, _ in bad})
        if edge_start > 0 and which == ["edges.metadata_offset"]:
            key = f"{tag}/edge_start-metadata-offsets"
        else:
            key = f"{tag}/broken-offsets/" + ",".join(which)
        ctx.violation(key, f"{args}: ragged column offsets invalid after the call: "
                           f"{[(t, c, o[:12]) for t, c, o in bad][:2]} (input edges {m.edges[:12]})", detail)
        return None
    exp = ref_sort(m, edge_start=edge_start, skip_sites=skip)
    nomd = lambda mm: _with_edges(mm, [e[:4] + (b"",) for e in mm.edges])  # noqa: E731
    for name, msg in diff_models(got, exp, edge_start=edge_start)[:3]:
        key = f"{tag}/{name}"
        if name == "edges" and edge_start > 0 and not [x for x in diff_models(nomd(got), nomd(exp), edge_start=edge_start)
                                                       if x[0] == "edges"]:
            key = f"{tag}/edge_start-metadata-offsets"  # same rows, metadata attached to the wrong ones
        ctx.violation(key, f"{args} {name}: {msg[:1500]}", detail)
    # nodes, individuals, populations, provenances, every metadata schema, top-level metadata / schema, time
    # units, reference sequence, sequence length: byte-identical
    after = tables_bytes(tc)
    ctx.count("sort:untouched-tables")
    check_untouched(ctx, f"{tag}/untouched-table-changed", args, before, after,
                    tables=("edges", "migrations") + (() if skip else ("sites", "mutations")), detail=detail)
    if pre_index:
        ctx.count("sort:indexed-input")
    if tc.has_index():
        # sort() kept / made an index: it must be the index of the rows as they are now (dropping it is fine too)
        ctx.count("sort:index-after-sort")
        msg = stale_index(tc)
        if msg:
            ctx.violation(f"{tag}/stale-index", f"{args}: {msg}; input edges {m.edges[:12]}", detail)
    # idempotence (through another argument form)
    ctx.count("sort:idempotent")
    form2 = SORT_FORMS[(SORT_FORMS.index(form) + 3) % len(SORT_FORMS)]
    try:
        call_sort(tc, edge_start, ns if skip else 0, nmu if skip else 0, form2, frng)
        again = tables_bytes(tc) if not bad_offsets(tc) else None
    except LIBERR as e:
        again = repr(e)
    if again != after:
        ctx.violation(f"{tag}/not-idempotent", f"{args} applied twice (second time as {form2}) differs from once",
                      detail)
    if then_full and (edge_start > 0 or skip) and again == after:
        # the same object, sorted again from the start: same result as sorting the input in one go
        ctx.count("sort:partial-then-full")
        try:
            tc.sort()
            g2, bad2 = read_back(tc)
        except LIBERR as e:
            ctx.violation(f"{tag}/raised", f"sort() after {args} raised {e}", detail)
            return None
        if bad2:
            ctx.violation(f"{tag}/broken-offsets/after-partial", f"sort() after {args}: {bad2[:2]}", detail)
            return None
        for name, msg in diff_models(g2, ref_sort(m))[:3]:
            ctx.violation(f"{tag}/partial-then-full/{name}", f"sort() after {args}: {name}: {msg[:1500]}", detail)
        return None
    return tc


def _with_edges(m, edges):
    o = m.copy()
    o.edges = edges
    return o


def sort_args(rng, m):
    """Every class of (edge_start, site_start, mutation_start): valid (0, 1, k, len-1, len), just past the end,
    the 31 / 32 / 63 bit boundaries, beyond ssize_t, negative; site / mutation pairs (0, 0), (len, len), each
    documented-invalid mix, off-by-one around the lengths, negative and wide values."""
    ne, ns, nmu = len(m.edges), len(m.sites), len(m.mutations)
    r = rng.random()
    if r < 0.28:
        es = 0
    elif r < 0.40:
        es = min(1, ne)
    elif r < 0.70:
        es = rng.randint(0, ne)
    elif r < 0.76:
        es = max(0, ne - 1)
    elif r < 0.86:
        es = ne
    elif r < 0.94:
        es = rng.choice([ne + 1, ne + 1, ne + 2, ne + 1000, 2 ** 31 - 1, 2 ** 31, 2 ** 32, 2 ** 32 + ne, SSIZE_MAX])
    elif r < 0.96:
        es = rng.choice([SSIZE_MAX + 1, SSIZE_MIN - 1, 2 ** 64])
    else:
        es = -rng.choice([1, 2, 2 ** 31, 2 ** 63])
    r = rng.random()
    if r < 0.55:
        ss, ms = 0, 0
    elif r < 0.82:
        ss, ms = ns, nmu
    else:
        ss, ms = rng.choice([(ns, 0), (0, nmu), (ns - 1, nmu), (ns + 1, nmu), (ns, nmu + 1), (ns, nmu - 1), (1, 1),
                             (ns + 1, nmu + 1), (-1, -1), (-1, 0), (0, -1), (-ns - 1, -nmu - 1),
                             (2 ** 31, 2 ** 31), (ns + 2 ** 32, nmu + 2 ** 32), (2 ** 32, 2 ** 32),
                             (SSIZE_MAX, SSIZE_MAX), (SSIZE_MAX + 1, 0), (ns, SSIZE_MIN - 1),
                             (rng.randint(0, ns + 1), rng.randint(0, nmu + 1)),
                             (rng.randint(0, ns + 1), rng.randint(0, nmu + 1))])
    return es, ss, ms


def start_class(v, n):
    if not SSIZE_MIN <= v <= SSIZE_MAX:
        return "beyond-ssize_t"
    if v < 0:
        return "negative"
    if v == 0:
        return "0"
    if v == n:
        return "len"
    if v < n:
        return "len-1" if v == n - 1 else "k"
    if v <= n + 2:
        return "len+1/2"
    return ">=2^31" if v >= 2 ** 31 - 1 else "len+big"


def run_sort(case, ctx):
    rng = case_rng(case)
    m = base_model(rng, tier=case["tier"])
    if rng.random() < 0.3:
        m = split_sites(rng, m, same_ancestral=False)
    if rng.random() < 0.15:
        # sort() needs referential integrity only: arbitrary (in-range) mutation parents must follow the rows
        arbitrary_parents(rng, m)
    sm = scramble(rng, m, free_mutations=rng.random() < 0.5)
    pre = rng.random() < 0.3
    if rng.random() < 0.12:
        # edges in a *valid* order that is not sort()'s order: parents of equal time in random id order
        rank = {u: rng.random() for u in range(len(sm.nodes))}
        eo = sorted(range(len(sm.edges)), key=lambda j: (sm.nodes[sm.edges[j][2]][1], rank[sm.edges[j][2]],
                                                         sm.edges[j][3], sm.edges[j][0]))
        sm = apply_orders(sm, edges=eo)
        sm.tags.add("edges-valid-but-not-sort-order")
        pre = True
    es, ss, ms = sort_args(rng, sm)
    form = SORT_FORMS[form_index(case) % len(SORT_FORMS)]
    ne, ns, nmu = len(sm.edges), len(sm.sites), len(sm.mutations)
    ec = start_class(es, ne)
    feat(ctx, sm, f"sort:edge_start={ec if ec in ('0', 'len', 'k', 'len-1') else 'invalid'}",
         f"sort:edge_start-class={ec}", f"sort:form={form}",
         f"sort:site/mutation_start={'0,0' if (ss, ms) == (0, 0) else ('len,len' if (ss, ms) == (ns, nmu) else 'mixed')}")
    if (ss, ms) not in ((0, 0), (ns, nmu)):
        ctx.feature(f"sort:site/mutation_start-class={start_class(ss, ns)},{start_class(ms, nmu)}")
    if any(e[4] for e in sm.edges) and 0 < es < ne:
        ctx.feature("sort:edge_start>0+edge-metadata")
    _sig(ctx, case, ("sort", sm.signature(), es, ss, ms), nontrivial=ne + nmu + len(sm.migrations) > 1)
    detail = {"model": sm.to_json(), "edge_start": es, "site_start": ss, "mutation_start": ms, "form": form}
    if case["k"] < 40:
        ctx.sample({"case": case, **detail})
    if pre:
        ctx.feature("sort:index-attempted")
    check_sort_call(ctx, sm, es, ss, ms, detail, pre_index=pre, brng=case_rng(case, "build"), form=form,
                    then_full=rng.random() < 0.35)


# --------------------------------------------------------------------------- repair pipeline


def step(ctx, tc, name, fn, detail, expect_error=False):
    try:
        fn()
    except LIBERR as e:
        ctx.violation(f"repair/{name}-raised", f"{name}() raised on a logically consistent collection: {e}", detail)
        return False
    bad = bad_offsets(tc)
    if bad:
        ctx.violation(f"repair/{name}-broken-offsets", f"{name}(): {bad[:2]}", detail)
        return False
    if name != "build_index":
        msg = stale_index(tc)
        ctx.count("repair:index-consistent")
        if msg:
            ctx.violation(f"repair/{name}-stale-index", f"{name}(): {msg}", detail)
            return False
    return True


def compare_step(ctx, tc, exp, name, detail):
    got = from_tables(tc)
    d = diff_models(got, exp)
    for t, msg in d[:3]:
        ctx.violation(f"repair/{name}/{t}", f"after {name}: {t}: {msg}", detail)
    return not d


def run_repair(case, ctx):
    rng = case_rng(case)
    base = base_model(rng, tier=case["tier"])  # valid tree sequence: the content to be preserved
    unknown = not any(mu[4] is not None for mu in base.mutations)
    r = rng.random()
    if r < 0.42:
        dup = split_sites(rng, base, same_ancestral=not unknown)
    elif r < 0.6:
        dup = multi_split_sites(rng, base, kmax=rng.choice([3, 4, 6]), same_ancestral=not unknown)
    else:
        dup = base.copy()
    pmode = rng.choice(["kept", "null", "arbitrary"])
    nmu = len(dup.mutations)
    if pmode == "null":
        dup.mutations = [(s, u, d, NULL, t, md) for s, u, d, p, t, md in dup.mutations]
    elif pmode == "arbitrary":
        arbitrary_parents(rng, dup)
    scr = scramble(rng, dup)
    with_times = rng.random() < 0.35
    feat(ctx, scr, f"repair:parents-{pmode}", f"repair:times={'unknown' if unknown else 'known'}",
         "repair:compute_mutation_times" if with_times else "repair:no-compute_mutation_times")
    _sig(ctx, case, ("repair", scr.signature(), with_times), nontrivial=len(base.edges) > 0 and (len(base.mutations) > 0 or
                                                                                         len(base.edges) > 2))
    detail = {"scrambled": scr.to_json(), "base": base.to_json(), "with_times": with_times}
    if case["k"] < 40:
        ctx.sample({"case": case, "scrambled": scr.to_json()})
    check_repair(ctx, case, rng, base, scr, with_times, detail)


def check_repair(ctx, case, rng, base, scr, with_times, detail, big=False):
    """The documented repair pipeline on the scrambled collection scr; the result must load and encode the trees
    and genotypes of base."""
    tc = build_tc(scr, case_rng(case, "build"), ctx)
    start_bytes = tables_bytes(tc)
    sform = SORT_FORMS[form_index(case) % len(SORT_FORMS)]
    lform = LOAD_FORMS[form_index(case) % len(LOAD_FORMS)]
    ctx.feature(f"repair:first-sort-form={sform}")
    ctx.feature(f"repair:load-form={lform}")
    detail["sort_form"], detail["load_form"] = sform, lform
    ref = scr
    # 1 sort
    if not step(ctx, tc, "sort", lambda: call_sort(tc, 0, 0, 0, sform, rng), detail):
        return
    ref = ref_sort(ref)
    ok = compare_step(ctx, tc, ref, "sort", detail)
    # 2 deduplicate_sites
    if not step(ctx, tc, "deduplicate_sites", tc.deduplicate_sites, detail):
        return
    ref = ref_dedup_sites(ref)
    ctx.count("repair:deduplicate_sites")
    ok = compare_step(ctx, tc, ref, "deduplicate_sites", detail) and ok
    # 3 sort again (deduplicate_sites warns that mutations may no longer be sorted by time)
    if not step(ctx, tc, "sort", tc.sort, detail):
        return
    ref = ref_sort(ref)
    # 4 index + parents
    if not step(ctx, tc, "build_index", tc.build_index, detail):
        return
    if not tc.has_index():
        ctx.violation("repair/build_index-no-index", "has_index() is False after build_index()", detail)
    if not step(ctx, tc, "compute_mutation_parents", tc.compute_mutation_parents, detail):
        return
    par = mutation_parents(ref)
    ref.mutations = [(s, u, d, par[k], t, md) for k, (s, u, d, _, t, md) in enumerate(ref.mutations)]
    ctx.count("repair:compute_mutation_parents")
    ok = compare_step(ctx, tc, ref, "compute_mutation_parents", detail) and ok
    # 5 optional times
    if with_times:
        rows_before = [(mu[0], mu[1], mu[2], mu[5]) for mu in from_tables(tc).mutations]
        if not step(ctx, tc, "compute_mutation_times", tc.compute_mutation_times, detail):
            return
        ctx.count("repair:compute_mutation_times")
        if rows_before != [(mu[0], mu[1], mu[2], mu[5]) for mu in from_tables(tc).mutations]:
            ctx.feature("repair:compute_mutation_times-resorted-the-rows")
        want = ref_mutation_times(ref)
        got = from_tables(tc)
        # the call may have re-sorted the rows: match them through (site, node, derived, metadata, rank on branch)
        if len(got.mutations) != len(ref.mutations):
            ctx.violation("repair/compute_mutation_times/rows", "row count changed", detail)
            return
        wt = _msorted([(mu[0], mu[1], mu[2], mu[5], round_key(want[k])) for k, mu in enumerate(ref.mutations)])
        gt = _msorted([(mu[0], mu[1], mu[2], mu[5], round_key(mu[4])) for mu in got.mutations])
        if not times_match(wt, gt):
            ctx.violation("repair/compute_mutation_times/values",
                          "times differ from 'evenly spread between node and parent node, node time above a root': "
                          + _first_diff(gt, wt), detail)
            ok = False
        else:
            # adopt the observed values (rounding, E4) and the documented re-sort
            ref = adopt_times(ref, want, got)
            ref = ref_sort(ref)
            ok = compare_step(ctx, tc, ref, "compute_mutation_times", detail) and ok
    # 6 final sort, load
    if not step(ctx, tc, "sort", tc.sort, detail):
        return
    ref = ref_sort(ref)
    ok = compare_step(ctx, tc, ref, "final-sort", detail) and ok
    if not step(ctx, tc, "build_index", tc.build_index, detail):
        return
    # the whole pipeline reorders / rewrites edge, migration, site and mutation rows and nothing else
    check_untouched(ctx, "repair/untouched-table-changed", "the repair pipeline", start_bytes, tables_bytes(tc),
                    tables=("edges", "migrations", "sites", "mutations"), detail=detail)
    ctx.count("repair:loads")
    ts = load_as(ctx, tc, lform, detail)
    if ts is None:
        return
    check_same_content(ctx, ts, base, detail, big=big)


def load_as(ctx, tc, form, detail):
    """The documented ways from an indexed / not yet indexed, sorted collection to a TreeSequence."""
    ctx.count("repair:load-forms")
    try:
        if form == "unindexed.tree_sequence":
            tc.drop_index()
            if tc.has_index():
                ctx.violation("repair/drop_index-kept-index", "has_index() is True after drop_index()", detail)
            ts = tc.tree_sequence()
            if not tc.has_index():
                ctx.violation("repair/tree_sequence-built-no-index",
                              "tree_sequence() on an unindexed collection is documented to build the index; "
                              "has_index() is False afterwards", detail)
            elif stale_index(tc):
                ctx.violation("repair/tree_sequence-stale-index", stale_index(tc), detail)
            return ts
        if form == "load_tables(build_indexes=True)":
            tc.drop_index()
            return tskit.TreeSequence.load_tables(tc, build_indexes=True)
        if form == "indexed.load_tables":
            return tskit.TreeSequence.load_tables(tc)
        if form == "rebuilt-index.tree_sequence":
            tc.build_index()  # "any existing index is dropped"
            msg = stale_index(tc)
            if msg or not tc.has_index():
                ctx.violation("repair/build_index-twice", f"build_index() on an indexed collection: {msg}", detail)
            return tc.tree_sequence()
        return tc.tree_sequence()
    except LIBERR as e:
        ctx.violation("repair/result-does-not-load", f"repaired collection rejected ({form}): {e}", detail)
        return None


def round_key(t):
    return None if t is None else float(t)


def times_match(want, got):
    if len(want) != len(got):
        return False
    for w, g in zip(want, got):
        if w[:4] != g[:4]:
            return False
        if (w[4] is None) != (g[4] is None):
            return False
        if w[4] is not None and not isclose(w[4], g[4]):
            return False
    return True


def adopt_times(ref, want, got):
    """Replace each reference time by the observed value it was matched with (same site/node/state/metadata,
    nearest value)."""
    pool = {}
    for mu in got.mutations:
        pool.setdefault((mu[0], mu[1], mu[2], mu[5]), []).append(mu[4])
    out = ref.copy()
    muts = []
    for k, (s, u, d, p, t, md) in enumerate(ref.mutations):
        cand = pool[(s, u, d, md)]
        j = min(range(len(cand)), key=lambda i: abs(cand[i] - want[k]))
        muts.append((s, u, d, p, cand.pop(j), md))
    out.mutations = muts
    return out


def alleles_at_site(base, j, nodes):
    """allele_at() for many nodes of one site with the per-site work done once (same definition: the derived
    state of the last listed mutation on the nearest node at or above, else the ancestral state)."""
    par = base.forest_at(base.sites[j][0])
    by_node = {}
    for k in base.site_mutations(j):
        by_node[base.mutations[k][1]] = k
    out = []
    for u in nodes:
        while u not in by_node and u in par:
            u = par[u]
        out.append(base.mutations[by_node[u]][2] if u in by_node else base.sites[j][1])
    return out


def check_same_content(ctx, ts, base, detail, big=False):
    """The loaded tree sequence encodes the trees and genotypes of the original (unscrambled) collection."""
    bps = base.breakpoints()
    ctx.count("repair:trees")
    got_bps = list(ts.breakpoints())
    if got_bps != bps:
        ctx.violation("repair/content-breakpoints", f"breakpoints {got_bps} expected {bps}", detail)
        return
    for tree in ts.trees():
        x = (tree.interval.left + tree.interval.right) / 2
        want = base.forest_at(x)
        got = {int(c): int(p) for c, p in tree.parent_dict.items()}
        if got != want:
            ctx.violation("repair/content-trees", f"tree at {x}: parents {got} expected {want}", detail)
            return
    for tree in reversed(ts.trees()):
        x = (tree.interval.left + tree.interval.right) / 2
        want = base.forest_at(x)
        got = {int(c): int(p) for c, p in tree.parent_dict.items()}
        if got != want:
            ctx.violation("repair/content-trees", f"tree at {x} (reverse iteration): parents {got} expected {want}",
                          detail)
            return
    n = len(base.nodes)
    if ts.num_sites != len(base.sites):
        ctx.violation("repair/content-sites", f"{ts.num_sites} sites, original has {len(base.sites)}", detail)
        return
    if n == 0:
        return
    for v in ts.variants(samples=list(range(n)), isolated_as_missing=False):
        j = v.site.id
        ctx.count("repair:genotypes")
        if v.site.position != base.sites[j][0]:
            ctx.violation("repair/content-sites", f"site {j} at {v.site.position} expected {base.sites[j][0]}", detail)
            return
        got = [v.alleles[g] for g in v.genotypes]
        if big:
            want = alleles_at_site(base, j, range(n))
        else:
            fr = forest(base, base.sites[j][0])
            want = [allele_at(base, fr, j, u) for u in range(n)]
        if got != want:
            ctx.violation("repair/content-genotypes", f"site {j} (position {v.site.position}): alleles per node {got} "
                                                      f"expected {want}", detail)
            return


# --------------------------------------------------------------------------- canonicalise


def run_canon(case, ctx):
    rng = case_rng(case)
    with_migs = rng.random() < 0.08
    m = base_model(rng, migrations=with_migs, tier=case["tier"])
    remove = rng.random() < 0.7
    if remove:
        tabs = None
    else:
        # unreferenced individuals / populations are documented to keep "their original order": both copies get
        # the same individual and population order, every other table is permuted independently
        tabs = {t for t in ("edges", "sites", "mutations", "migrations") if rng.random() < 0.85}
        m = scramble(rng, m, tables={"individuals", "populations"})
    s1 = scramble(rng, m, free_mutations=True, tables=tabs)
    s2 = scramble(rng, m, free_mutations=True, tables=tabs)
    feat(ctx, m, f"canon:remove_unreferenced={int(remove)}", "canon:migrations" if m.migrations else "canon:no-migrations")
    _sig(ctx, case, ("canon", s1.signature(), s2.signature(), remove),
            nontrivial=(not m.migrations) and len(m.edges) > 1 and s1.signature() != s2.signature())
    detail = {"scramble1": s1.to_json(), "scramble2": s2.to_json(), "remove_unreferenced": remove}
    if case["k"] < 40:
        ctx.sample({"case": case, "scramble1": s1.to_json()})
    check_canon(ctx, case, rng, m, s1, s2, remove, detail)


def check_canon(ctx, case, rng, m, s1, s2, remove, detail):
    """canonicalise() of two row-permuted copies s1, s2 of m: identical, equal to the reference canonical form,
    idempotent, consistent with sort()."""
    outs = []
    cform = CANON_FORMS[form_index(case) % len(CANON_FORMS)]
    ctx.feature(f"canon:form={cform}")
    detail["form"] = cform
    befores = []
    for s in (s1, s2):
        # the same dressing / construction path for both copies (same rng stream): they differ by row order only
        tc = build_tc(s, case_rng(case, "build"), ctx, index=True)
        befores.append(tables_bytes(tc))
        try:
            call_canonicalise(tc, remove, cform)
            outs.append(tc)
        except LIBERR as e:
            outs.append(e)
    if m.migrations:
        ctx.count("canon:migrations(either)")  # E3
        for o in outs:
            if not isinstance(o, LIBERR) and o.migrations.num_rows != len(m.migrations):
                ctx.violation("canonicalise/migrations-lost", f"canonicalise() returned with {o.migrations.num_rows} "
                                                              f"of {len(m.migrations)} migrations", detail)
        return
    for o in outs:
        if isinstance(o, LIBERR):
            ctx.violation("canonicalise/raised", f"canonicalise(remove_unreferenced={remove}) raised {o}", detail)
            return
        bad = bad_offsets(o)
        if bad:
            ctx.violation("canonicalise/broken-offsets", f"{bad[:2]}", detail)
            return
    for o, bb in zip(outs, befores):
        check_untouched(ctx, "canonicalise/untouched-table-changed", f"canonicalise(remove_unreferenced={remove})",
                        bb, tables_bytes(o), tables=("edges", "sites", "mutations", "individuals", "populations",
                                                     "migrations"),
                        exact=("/nodes/individual", "/nodes/population"), detail=detail)
        if o.has_index():
            ctx.count("canon:index-after-canonicalise")
            msg = stale_index(o)
            if msg:
                ctx.violation("canonicalise/stale-index", msg, detail)
    ctx.count("canon:two-scrambles-identical")
    b1, b2 = _no_index(tables_bytes(outs[0])), _no_index(tables_bytes(outs[1]))
    if b1 != b2:
        cols = [k1 for (k1, _, v1), (k2, _, v2) in zip(b1, b2) if v1 != v2]
        g1, g2 = from_tables(outs[0]), from_tables(outs[1])
        d = diff_models(g1, g2)
        ctx.violation("canonicalise/order-dependent",
                      f"canonicalise(remove_unreferenced={remove}) of two row-permuted copies differs in columns "
                      f"{cols[:6]}: {d[:2]}", detail)
    # against the reference canonical form
    ctx.count("canon:ref")
    for s, o in ((s1, outs[0]), (s2, outs[1])):
        got = from_tables(o)
        exp = ref_canonical(s, remove)
        d = diff_models(mask_individuals(got), mask_individuals(exp))
        d += [("individuals", x) for x in compare_individuals(got, s, list(range(len(s.nodes))), remove)]
        for name, msg in d[:3]:
            ctx.violation(f"canonicalise/{name}", f"canonicalise(remove_unreferenced={remove}) {name}: {msg}", detail)
        if d:
            break
    # individuals end up parents-first? (documented for sort_individuals only; not asserted)  idempotence:
    ctx.count("canon:idempotent")
    cform2 = CANON_FORMS[(CANON_FORMS.index(cform) + 3) % len(CANON_FORMS)]
    try:
        call_canonicalise(outs[0], remove, cform2)
        if _no_index(tables_bytes(outs[0])) != b1:
            ctx.violation("canonicalise/not-idempotent", f"canonicalise twice (second time as {cform2}) differs from "
                                                         "once", detail)
    except LIBERR as e:
        ctx.violation("canonicalise/raised", f"second canonicalise raised {e}", detail)
        return
    canon_cross_checks(ctx, case, rng, s2, outs[0], b1, remove, detail)


def unique_edge_and_migration_keys(m):
    ek = [edge_key(m)(e) for e in m.edges]
    gk = [(g[5], g[3], g[4], g[0], g[2]) for g in m.migrations]
    return len(set(ek)) == len(ek) and len(set(gk)) == len(gk)


def canon_cross_checks(ctx, case, rng, s2, canon_tc, canon_bytes, remove, detail):
    """Two operations on one object / two routes to one result (AUDIT gap 12):
    (1) sort() of a canonical collection changes nothing: the canonical order refines every key order of sort()
        (sites and mutations are sorted stably, so rows that sort() considers tied stay put);
    (2) canonicalise(sort(x)) == canonicalise(x): sort() is a row permutation of the non-node tables that keeps
        the relative order of the mutations canonicalise() itself does not order.
    Edges with equal (time, parent, child, left) are ordered arbitrarily by both (E1), so collections with such
    ties are skipped."""
    if not unique_edge_and_migration_keys(s2):
        ctx.count("canon:cross-checks-skipped(tied edge keys)")
        return
    r = rng.random()
    if r < 0.4:
        ctx.count("canon:sort-after-canonicalise-is-noop")
        try:
            canon_tc.sort()
        except LIBERR as e:
            ctx.violation("canonicalise/then-sort-raised", f"sort() of a canonical collection raised {e}", detail)
            return
        if _no_index(tables_bytes(canon_tc)) != canon_bytes:
            cols = changed_keys(canon_bytes, _no_index(tables_bytes(canon_tc)))
            ctx.violation("canonicalise/then-sort-changes", f"sort() of a canonical collection changed {cols[:6]}: the "
                                                            "canonical order is documented as stricter than sort()'s",
                          detail)
    elif r < 0.8:
        ctx.count("canon:canonicalise-after-sort-same")
        tc = build_tc(s2, case_rng(case, "build"), ctx, index=False)
        try:
            tc.sort()
            tc.canonicalise(remove_unreferenced=remove)
        except LIBERR as e:
            ctx.violation("canonicalise/after-sort-raised", f"sort() then canonicalise() raised {e}", detail)
            return
        if _no_index(tables_bytes(tc)) != canon_bytes:
            cols = changed_keys(canon_bytes, _no_index(tables_bytes(tc)))
            ctx.violation("canonicalise/order-dependent", f"canonicalise() after sort() differs from canonicalise() of "
                                                          f"the unsorted rows in {cols[:6]}", detail)


# --------------------------------------------------------------------------- compute_mutation_parents


def true_parents(model):
    """Nearest mutation above at the site, independent of the order in which mutations on DIFFERENT nodes are listed
    (mutations on one node: earlier rows are older).  lib.model.mutation_parents only looks at earlier rows, which is the
    same thing for correctly ordered tables but not for a child listed before its parent."""
    out = [NULL] * len(model.mutations)
    for j, st in enumerate(model.sites):
        fr = forest(model, st[0])
        by_node = {}
        for k in model.site_mutations(j):
            by_node.setdefault(model.mutations[k][1], []).append(k)
        for u, lst in by_node.items():
            for a, b in zip(lst, lst[1:]):
                out[b] = a
            v = u
            while v in fr.parent:
                v = fr.parent[v]
                if v in by_node:
                    out[lst[0]] = by_node[v][-1]
                    break
    return out


def run_parents(case, ctx):
    rng = case_rng(case)
    m = gen.gen_topology(rng, max_nodes=10, max_bp=4)
    gen.decorate_sites(rng, m, max_sites=5, max_muts=rng.choice([4, 6, 9]))
    if rng.random() < 0.5:
        gen.decorate_meta(rng, m)
    want = [mu[3] for mu in m.mutations]
    nmu = len(m.mutations)
    mode = rng.choice(["null", "arbitrary", "kept", "swap", "swap-first-two"])
    w = m.copy()
    swapped = None
    if mode == "swap-first-two":
        # the FIRST listed mutation of a site is a child of the second one and everything else is in order: the site's
        # first row is where an implementation is most tempted to assume "no parent"
        firsts = {}
        for k, mu in enumerate(m.mutations):
            firsts.setdefault(mu[0], k)
        cand = [j for j in firsts.values() if j + 1 < len(m.mutations) and m.mutations[j + 1][0] == m.mutations[j][0]
                and m.mutations[j + 1][3] == j and m.mutations[j + 1][1] != m.mutations[j][1]
                and m.mutations[j + 1][4] == m.mutations[j][4]]
        if not cand:
            # make one: a site on some edge, one mutation above the parent end and one above the child end (unknown times)
            es = [e for e in m.edges if e[1] > e[0]]
            used = {st[0] for st in m.sites}
            place = None
            for l, r, pn, cn, _ in rng.sample(es, len(es)):
                xs = [x for x in (l, (l + r) / 2, (3 * l + r) / 4) if l <= x < r and x not in used]
                if xs:
                    place = (rng.choice(xs), pn, cn)
                    break
            if place is None:
                mode = "null"
            else:
                x, pn, cn = place
                m2 = m.copy()
                sid = len(m2.sites)
                k0 = len(m2.mutations)
                m2.sites = list(m2.sites) + [(x, "A", b"")]
                m2.mutations = list(m2.mutations) + [(sid, pn, "C", NULL, None, b""), (sid, cn, "G", k0, None, b"")]
                m = sorted_copy(m2)
                want = [mu[3] for mu in m.mutations]
                nmu = len(m.mutations)
                w = m.copy()
                firsts = {}
                for k, mu in enumerate(m.mutations):
                    firsts.setdefault(mu[0], k)
                cand = [j for j in firsts.values() if j + 1 < len(m.mutations) and m.mutations[j + 1][0] == m.mutations[j][0]
                        and m.mutations[j + 1][3] == j and m.mutations[j + 1][1] != m.mutations[j][1]
                        and m.mutations[j + 1][4] == m.mutations[j][4]]
        if cand:
            pj = rng.choice(cand)
            rows = list(w.mutations)
            rows[pj], rows[pj + 1] = rows[pj + 1], rows[pj]
            w.mutations = [(s_, u, d, NULL, t, md) for s_, u, d, _, t, md in rows]
            swapped = (pj, pj + 1)
        elif mode == "swap-first-two":
            mode = "null"
    if mode == "swap":
        # a mutation listed before the mutation above it on a *different* node: must be refused
        pairs = [(k, mu[3]) for k, mu in enumerate(m.mutations) if mu[3] != NULL and m.mutations[mu[3]][1] != mu[1]
                 and m.mutations[mu[3]][4] == mu[4]]
        if not pairs:
            mode = "null"
        else:
            c, p = rng.choice(pairs)
            rows = list(w.mutations)
            rows[c], rows[p] = rows[p], rows[c]
            w.mutations = [(s, u, d, NULL, t, md) for s, u, d, _, t, md in rows]
            swapped = (p, c)
    if mode == "null":
        w.mutations = [(s, u, d, NULL, t, md) for s, u, d, p, t, md in w.mutations]
    elif mode == "arbitrary":
        arbitrary_parents(rng, w)
    feat(ctx, m, f"parents:{mode}")
    multi = sum(1 for x in want if x != NULL)
    _sig(ctx, case, ("parents", w.signature()), nontrivial=multi > 0)
    detail = {"model": w.to_json(), "mode": mode}
    if case["k"] < 40:
        ctx.sample({"case": case, "model": w.to_json()})
    tc = build_tc(w, case_rng(case, "build"), ctx, index=True)
    if not tc.has_index():
        tc.build_index()
    unindexed = mode not in ("swap", "swap-first-two") and rng.random() < 0.08
    if unindexed:
        # E7: neither docstring says what happens without an index ("must be ... indexed" for the times): a
        # LibraryError, or the right answer
        tc.drop_index()
        which = rng.choice(["compute_mutation_parents", "compute_mutation_times"])
        ctx.count("parents:unindexed(either error or right)")
        ctx.feature(f"parents:unindexed:{which}")
        try:
            getattr(tc, which)()
        except LIBERR:
            return
        got = from_tables(tc)
        if which == "compute_mutation_parents" and [mu[3] for mu in got.mutations] != want:
            ctx.violation("compute_mutation_parents/wrong-parent", f"without an index: parents "
                          f"{[mu[3] for mu in got.mutations]} expected {want}", detail)
        return
    before = tables_bytes(tc)
    try:
        tc.compute_mutation_parents()
        err = None
    except LIBERR as e:
        err = e
    if mode in ("swap", "swap-first-two"):
        ctx.count("parents:child-before-parent-rejected")
        if mode == "swap-first-two":
            ctx.count("parents:first-row-of-site-is-a-child")
        # only decidable when the swapped order is not itself a valid one (several mutations on unrelated
        # branches): the reference parents of the swapped rows must then point forward
        if err is None:
            got = from_tables(tc)
            fwd = [k for k, mu in enumerate(got.mutations) if mu[3] > k]
            # returning without an error is only right if every mutation got the nearest mutation above it (which for the
            # swapped rows is a LATER row, so a correct implementation has to refuse)
            refp = true_parents(w)
            if [mu[3] for mu in got.mutations] != refp or fwd:
                ctx.violation("compute_mutation_parents/child-before-parent-accepted",
                              f"mutation rows {swapped} swapped (child listed before the mutation above it on another "
                              f"node); no error, parents {[mu[3] for mu in got.mutations]}", detail)
        return
    if err is not None:
        ctx.violation("compute_mutation_parents/raised", f"raised on a valid sorted collection: {err}", detail)
        return
    ctx.count("parents:ref")
    got = from_tables(tc)
    gp = [mu[3] for mu in got.mutations]
    if gp != want:
        ctx.violation("compute_mutation_parents/wrong-parent",
                      f"parents {gp} expected {want} (nearest mutation above at the site); mutations "
                      f"{[(mu[0], mu[1]) for mu in m.mutations]}", detail)
    after = tables_bytes(tc)
    diff = [k for k in changed_keys(before, after) if k != "/mutations/parent"]
    if diff:
        ctx.violation("compute_mutation_parents/other-columns-changed", f"changed {diff}", detail)
    if tc.has_index() and stale_index(tc):
        ctx.violation("compute_mutation_parents/stale-index", stale_index(tc), detail)


# --------------------------------------------------------------------------- deduplicate_sites


def run_dedup(case, ctx):
    rng = case_rng(case)
    base = base_model(rng, migrations=False, tier=case["tier"])
    mode = rng.choice(["pair"] * 4 + ["k-fold"] * 3 + ["all-same-position", "zero-and-negative-zero", "no-duplicates"])
    if mode == "pair":
        m = split_sites(rng, base, same_ancestral=False)
    elif mode == "k-fold":
        m = multi_split_sites(rng, base, kmax=rng.choice([3, 5, 9]), same_ancestral=False)
    elif mode == "all-same-position" and base.sites:
        # every row is a duplicate of the first (only referential integrity is needed here)
        m = base.copy()
        p0 = rng.choice([base.sites[0][0], 0.0, base.sites[-1][0]])
        m.sites = [(p0, a, md) for _, a, md in base.sites]
        m.mutations = [(s_, u, d, NULL, t, md) for s_, u, d, p, t, md in base.mutations]
    elif mode == "zero-and-negative-zero" and base.sites:
        # 0.0 and -0.0 are the same position; the first row stays
        m = base.copy()
        first = rng.choice([0.0, -0.0])
        rest = [s_ for s_ in base.sites if s_[0] != 0.0]
        shift = 2 - (len(base.sites) - len(rest))
        m.sites = [(first, "A", gen.rbytes(rng)), (-first, "C", gen.rbytes(rng))] + rest
        m.mutations = [(s_ + shift if base.sites[s_][0] != 0.0 else rng.randrange(2), u, d, NULL, t, md)
                       for s_, u, d, p, t, md in base.mutations]
        m.mutations.sort(key=lambda mu: mu[0])
    else:
        mode = "no-duplicates" if mode != "pair" else mode
        m = base.copy()
    ctx.feature(f"dedup:mode={mode}")
    unsorted = rng.random() < 0.25 and len({s[0] for s in m.sites}) > 1
    if unsorted:
        m = scramble(rng, m, tables={"sites"})
        pos = [s[0] for s in m.sites]
        if pos == sorted(pos):
            unsorted = False
    feat(ctx, m, "dedup:unsorted" if unsorted else "dedup:sorted")
    _sig(ctx, case, ("dedup", m.signature()), nontrivial=len(m.sites) > len({s[0] for s in m.sites}))
    detail = {"model": m.to_json()}
    check_dedup(ctx, case, m, unsorted, detail)


def check_dedup(ctx, case, m, unsorted, detail):
    tc = build_tc(m, case_rng(case, "build"), ctx, index=True)
    before = tables_bytes(tc)
    try:
        tc.deduplicate_sites()
        err = None
    except LIBERR as e:
        err = e
    if unsorted:
        ctx.count("dedup:unsorted-rejected")
        if err is None:
            ctx.violation("deduplicate_sites/unsorted-accepted",
                          f"site positions {[s[0] for s in m.sites]} are not sorted but deduplicate_sites() returned",
                          detail)
        return
    if err is not None:
        ctx.violation("deduplicate_sites/raised", f"raised {err}", detail)
        return
    ctx.count("dedup:ref")
    got, bad = read_back(tc)
    if bad:
        ctx.violation("deduplicate_sites/broken-offsets", f"{bad[:2]}", detail)
        return
    exp = ref_dedup_sites(m)
    for name in ("sites", "mutations"):
        if getattr(got, name) != getattr(exp, name):
            ctx.violation(f"deduplicate_sites/{name}", f"{name}: " + _first_diff(getattr(got, name), getattr(exp, name))
                          + f" (input sites {m.sites})", detail)
    check_untouched(ctx, "deduplicate_sites/other-columns-changed", "deduplicate_sites()", before, tables_bytes(tc),
                    tables=("sites",), exact=("/mutations/site",), detail=detail)
    if tc.has_index() and stale_index(tc):
        ctx.violation("deduplicate_sites/stale-index", stale_index(tc), detail)
    # a second call finds nothing to remove (not decidable when merging rows put known and unknown mutation times
    # on one site: every table operation refuses such a collection)
    kinds = {}
    for mu in exp.mutations:
        kinds.setdefault(mu[0], set()).add(mu[4] is None)
    if any(len(v) > 1 for v in kinds.values()):
        return
    ctx.count("dedup:idempotent")
    once = tables_bytes(tc)
    try:
        tc.deduplicate_sites()
    except LIBERR as e:
        ctx.violation("deduplicate_sites/raised", f"second call raised {e}", detail)
        return
    if tables_bytes(tc) != once:
        ctx.violation("deduplicate_sites/not-idempotent", f"second call changed {changed_keys(once, tables_bytes(tc))}",
                      detail)


# --------------------------------------------------------------------------- sort_individuals


def run_sortind(case, ctx):
    rng = case_rng(case)
    m = gen.gen_topology(rng, max_nodes=8, max_bp=2)
    nind = rng.randint(0, 7)
    gen.decorate_pops_inds(rng, m, npop=rng.randint(0, 2), nind=nind, ordered_parents=rng.random() < 0.3)
    if rng.random() < 0.7:
        gen.decorate_meta(rng, m, tables=("nodes", "individuals", "populations"))
    if nind and rng.random() < 0.3:
        # up to four parents, the same parent listed twice, NULL between parents
        acyclic = rng.random() < 0.7
        inds = []
        for i, (fl, loc, par, md) in enumerate(m.individuals):
            pool = [NULL] + (list(range(i)) if acyclic else list(range(nind)))
            par = tuple(rng.choice(pool) for _ in range(rng.choice([0, 1, 2, 3, 4])))
            if len(par) >= 2 and rng.random() < 0.3:
                par = (par[-1],) * len(par)
            inds.append((fl, loc, par, md))
        m.individuals = inds
        m.tags.add("sortind:many-parents")
    m = scramble(rng, m, tables={"individuals"})
    selfp = any(i in par for i, (_, _, par, _) in enumerate(m.individuals))
    cyc = individual_cycle(m)
    feat(ctx, m, "sortind:cycle" if cyc else "sortind:acyclic")
    _sig(ctx, case, ("sortind", m.signature()), nontrivial=len(m.individuals) > 1)
    detail = {"model": m.to_json()}
    check_sort_individuals(ctx, case, m, cyc or selfp, detail)


def check_sort_individuals(ctx, case, m, cyclic, detail):
    tc = build_tc(m, case_rng(case, "build"), ctx, index=True)
    before = tables_bytes(tc)
    try:
        tc.sort_individuals()
        err = None
    except LIBERR as e:
        err = e
    if cyclic:
        ctx.count("sortind:cycle-rejected")
        if err is None:
            ctx.violation("sort_individuals/cycle-accepted", f"individual parents {[i[2] for i in m.individuals]} contain "
                                                             f"a cycle but sort_individuals() returned", detail)
        return
    if err is not None:
        ctx.violation("sort_individuals/raised", f"raised {err}", detail)
        return
    ctx.count("sortind:ref")
    got, bad = read_back(tc)
    if bad:
        ctx.violation("sort_individuals/broken-offsets", f"{bad[:2]}", detail)
        return
    for i, (_, _, par, _) in enumerate(got.individuals):
        if any(p != NULL and p >= i for p in par):
            ctx.violation("sort_individuals/parent-after-child", f"individual {i} has parents {par}", detail)
            return
    # consistent remapping: recover the permutation from rows; duplicates make it ambiguous, so verify by
    # searching for a bijection row-by-row through content + mapped parents
    msg = match_permuted_individuals(m, got)
    if msg:
        ctx.violation("sort_individuals/content", msg, detail)
    if [nd[:3] + nd[4:] for nd in got.nodes] != [nd[:3] + nd[4:] for nd in m.nodes]:
        ctx.violation("sort_individuals/nodes-changed", "node columns other than individual changed", detail)
    check_untouched(ctx, "sort_individuals/other-columns-changed", "sort_individuals()", before, tables_bytes(tc),
                    tables=("individuals",), exact=("/nodes/individual",), detail=detail)
    if tc.has_index() and stale_index(tc):
        ctx.violation("sort_individuals/stale-index", stale_index(tc), detail)


def match_permuted_individuals(src, got):
    """Is got.individuals a permutation of src.individuals with parents and node.individual remapped
    consistently?  Individuals are identified through an iteratively refined content signature."""
    n = len(src.individuals)
    if len(got.individuals) != n:
        return f"{len(got.individuals)} individuals, expected {n}"

    def refine(mm):
        refs = {}
        for u, nd in enumerate(mm.nodes):
            if nd[3] != NULL:
                refs.setdefault(nd[3], []).append(u)
        h = lambda x: hashlib.sha1(repr(x).encode()).hexdigest()  # noqa: E731  (keeps the signatures short)
        sig = [h((ind[0], ind[1], ind[3], len(ind[2]), tuple(refs.get(i, [])))) for i, ind in enumerate(mm.individuals)]
        for _ in range(n + 1):
            new = [h((sig[i], tuple(sig[p] if p != NULL else None for p in mm.individuals[i][2])))
                   for i in range(len(sig))]
            if len(set(new)) == len(set(sig)):
                return new  # the partition is stable: further rounds add nothing
            sig = new
        return sig

    a, b = refine(src), refine(got)
    if sorted(a) != sorted(b):
        return ("individual rows (flags, location, metadata, parents and referencing nodes, followed through the "
                f"parent links) are not a consistent permutation of the input: got {got.individuals} "
                f"nodes.individual {[nd[3] for nd in got.nodes]}; input {src.individuals} "
                f"nodes.individual {[nd[3] for nd in src.nodes]}")
    return None


# --------------------------------------------------------------------------- EdgeTable.squash


def split_for_squash(rng, edges, p_split=0.4, max_pieces=2, ulp_gaps=False):
    """Cut edges into touching pieces (dyadic points, so every piece boundary is exact); with ulp_gaps some cuts
    leave a gap of one ulp between the pieces: not adjacent, must not be merged."""
    out = []
    gaps = 0
    for l, r, p, c, md in edges:
        if rng.random() < p_split:
            k = rng.randint(2, max_pieces)
            cuts = sorted({l + (r - l) * i / 2 ** 10 for i in rng.sample(range(1, 2 ** 10), k - 1)})
            bounds = [l] + cuts + [r]
            for a_, b_ in zip(bounds, bounds[1:]):
                left = a_
                if ulp_gaps and a_ != l and rng.random() < 0.4:
                    left = math.nextafter(a_, math.inf)
                    gaps += 1
                if left < b_:
                    out.append((left, b_, p, c, b""))
        else:
            out.append((l, r, p, c, b""))
    return out, gaps


def run_squash(case, ctx):
    rng = case_rng(case)
    m = gen.gen_topology(rng, max_nodes=8, max_bp=6, unsquashed=rng.random() < 0.7)
    with_md = rng.random() < 0.15
    r = rng.random()
    if r < 0.08 and m.edges:
        # 0, 1 or 2 rows (squash returns early below two rows)
        m.edges = m.edges[:rng.choice([0, 1, 1, 2])]
        ctx.feature("squash:0-2-rows")
    ulp = rng.random() < 0.25
    out, gaps = split_for_squash(rng, m.edges, max_pieces=rng.choice([2, 2, 3, 8]), ulp_gaps=ulp)
    rng.shuffle(out)
    if with_md and out:
        j = rng.randrange(len(out))
        out[j] = out[j][:4] + (b"x",)
    if gaps:
        ctx.feature("squash:one-ulp-gap")
    attached = rng.random() < 0.4
    feat(ctx, m, "squash:metadata" if with_md and out else "squash:plain",
         "squash:table-of-a-collection" if attached else "squash:standalone-table")
    _sig(ctx, case, ("squash", tuple(out)), nontrivial=len(ref_squash(out)) < len(out))
    detail = {"edges": [list(e[:4]) for e in out], "attached": attached, "low_level": case["k"] % 3 == 0}
    if detail["low_level"]:
        ctx.feature("squash:low-level-method")
    check_squash(ctx, case, m, out, with_md and bool(out), attached, detail)


def check_squash(ctx, case, m, out, with_md, attached, detail):
    """m: nodes (and anything else) of the collection the edge table belongs to; out: the edge rows to squash."""
    src = m.copy()
    src.edges = out
    tc = None
    if attached:
        # the edge table of a TableCollection (EdgeTable is a view of the collection's memory); everything but the
        # edge rows must stay as it is
        src2 = src.copy()
        tc = build_tc(src2, case_rng(case, "build"), ctx)
        t = tc.edges
        before = tables_bytes(tc)
    else:
        t = tskit.EdgeTable()
        if out and len(out) % 2:
            t.set_columns(left=[e[0] for e in out], right=[e[1] for e in out], parent=[e[2] for e in out],
                          child=[e[3] for e in out], metadata=np.frombuffer(b"".join(e[4] for e in out), dtype=np.int8),
                          metadata_offset=np.cumsum([0] + [len(e[4]) for e in out], dtype=np.uint64))
        else:
            for l, r, p, c, md in out:
                t.add_row(l, r, p, c, metadata=md)
    ll = detail.get("low_level", False)
    try:
        if ll:
            t.ll_table.squash()  # the method EdgeTable.squash forwards to
        else:
            t.squash()
        err = None
    except LIBERR as e:
        err = e
    if with_md:
        ctx.count("squash:metadata-rejected")
        if err is None:
            ctx.violation("squash/metadata-accepted", "squash() with non-empty edge metadata returned", detail)
        return
    if err is not None:
        ctx.violation("squash/raised", f"raised {err}", detail)
        return
    ctx.count("squash:ref")
    got = [(float(t.left[j]), float(t.right[j]), int(t.parent[j]), int(t.child[j]), b"") for j in range(t.num_rows)]
    exp = ref_squash(out)
    if got != exp:
        ctx.violation("squash/rows", "squash(): " + _first_diff(got, exp)[:1500] + f" input {out[:40]}", detail)
    off = [int(x) for x in t.metadata_offset]
    if off != [0] * (t.num_rows + 1) or len(t.metadata) != 0:
        ctx.violation("squash/broken-offsets", f"metadata_offset {off[:20]} after squash() of rows without metadata",
                      detail)
    if attached:
        ctx.count("squash:table-of-a-collection")
        check_untouched(ctx, "squash/other-columns-changed", "edges.squash()", before, tables_bytes(tc),
                        tables=("edges",), detail=detail)
    # content: same {child: parent} at every position
    mm = src.copy()
    mm.edges = got
    xs = sorted({e[0] for e in out} | {(e[0] + e[1]) / 2 for e in out} | {math.nextafter(e[1], -math.inf) for e in out})
    if len(xs) > 150:
        xs = xs[::len(xs) // 150 + 1]
    for x in xs:
        if mm.forest_at(x) != src.forest_at(x):
            ctx.violation("squash/content", f"forest at {x} changed: {mm.forest_at(x)} expected {src.forest_at(x)}", detail)
            break
    # squashing again finds nothing to merge
    ctx.count("squash:idempotent")
    try:
        t.squash()
    except LIBERR as e:
        ctx.violation("squash/raised", f"second squash() raised {e}", detail)
        return
    again = [(float(t.left[j]), float(t.right[j]), int(t.parent[j]), int(t.child[j]), b"") for j in range(t.num_rows)]
    if again != got:
        ctx.violation("squash/not-idempotent", "squash() twice: " + _first_diff(again, got)[:1500], detail)


# --------------------------------------------------------------------------- large / structurally extreme
# (AUDIT-C07.md gaps 13-17): >= 256 rows per key group, > 64 KiB ragged columns, single rows > 64 KiB, chains of
# mutation / individual parents deeper than 256, hundreds of duplicate site rows, 300 pieces of one edge.

BIG_OPS = ("sort", "canon", "repair", "sortind", "dedup", "squash", "parents", "sort")
BIG_SHAPES = ("star", "chain", "levels", "random", "broom")
BIG_N = (255, 256, 257, 300, 420, 640)


def fat_bytes(rng):
    k = rng.choice([0, 3, 255, 256, 257, 512, 1000])
    return rng.randbytes(k)


def big_model(rng, shape=None, n=None, heavy=None, pedigree=None, migrations=False, stack=None, one_fat=None):
    """A valid collection with n + 1 nodes in one of the extreme shapes, 1-3 trees, one heavy site (a mutation on
    every node, or a stack of >= 255 mutations on one branch), optional fat metadata, populations, a pedigree of
    individuals and migrations with tied keys.  Sorted, with reference mutation parents."""
    shape = shape or rng.choice(BIG_SHAPES)
    n = n or rng.choice(BIG_N)
    N = n + 1
    m = RowModel(float(rng.choice([1.0, 8.0, 100.0])))
    m.tags |= {f"big:shape={shape}", f"big:nodes={N}"}
    # node u gets rank r[u]; times are non-decreasing in rank
    ranks = list(range(N))
    rng.shuffle(ranks)  # ranks[u]: node ids are unrelated to age
    by_rank = sorted(range(N), key=lambda u: ranks[u])
    if shape == "chain":
        tval = [i / 2 for i in range(N)]
    elif shape == "star":
        tval = [rng.choice([0.0, 0.0, 0.5, 1.0]) for _ in range(N - 1)] + [2.0]
        tval.sort()
    elif shape == "levels":
        g = rng.choice([16, 64, 128])
        tval = [float(i // g) for i in range(N)]
    elif shape == "broom":
        h = N // 2
        tval = [0.0] * h + [1.0 + i for i in range(N - h)]
    else:
        tval = sorted(rng.randint(0, 60) / 2 for _ in range(N - 1))
        tval.append(tval[-1] + 1.0)
    time = [0.0] * N
    for i, u in enumerate(by_rank):
        time[u] = tval[i]
    first_older = [bisect.bisect_right(tval, tval[i]) for i in range(N)]  # index in by_rank; N = nobody is older
    pos = {u: i for i, u in enumerate(by_rank)}

    def pick(u, again=False):
        i = pos[u]
        lo = first_older[i]
        if lo >= N:
            return NULL
        if shape == "star":
            return by_rank[N - 1] if not again else rng.choice([NULL, by_rank[N - 1]])
        if shape == "chain":
            return by_rank[lo] if not again else by_rank[min(N - 1, lo + rng.randint(0, 3))]
        if shape == "broom":
            return by_rank[lo]
        if shape == "levels":
            hi = lo
            while hi < N and tval[hi] == tval[lo]:
                hi += 1
            return by_rank[rng.randrange(lo, hi)]
        return by_rank[rng.randrange(lo, N)] if rng.random() < 0.97 else NULL

    flags = [NODE_IS_SAMPLE if (time[u] == tval[0] or rng.random() < 0.05) else 0 for u in range(N)]
    m.nodes = [(flags[u], time[u], NULL, NULL, b"") for u in range(N)]
    nbp = rng.choice([0, 0, 1, 2])
    bps = sorted(rng.sample([k * m.L / 16 for k in range(1, 16)], nbp))
    bounds = [0.0] + bps + [m.L]
    parent = {u: pick(u) for u in range(N)}
    start = {u: 0.0 for u in range(N)}
    edges = []
    for i in range(1, len(bounds)):
        x = bounds[i]
        last = i == len(bounds) - 1
        new = dict(parent)
        if not last:
            for u in rng.sample(range(N), max(1, N // 20)):
                new[u] = pick(u, again=True)
        for u in range(N):
            if last or new[u] != parent[u]:
                if parent[u] != NULL:
                    edges.append((start[u], x, parent[u], u, b""))
                start[u] = x
        parent = new
    m.edges = sorted(edges, key=edge_key(m))
    # sites: one heavy, a few light
    npos = rng.randint(1, 4)
    positions = sorted(rng.sample([k * m.L / 64 for k in range(64)], npos))
    if rng.random() < 0.5:
        positions[0] = 0.0
    heavy = heavy or rng.choice(["every-node", "stack", "stack", "few"])
    m.tags.add(f"big:heavy-site={heavy}")
    known = rng.random() < 0.35
    hs = rng.randrange(npos)
    muts = []
    states = ["A", "C", "G", "T", "", "AC"]
    for j, x in enumerate(positions):
        par = m.forest_at(x)
        plan = []
        if j == hs and heavy == "every-node":
            plan = list(range(N))
        elif j == hs and heavy == "stack":
            k = stack or rng.choice([255, 256, 257, 258, 300])
            plan = [rng.randrange(N)] * k + [rng.randrange(N) for _ in range(rng.randint(0, 6))]
            m.tags.add(f"big:stack={k}")
        else:
            plan = [rng.randrange(N) for _ in range(rng.choice([0, 1, 2, 5]))]
        rows = []
        for u in plan:
            if known:
                hi = time[par[u]] if u in par else time[u] + 2.0
                t = time[u] + rng.randint(0, 7) * (hi - time[u]) / 8
            else:
                t = None
            rows.append((u, rng.choice(states), t))
        if known:
            rows.sort(key=lambda z: (-z[2], -time[z[0]]))
        else:
            rows.sort(key=lambda z: -time[z[0]])
        muts += [(j, u, d, NULL, t, b"") for u, d, t in rows]
    m.sites = [(x, rng.choice(states[:4]), b"") for x in positions]
    if rng.random() < 0.4:
        # allele strings at the 8 / 16 bit length boundaries (the sorters copy them row by row)
        j = rng.randrange(npos)
        m.sites[j] = (m.sites[j][0], "A" * rng.choice([255, 256, 257, 65535, 65536, 65537]), b"")
        if muts:
            q = rng.randrange(len(muts))
            muts[q] = muts[q][:2] + ("G" * rng.choice([255, 256, 257, 65535, 65536, 65537]),) + muts[q][3:]
        m.tags.add("big:long-allele-strings")
    m.mutations = muts
    if known:
        m.tags.add("mutation-times")
    par_ = mutation_parents(m)
    m.mutations = [(s_, u, d, par_[k], t, md) for k, (s_, u, d, _, t, md) in enumerate(m.mutations)]
    depth = 0
    for k in range(len(m.mutations)):
        d_, p = 0, m.mutations[k][3]
        while p != NULL:
            d_, p = d_ + 1, m.mutations[p][3]
        depth = max(depth, d_)
    if depth >= 256:
        m.tags.add("big:mutation-parent-chain>=256")
    # populations / individuals
    npop = rng.choice([0, 3, 300])
    m.populations = [(gen.rbytes(rng),) for _ in range(npop)]
    pedigree = pedigree or rng.choice(["none", "chain", "star", "dag", "dag"])
    nind = 0 if pedigree == "none" else rng.choice([n // 2, n, 256, 300])
    nind = min(nind, N)
    inds = []
    for i in range(nind):
        if pedigree == "chain":
            par = (i - 1,) if i else ()
        elif pedigree == "star":
            par = (0,) if i else ()
        else:
            par = tuple(rng.choice([NULL] + list(range(max(0, i - 40), i))) for _ in range(rng.choice([0, 1, 2, 2])))
        inds.append((rng.choice([0, 1]), (), par, gen.rbytes(rng)))
    m.individuals = inds
    if nind:
        m.tags.add(f"big:pedigree={pedigree}")
    owners = list(range(N))
    rng.shuffle(owners)
    ind_of = {u: (i if i < nind else (rng.randrange(nind) if nind and rng.random() < 0.5 else NULL))
              for i, u in enumerate(owners)}  # every individual is referenced by a node
    m.nodes = [(fl, t, rng.randrange(npop) if npop and rng.random() < 0.8 else NULL, ind_of[u], gen.rbytes(rng))
               for u, (fl, t, _, _, _) in enumerate(m.nodes)]
    if migrations and npop:
        tv = [rng.randint(0, 6) / 2 for _ in range(3)]
        migs = []
        for _ in range(rng.choice([255, 256, 300])):
            a = rng.randint(0, 15)
            migs.append((a * m.L / 16, rng.randint(a + 1, 16) * m.L / 16, rng.randrange(N), rng.randrange(min(npop, 3)),
                         rng.randrange(min(npop, 3)), rng.choice(tv), gen.rbytes(rng)))
        m.migrations = sorted(migs, key=lambda g: g[5])
        m.tags.add("migrations")
    # metadata: short everywhere; fat on some tables (ragged columns beyond 64 KiB); one row beyond 64 KiB
    fat = {t for t in ("edges", "sites", "mutations", "migrations", "individuals", "populations") if rng.random() < 0.35}
    m.edges = [e[:4] + (fat_bytes(rng) if "edges" in fat else gen.rbytes(rng),) for e in m.edges]
    m.sites = [s_[:2] + (fat_bytes(rng) if "sites" in fat else gen.rbytes(rng),) for s_ in m.sites]
    m.mutations = [mu[:5] + (fat_bytes(rng) if "mutations" in fat else gen.rbytes(rng),) for mu in m.mutations]
    if "migrations" in fat:
        m.migrations = [g[:6] + (fat_bytes(rng),) for g in m.migrations]
    if "individuals" in fat:
        m.individuals = [i_[:3] + (fat_bytes(rng),) for i_ in m.individuals]
    if "populations" in fat:
        m.populations = [(fat_bytes(rng),) for _ in m.populations]
    if one_fat or rng.random() < 0.4:
        cand = [t for t in ("edges", "sites", "mutations", "migrations", "individuals", "populations") if getattr(m, t)]
        if cand:
            t = one_fat if one_fat in cand else rng.choice(cand)
            rows = getattr(m, t)
            j = rng.randrange(len(rows))
            rows[j] = rows[j][:-1] + (rng.randbytes(rng.choice([65535, 65536, 65537, 70001])),)
            m.tags.add("big:one-row>64KiB")
            m.tags.add(f"big:one-row>64KiB:{t}")
    for t in ("edges", "sites", "mutations", "migrations", "individuals", "populations"):
        if sum(len(r_[-1]) for r_ in getattr(m, t)) > 65536:
            m.tags.add("big:ragged-column>64KiB")
            m.tags.add(f"big:ragged-column>64KiB:{t}")
    m.tags.add("metadata")
    return m


def slim_json(m):
    """Replay detail for big models: the case descriptor regenerates everything; keep the detail small."""
    return {"L": m.L, "rows": {t: len(getattr(m, t)) for t in TABLES7}, "tags": sorted(m.tags)}


def run_big(case, ctx):
    rng = case_rng(case)
    op = case["op"]
    ctx.feature(f"big:op={op}")
    k = case["k"]
    if op == "sort":
        # a single row beyond 64 KiB in one of the sorted tables in 2 of 3 cases
        m = big_model(rng, migrations=k % 2 == 0,
                      one_fat=(["edges", "mutations", None, "edges", "migrations", "sites"][k % 6]))
        if rng.random() < 0.4:
            m = multi_split_sites(rng, m, kmax=rng.choice([3, 260]), same_ancestral=False, p_split=0.5)
        sm = scramble(rng, m, free_mutations=rng.random() < 0.5, p_table=0.95)
        ne, ns, nmu = len(sm.edges), len(sm.sites), len(sm.mutations)
        es = rng.choice([0, 0, 1, 255, 256, 257, ne - 1, ne, rng.randint(0, ne), rng.randint(0, ne)])
        es = max(0, min(es, ne))
        ss, ms = rng.choice([(0, 0), (0, 0), (ns, nmu)])
        form = SORT_FORMS[k % len(SORT_FORMS)]
        feat(ctx, sm, f"big:sort:edge_start={start_class(es, ne)}")
        _sig(ctx, case, ("big-sort", sm.signature(), es, ss, ms))
        detail = {"model": slim_json(sm), "edge_start": es, "site_start": ss, "mutation_start": ms, "form": form}
        ctx.count("big:sort")
        check_sort_call(ctx, sm, es, ss, ms, detail, brng=case_rng(case, "build"), form=form, then_full=True)
    elif op == "canon":
        # always a chain of mutation parents deeper than 256 (the canonical mutation order counts descendants)
        if rng.random() < 0.6:
            m = big_model(rng, heavy="stack", stack=rng.choice([257, 258, 300, 513]))
        else:
            m = big_model(rng, heavy="every-node", shape=rng.choice(["chain", "broom"]), n=rng.choice([300, 420, 640]))
        remove = rng.random() < 0.7
        tabs = None
        if not remove:
            tabs = {"edges", "sites", "mutations"}
            m = scramble(rng, m, tables={"individuals", "populations"})
        s1 = scramble(rng, m, free_mutations=True, tables=tabs, p_table=0.95)
        s2 = scramble(rng, m, free_mutations=True, tables=tabs, p_table=0.95)
        feat(ctx, m, f"canon:remove_unreferenced={int(remove)}")
        _sig(ctx, case, ("big-canon", s1.signature(), s2.signature(), remove))
        detail = {"scramble1": slim_json(s1), "remove_unreferenced": remove}
        ctx.count("big:canon")
        check_canon(ctx, case, rng, m, s1, s2, remove, detail)
    elif op == "repair":
        base = big_model(rng, migrations=rng.random() < 0.4)
        unknown = not any(mu[4] is not None for mu in base.mutations)
        dup = multi_split_sites(rng, base, kmax=rng.choice([2, 5, 260]), same_ancestral=not unknown, p_split=0.7)
        pmode = rng.choice(["kept", "null", "null"])
        if pmode == "null":
            dup.mutations = [(s_, u, d, NULL, t, md) for s_, u, d, p, t, md in dup.mutations]
        scr = scramble(rng, dup, p_table=0.95)
        with_times = rng.random() < 0.5
        feat(ctx, scr, f"repair:parents-{pmode}", "repair:compute_mutation_times" if with_times else
             "repair:no-compute_mutation_times")
        _sig(ctx, case, ("big-repair", scr.signature(), with_times))
        detail = {"scrambled": slim_json(scr), "with_times": with_times}
        ctx.count("big:repair")
        check_repair(ctx, case, rng, base, scr, with_times, detail, big=True)
    elif op == "sortind":
        m = big_model(rng, n=rng.choice([256, 300, 640]), heavy="few",
                      pedigree=rng.choice(["chain", "star", "dag"]))
        cyc = (k // len(BIG_OPS)) % 3 == 1
        if cyc and len(m.individuals) > 2:
            # close one long cycle: the first individual gets the last one as a parent
            i0 = m.individuals[0]
            if m.tags & {"big:pedigree=chain"}:
                m.individuals[0] = i0[:2] + ((len(m.individuals) - 1,),) + i0[3:]
            else:
                j = rng.randrange(1, len(m.individuals))
                m.individuals[j] = m.individuals[j][:2] + ((j,),) + m.individuals[j][3:]
        m = scramble(rng, m, tables={"individuals"})
        cyc = individual_cycle(m) or any(i in par for i, (_, _, par, _) in enumerate(m.individuals))
        feat(ctx, m, "sortind:cycle" if cyc else "sortind:acyclic")
        _sig(ctx, case, ("big-sortind", m.signature()))
        ctx.count("big:sortind")
        check_sort_individuals(ctx, case, m, cyc, {"model": slim_json(m)})
    elif op == "dedup":
        base = big_model(rng, heavy=rng.choice(["few", "stack"]))
        m = multi_split_sites(rng, base, kmax=rng.choice([255, 256, 257, 300]), same_ancestral=False, p_split=0.8)
        feat(ctx, m, "dedup:mode=k-fold(big)")
        _sig(ctx, case, ("big-dedup", m.signature()))
        ctx.count("big:dedup")
        check_dedup(ctx, case, m, False, {"model": slim_json(m)})
    elif op == "squash":
        m = big_model(rng, heavy="few", pedigree="none")
        edges = [e[:4] + (b"",) for e in m.edges]
        if rng.random() < 0.5:
            edges = rng.sample(edges, min(len(edges), 12))
            out, gaps = split_for_squash(rng, edges, p_split=0.9, max_pieces=rng.choice([255, 256, 300]), ulp_gaps=True)
        else:
            out, gaps = split_for_squash(rng, edges, p_split=0.5, max_pieces=3, ulp_gaps=rng.random() < 0.5)
        rng.shuffle(out)
        attached = rng.random() < 0.5
        m.sites, m.mutations, m.migrations = [], [], []
        feat(ctx, m, "squash:plain", "squash:table-of-a-collection" if attached else "squash:standalone-table",
             *(["squash:one-ulp-gap"] if gaps else []))
        _sig(ctx, case, ("big-squash", tuple(out)))
        ctx.count("big:squash")
        check_squash(ctx, case, m, out, False, attached, {"edges": len(out), "attached": attached})
    else:
        m = big_model(rng, heavy=rng.choice(["every-node", "stack"]))
        want = [mu[3] for mu in m.mutations]
        w = m.copy()
        w.mutations = [(s_, u, d, rng.choice([NULL, NULL, k_ - 1 if k_ and w.mutations[k_ - 1][0] == s_ else NULL]), t, md)
                       for k_, (s_, u, d, p, t, md) in enumerate(m.mutations)]
        feat(ctx, m, "parents:big")
        _sig(ctx, case, ("big-parents", w.signature()))
        detail = {"model": slim_json(w)}
        tc = build_tc(w, case_rng(case, "build"), ctx, index=True)
        if not tc.has_index():
            tc.build_index()
        before = tables_bytes(tc)
        ctx.count("big:parents")
        try:
            tc.compute_mutation_parents()
        except LIBERR as e:
            ctx.violation("compute_mutation_parents/raised", f"raised on a valid sorted collection: {e}", detail)
            return
        gp = [int(x) for x in tc.mutations.parent]
        if gp != want:
            bad = [(k_, gp[k_], want[k_]) for k_ in range(len(want)) if gp[k_] != want[k_]][:5]
            ctx.violation("compute_mutation_parents/wrong-parent",
                          f"{len(want)} mutations: (row, parent, expected nearest mutation above) {bad}", detail)
        diff = [k_ for k_ in changed_keys(before, tables_bytes(tc)) if k_ != "/mutations/parent"]
        if diff:
            ctx.violation("compute_mutation_parents/other-columns-changed", f"changed {diff}", detail)


# --------------------------------------------------------------------------- empty and one-row tables
# (AUDIT-C07.md gap 18): every operation on a collection with no rows at all / exactly one row per table is the
# identity (compute_mutation_times excepted: it writes the one time).

TINY_N = 3


def run_tiny(case, ctx):
    k = case["k"]
    m = RowModel(1.0)
    if k >= 1:
        m.populations = [(b"p",)]
        m.individuals = [(0, (0.5,), (), b"i")]
        m.nodes = [(NODE_IS_SAMPLE, 0.0, 0, 0, b"n0"), (0, 1.0, NULL, NULL, b"")]
        m.edges = [(0.0, 1.0, 1, 0, b"e")]
        m.sites = [(0.0 if k == 1 else 0.5, "A", b"s")]
        m.mutations = [(0, 0, "T", NULL, None, b"m")]
    ctx.feature("tiny:empty" if k == 0 else "tiny:one-row-per-table")
    _sig(ctx, case, ("tiny", k), nontrivial=False)
    detail = {"model": m.to_json()}
    mig = m.copy()
    if k >= 1:
        mig.migrations = [(0.0, 1.0, 0, 0, 0, 0.5, b"g")]
    ops = [(f"sort[{f}]", mig, lambda tc, f=f: call_sort(tc, 0, 0, 0, f, case_rng(case)), ()) for f in SORT_FORMS]
    ops += [("sort(len, len, len)", mig, lambda tc: tc.sort(len(m.edges), site_start=len(m.sites),
                                                          mutation_start=len(m.mutations)), ()),
            ("deduplicate_sites", mig, lambda tc: tc.deduplicate_sites(), ()),
            ("build_index", mig, lambda tc: tc.build_index(), ()),
            ("compute_mutation_parents", mig, lambda tc: (tc.build_index(), tc.compute_mutation_parents()), ()),
            ("compute_mutation_times", mig, lambda tc: (tc.build_index(), tc.compute_mutation_times()),
             ("/mutations/time",)),
            ("sort_individuals", mig, lambda tc: tc.sort_individuals(), ()),
            ("edges.squash", m.copy(), lambda tc: tc.edges.squash(), ())]
    ops += [(f"canonicalise[{f}]", m, lambda tc, f=f: call_canonicalise(tc, True, f), ()) for f in CANON_FORMS]
    ops += [("canonicalise(False)", m, lambda tc: tc.canonicalise(remove_unreferenced=False), ())]
    for name, model, fn, may in ops:
        src = model.copy()
        if name == "edges.squash":
            src.edges = [e[:4] + (b"",) for e in src.edges]
        tc = to_tables(src)
        before = _no_index(tables_bytes(tc))
        ctx.count("tiny:identity")
        try:
            fn(tc)
        except LIBERR as e:
            ctx.violation("tiny/raised", f"{name} on {'an empty collection' if k == 0 else 'one row per table'} "
                                         f"raised {e}", detail)
            continue
        diff = [x for x in changed_keys(before, _no_index(tables_bytes(tc))) if x not in may]
        if diff or bad_offsets(tc):
            ctx.violation("tiny/changed", f"{name} changed {diff} of a collection with "
                                          f"{'no rows' if k == 0 else 'one row per table'}", detail)
        if name == "compute_mutation_times" and k >= 1:
            t = float(tc.mutations.time[0])
            if not isclose(t, 0.5):
                ctx.violation("repair/compute_mutation_times/values", f"single mutation on a branch from 0 to 1: time {t}",
                              detail)
        if name.startswith(("sort[", "canonicalise[")) and k >= 1:
            try:
                ts = tc.tree_sequence()
                if ts.num_trees != 1 or ts.num_mutations != 1:
                    ctx.violation("repair/content-trees", f"after {name}: {ts.num_trees} trees", detail)
            except LIBERR as e:
                ctx.violation("repair/result-does-not-load", f"after {name}: {e}", detail)


# --------------------------------------------------------------------------- more than 2^16 rows
# Built and compared column-wise with numpy (row tuples would dominate the run time); the expected permutation
# comes from numpy.lexsort over the documented keys, which are unique here.


def _ragged_rows(data, off):
    b = np.asarray(data).tobytes()
    off = [int(x) for x in off]
    return [b[off[j]:off[j + 1]] for j in range(len(off) - 1)]


def run_huge(case, ctx):
    rng = case_rng(case)
    nprng = np.random.default_rng(rng.getrandbits(64))
    n = (65537, 65536, 66001)[case["k"] % 3]
    npar = 3
    L = 1.0
    ctx.feature(f"huge:rows={n}")
    tc = tskit.TableCollection(L)
    ptime = [1.0, 1.0, 2.0]
    rng.shuffle(ptime)
    time = np.concatenate([np.zeros(n), np.array(ptime)])
    flags = np.concatenate([np.ones(n, dtype=np.uint32), np.zeros(npar, dtype=np.uint32)])
    order_nodes = nprng.permutation(n + npar)  # node ids unrelated to age
    node_time = np.empty(n + npar)
    node_flags = np.empty(n + npar, dtype=np.uint32)
    node_time[order_nodes] = time
    node_flags[order_nodes] = flags
    tc.nodes.set_columns(flags=node_flags, time=node_time)
    leaves, parents = order_nodes[:n], order_nodes[n:]
    child = leaves[nprng.permutation(n)].astype(np.int32)
    parent = parents[nprng.integers(0, npar, n)].astype(np.int32)
    left = np.zeros(n)
    right = np.full(n, L)
    mdlen = nprng.integers(0, 3, n)
    emd_off = np.concatenate([[0], np.cumsum(mdlen)]).astype(np.uint64)
    emd = nprng.integers(-128, 128, int(emd_off[-1]), dtype=np.int8)
    tc.edges.set_columns(left=left, right=right, parent=parent, child=child, metadata=emd, metadata_offset=emd_off)
    # one mutation per site; sites and mutations in unrelated random orders
    pos = nprng.permutation(2 ** 17)[:n] / 2 ** 17
    anc = nprng.integers(65, 70, n, dtype=np.int8)
    one = np.arange(n + 1, dtype=np.uint64)
    smd_len = nprng.integers(0, 3, n)
    smd_off = np.concatenate([[0], np.cumsum(smd_len)]).astype(np.uint64)
    smd = nprng.integers(-128, 128, int(smd_off[-1]), dtype=np.int8)
    tc.sites.set_columns(position=pos, ancestral_state=anc, ancestral_state_offset=one, metadata=smd,
                         metadata_offset=smd_off)
    msite = nprng.permutation(n).astype(np.int32)
    mnode = leaves[nprng.integers(0, n, n)].astype(np.int32)
    der = nprng.integers(97, 101, n, dtype=np.int8)
    mmd_len = nprng.integers(0, 3, n)
    mmd_off = np.concatenate([[0], np.cumsum(mmd_len)]).astype(np.uint64)
    mmd = nprng.integers(-128, 128, int(mmd_off[-1]), dtype=np.int8)
    tc.mutations.set_columns(site=msite, node=mnode, derived_state=der, derived_state_offset=one,
                             parent=np.full(n, NULL, dtype=np.int32), time=np.full(n, tskit.UNKNOWN_TIME),
                             metadata=mmd, metadata_offset=mmd_off)
    es = (0, 65536, 65535, n - 1, n, 0, 1)[case["k"] % 7]
    skip = case["k"] % 4 == 3
    ss, ms = (n, n) if skip else (0, 0)
    form = SORT_FORMS[case["k"] % len(SORT_FORMS)]
    ctx.feature(f"huge:edge_start={es}")
    detail = {"n": n, "edge_start": es, "skip_sites": skip, "form": form}
    _sig(ctx, case, ("huge", n, es, skip, case["k"]))
    before_nodes = [x for x in tables_bytes(tc) if x[0].startswith("/nodes")]
    in_emd = _ragged_rows(emd, emd_off)
    in_smd = _ragged_rows(smd, smd_off)
    in_mmd = _ragged_rows(mmd, mmd_off)
    try:
        call_sort(tc, es, ss, ms, form, rng)
    except LIBERR as e:
        ctx.violation("sort/raised", f"sort(edge_start={es}, site_start={ss}, mutation_start={ms}) on {n} edges, sites "
                                     f"and mutations raised {e}", detail)
        return
    ctx.count("huge:sort")
    bad = bad_offsets(tc)
    if bad:
        ctx.violation("sort/broken-offsets/" + ",".join(sorted({f"{t}.{c}" for t, c, _ in bad})),
                      f"{n} rows: {[(t, c, o[:6]) for t, c, o in bad][:2]}", detail)
        return
    # edges: rows before edge_start untouched, the rest by (time[parent], parent, child, left)
    tail = np.arange(es, n)
    perm = tail[np.lexsort((left[tail], child[tail], parent[tail], node_time[parent[tail]]))]
    eperm = np.concatenate([np.arange(es), perm]).astype(np.int64)
    e = tc.edges
    ok = (np.array_equal(e.parent, parent[eperm]) and np.array_equal(e.child, child[eperm])
          and np.array_equal(e.left, left[eperm]) and np.array_equal(e.right, right[eperm]))
    if not ok:
        j = int(np.flatnonzero((e.parent != parent[eperm]) | (e.child != child[eperm]))[:1].tolist()[0]) \
            if len(e.parent) == n and ((e.parent != parent[eperm]) | (e.child != child[eperm])).any() else -1
        ctx.violation("sort/edges", f"{n} edges, edge_start={es}: first wrong row {j}", detail)
    elif _ragged_rows(e.metadata, e.metadata_offset) != [in_emd[j] for j in eperm]:
        ctx.violation("sort/edges", f"{n} edges, edge_start={es}: metadata does not follow the rows", detail)
    # sites by position (unique), mutation.site remapped, mutations by site
    st, mt = tc.sites, tc.mutations
    if skip:
        sperm = np.arange(n)
        mperm = np.arange(n)
        want_msite = msite
    else:
        sperm = np.argsort(pos, kind="stable")
        inv = np.empty(n, dtype=np.int32)
        inv[sperm] = np.arange(n, dtype=np.int32)
        new_site = inv[msite]
        mperm = np.argsort(new_site, kind="stable")
        want_msite = new_site[mperm]
    if not (np.array_equal(st.position, pos[sperm]) and np.array_equal(st.ancestral_state, anc[sperm])
            and _ragged_rows(st.metadata, st.metadata_offset) == [in_smd[j] for j in sperm]):
        ctx.violation("sort/sites", f"{n} sites: rows are not the input rows in position order", detail)
    if not (np.array_equal(mt.site, want_msite) and np.array_equal(mt.node, mnode[mperm])
            and np.array_equal(mt.derived_state, der[mperm]) and (np.asarray(mt.parent) == NULL).all()
            and tskit.is_unknown_time(mt.time).all()
            and _ragged_rows(mt.metadata, mt.metadata_offset) == [in_mmd[j] for j in mperm]):
        ctx.violation("sort/mutations", f"{n} mutations: rows are not the input rows in site order with remapped site "
                                        "ids", detail)
    if [x for x in tables_bytes(tc) if x[0].startswith("/nodes")] != before_nodes:
        ctx.violation("sort/untouched-table-changed", "node table changed", detail)
    # the sorted collection is a tree sequence with one tree
    if es == 0 and not skip:
        ctx.count("huge:loads")
        try:
            ts = tc.tree_sequence()
            if ts.num_trees != 1 or ts.num_sites != n or ts.num_edges != n:
                ctx.violation("repair/content-trees", f"{ts.num_trees} trees, {ts.num_sites} sites", detail)
        except LIBERR as e_:
            ctx.violation("repair/result-does-not-load", f"sorted collection of {n} rows rejected: {e_}", detail)


# --------------------------------------------------------------------------- exhaustive small scope


def exh_base(b, rows):
    """Deterministic small collection number b with exactly `rows` edges / sites / mutations / migrations where
    possible (metadata everywhere, individuals and populations present)."""
    import random
    for attempt in range(2000):
        rng = random.Random(f"c07-exh-{b}-{attempt}")
        m = gen.gen_topology(rng, max_nodes=6, max_bp=3)
        if len(m.edges) < rows:
            continue
        # keep exactly `rows` edges (any sub-collection of a valid edge set is valid)
        m.edges = sorted(rng.sample(m.edges, rows), key=edge_key(m))
        gen.decorate_pops_inds(rng, m, npop=rows - 1, nind=rows)
        gen.decorate_sites(rng, m, max_sites=rows, max_muts=3, known_times=(b % 2 == 0))
        if len(m.sites) < 2 or len(m.mutations) < 2:
            continue
        while len(m.mutations) > rows:
            # drop trailing mutations (parents stay valid: a parent precedes its child)
            m.mutations.pop()
        while len(m.sites) > rows:
            j = len(m.sites) - 1
            m.sites.pop()
            m.mutations = [mu for mu in m.mutations if mu[0] != j]
        if b % 3 != 0:
            gen.decorate_migrations(rng, m, maxn=rows)
            if len(m.migrations) < 2:
                continue
        gen.decorate_meta(rng, m, tables=("nodes", "edges", "sites", "mutations", "individuals", "populations",
                                          "migrations"))
        par = mutation_parents(m)
        m.mutations = [(s, u, d, par[k], t, md) for k, (s, u, d, _, t, md) in enumerate(m.mutations)]
        return m
    raise RuntimeError("no base")


def run_exh(case, ctx):
    m = exh_base(case["base"], case["rows"])
    table = case["table"]
    n = len(getattr(m, table))
    ctx.feature(f"exh:{table}:{n}-rows")
    _sig(ctx, case, ("exh", case["base"], table, m.signature()), nontrivial=n > 1)
    outs = set()
    canon = set()
    keys_unique = True
    if table == "edges":
        ks = [edge_key(m)(e) for e in m.edges]
        keys_unique = len(set(ks)) == len(ks)
    if table == "migrations":
        ks = [(g[5], g[3], g[4], g[0], g[2]) for g in m.migrations]
        keys_unique = len(set(ks)) == len(ks)
    for perm in itertools.permutations(range(n)):
        pm = apply_orders(m, **{table: list(perm)})
        detail = {"model": pm.to_json(), "perm": list(perm), "table": table}
        ctx.count(f"exh:{table}-permutations")
        if table == "edges":
            starts = sorted({0, 1, n // 2, n})
        else:
            starts = [0]
        for es in starts:
            tc = check_sort_call(ctx, pm, es, 0, 0, detail, tag="sort")
            if tc is not None and es == 0:
                outs.add(repr(tables_bytes(tc)))
        if not m.migrations:
            tc = to_tables(pm)
            try:
                tc.canonicalise()
                canon.add(repr(tables_bytes(tc)))
            except LIBERR as e:
                ctx.violation("canonicalise/raised", f"raised {e}", detail)
    # every permutation of one table sorts to the same collection when the keys are a total order
    # (sites/mutations: sort is stable, so different input orders of tied rows legitimately differ)
    if table in ("edges", "migrations") and keys_unique:
        ctx.count("exh:all-permutations-same-result")
        if len(outs) > 1:
            ctx.violation("sort/order-dependent", f"{len(outs)} different results of sort() over all permutations of "
                                                  f"{table} rows", {"model": m.to_json(), "table": table})
    if not m.migrations:
        ctx.count("exh:canonicalise-all-permutations-same-result")
        if len(canon) > 1:
            ctx.violation("canonicalise/order-dependent", f"{len(canon)} different canonical forms over all permutations "
                                                          f"of {table} rows", {"model": m.to_json(), "table": table})
