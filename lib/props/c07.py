"""C07 — sort and repair tools reorder without changing content; result loads.

Oracles (reference semantics live in lib/props/c14.py: ref_sort, ref_dedup_sites, ref_subset; and here:
ref_canonical, ref_mutation_times, ref_squash), all written from docs/data-model.md and the docstrings of
TableCollection.sort / canonicalise / sort_individuals / deduplicate_sites / compute_mutation_parents /
compute_mutation_times and EdgeTable.squash.

EITHER zones:
  E1  edges / migrations with equal sort keys: relative order unspecified -> multiset + key order.
  E2  canonicalise(): order of the individual table (docstring: "sorted by the first node that refers to each";
      implementation: most descendants first).  The statement only claims invariance, so individuals are compared
      as a set with consistent id remapping against the reference and byte-wise between two scrambles.
  E3  canonicalise()/subset() with migrations raise TSK_ERR_MIGRATIONS_NOT_SUPPORTED by design; tables after a
      failed call are unspecified.  Accepted: a LibraryError, or a result that still has every migration row.
  E4  compute_mutation_times: "evenly spread along the edge" fixes the value only up to rounding -> rtol 1e-9.
  E5  negative edge_start: any tskit/Python error is accepted (must not be silently treated as 0 .. len).
  E6  sort_individuals: only "parents before children" + consistent remapping is documented, not the order.
"""
import itertools

import tskit

from lib import gen
from lib.harness import case_rng
from lib.model import NULL, allele_at, forest, isclose, mutation_parents
from lib.props.c14 import (_first_diff, _msorted, bad_offsets, compare_individuals, diff_models, edge_key,
                           mask_individuals, msprime_model, read_back, ref_dedup_sites, ref_sort, ref_subset,
                           stale_index)
from lib.tsk import from_tables, tables_bytes, to_tables

ID = "C07"
LIBERR = (tskit.LibraryError,)


def _sig(ctx, case, obj, nontrivial=True):
    """Case signature for the distinct-non-trivial count.  In the thorough tier only every 8th case is recorded
    (the worker rewrites the whole signature set every 50 cases; millions of entries would dominate the run), so
    the reported number is a lower bound there."""
    if case.get("tier") == "thorough" and case.get("idx", 0) % 8:
        return
    ctx.sig(obj, nontrivial=nontrivial)


# =========================================================================== scrambler (DESIGN 3.3 item 3)


def _perm_keep_groups(rng, n, group_of):
    """Random order (list of old ids) in which rows with the same non-None group keep their relative order."""
    order = list(range(n))
    rng.shuffle(order)
    slots = {}
    for pos, old in enumerate(order):
        g = group_of(old)
        if g is not None:
            slots.setdefault(g, []).append(pos)
    for ps in slots.values():
        members = sorted(order[p] for p in ps)
        for p, old in zip(ps, members):
            order[p] = old
    return order


def apply_orders(m, edges=None, sites=None, mutations=None, migrations=None, individuals=None,
                 populations=None):
    """Reorder rows (each argument: list of old row ids in new order) and remap every reference."""
    out = m.copy()
    ident = lambda n: list(range(n))  # noqa: E731
    eo = edges if edges is not None else ident(len(m.edges))
    so = sites if sites is not None else ident(len(m.sites))
    mo = mutations if mutations is not None else ident(len(m.mutations))
    go = migrations if migrations is not None else ident(len(m.migrations))
    io = individuals if individuals is not None else ident(len(m.individuals))
    po = populations if populations is not None else ident(len(m.populations))
    smap = {old: new for new, old in enumerate(so)}
    mmap = {old: new for new, old in enumerate(mo)}
    imap = {old: new for new, old in enumerate(io)}
    pmap = {old: new for new, old in enumerate(po)}
    rm = lambda mp, x: x if x == NULL else mp[x]  # noqa: E731
    out.edges = [m.edges[j] for j in eo]
    out.sites = [m.sites[j] for j in so]
    out.mutations = [(smap[s], u, d, rm(mmap, p), t, md) for s, u, d, p, t, md in (m.mutations[k] for k in mo)]
    out.migrations = [(l, r, u, pmap[a], pmap[b], t, md) for l, r, u, a, b, t, md in (m.migrations[k] for k in go)]
    out.individuals = [(fl, loc, tuple(rm(imap, p) for p in par), md)
                       for fl, loc, par, md in (m.individuals[i] for i in io)]
    out.populations = [m.populations[p] for p in po]
    out.nodes = [(fl, t, rm(pmap, p), rm(imap, i), md) for fl, t, p, i, md in m.nodes]
    return out


def scramble(rng, m, nodes_fixed=True, free_mutations=False, tables=None, p_table=0.85):
    """Row-order scrambler: permutes edges, sites, mutations, migrations, individuals, populations and remaps
    ids consistently; nodes are never moved.  Unless free_mutations, the relative order of the mutations at one
    *position* (and of the site rows sharing that position) is kept, except where all mutations at the position
    have distinct known times: with unknown or tied times the row order is the only record of which mutation
    is older."""
    if tables is None:
        tables = {t for t in ("edges", "sites", "mutations", "migrations", "individuals", "populations")
                  if rng.random() < p_table}
    pos_of_site = [s[0] for s in m.sites]
    at_pos = {}
    for k, mu in enumerate(m.mutations):
        at_pos.setdefault(pos_of_site[mu[0]], []).append(k)
    free_pos = set()
    for pos, ks in at_pos.items():
        ts_ = [m.mutations[k][4] for k in ks]
        if all(t is not None for t in ts_) and len(set(ts_)) == len(ts_):
            free_pos.add(pos)
    nsites_at = {}
    for p in pos_of_site:
        nsites_at[p] = nsites_at.get(p, 0) + 1

    def mgroup(k):
        pos = pos_of_site[m.mutations[k][0]]
        return None if (free_mutations or pos in free_pos) else pos

    def sgroup(j):
        pos = pos_of_site[j]
        if nsites_at[pos] < 2 or free_mutations or pos in free_pos:
            return None
        return pos

    kw = {}
    if "edges" in tables:
        kw["edges"] = _perm_keep_groups(rng, len(m.edges), lambda j: None)
    if "migrations" in tables:
        kw["migrations"] = _perm_keep_groups(rng, len(m.migrations), lambda j: None)
    if "sites" in tables:
        kw["sites"] = _perm_keep_groups(rng, len(m.sites), sgroup)
    if "mutations" in tables:
        kw["mutations"] = _perm_keep_groups(rng, len(m.mutations), mgroup)
    if "individuals" in tables:
        kw["individuals"] = _perm_keep_groups(rng, len(m.individuals), lambda j: None)
    if "populations" in tables:
        kw["populations"] = _perm_keep_groups(rng, len(m.populations), lambda j: None)
    out = apply_orders(m, **kw)
    out.tags = set(m.tags) | {"scrambled:" + t for t in tables}
    return out


def split_sites(rng, m, same_ancestral):
    """Duplicate site positions: some sites become two rows at the same position, the later mutations of the
    site hanging off the second row.  Logically consistent: deduplicate_sites() gives the original back."""
    out = m.copy()
    sites, muts = [], []
    newid = {}
    split_at = {}
    for j, s in enumerate(m.sites):
        newid[j] = len(sites)
        sites.append(s)
        ks = m.site_mutations(j)
        if rng.random() < 0.5:
            cut = rng.randint(0, len(ks))
            split_at[j] = (len(sites), set(ks[cut:]))
            anc = s[1] if same_ancestral else rng.choice(["A", "C", "G", "T", "", "dup"])
            sites.append((s[0], anc, gen.rbytes(rng)))
            out.tags.add("duplicate-site-positions")
    for k, (s, u, d, p, t, md) in enumerate(m.mutations):
        ns = newid[s]
        if s in split_at and k in split_at[s][1]:
            ns = split_at[s][0]
        muts.append((ns, u, d, p, t, md))
    # a parent reference must stay within one site row (tskit's basic integrity rule)
    muts = [(s, u, d, p if (p != NULL and muts[p][0] == s) else NULL, t, md) for s, u, d, p, t, md in muts]
    out.sites, out.mutations = sites, muts
    return out


def arbitrary_parents(rng, m):
    """Referentially intact but otherwise arbitrary mutation parents: NULL or another mutation of the same site
    row that is not younger (the basic integrity rules every table operation enforces)."""
    muts = []
    for k, (s, u, d, p, t, md) in enumerate(m.mutations):
        cand = [NULL] + [j for j, mu in enumerate(m.mutations)
                         if j != k and mu[0] == s and (t is None or (mu[4] is not None and mu[4] >= t))]
        muts.append((s, u, d, rng.choice(cand), t, md))
    m.mutations = muts
    m.tags.add("arbitrary-mutation-parents")
    return m


# =========================================================================== reference semantics


def ref_mutation_times(m):
    """compute_mutation_times(): single mutation on a branch: mid-point; k on one branch: evenly spread, the
    earlier row older; above a root: the node's time.  m must be sorted; returns the list of times."""
    out = [None] * len(m.mutations)
    for j, s in enumerate(m.sites):
        fr = forest(m, s[0])
        per = {}
        for k in m.site_mutations(j):
            per.setdefault(m.mutations[k][1], []).append(k)
        for u, ks in per.items():
            p = fr.par(u)
            for i, k in enumerate(ks, start=1):
                if p == NULL:
                    out[k] = m.time(u)
                else:
                    pt, nt = m.time(p), m.time(u)
                    out[k] = pt - (pt - nt) * i / (len(ks) + 1)
    return out


def ref_squash(edges):
    """EdgeTable.squash(): adjacent edges (same parent and child, touching) merged; output sorted by
    (parent, child, left, right)."""
    rows = sorted(edges, key=lambda e: (e[2], e[3], e[0], e[1]))
    out = []
    for l, r, p, c, md in rows:
        if out and out[-1][2] == p and out[-1][3] == c and out[-1][1] == l:
            out[-1] = (out[-1][0], r, p, c, md)
        else:
            out.append((l, r, p, c, md))
    return out


def ref_canonical(m, remove_unreferenced=True):
    """canonicalise(): subset on all nodes (populations by first referencing node, unreferenced sites /
    individuals / populations removed unless kept), then sort() with mutations ordered by site, time, number
    of descendant mutations (most first), node, original order.  Individuals: see E2."""
    s = ref_subset(m, list(range(len(m.nodes))), True, remove_unreferenced)
    s = ref_sort(s)  # edges, sites (and mutation.site remap); mutation order redone below
    nm = len(s.mutations)
    ndesc = [0] * nm
    for k in range(nm):
        p = s.mutations[k][3]
        seen = 0
        while p != NULL and seen <= nm:
            ndesc[p] += 1
            p = s.mutations[p][3]
            seen += 1

    def key(k):
        mu = s.mutations[k]
        return (mu[0], -mu[4] if mu[4] is not None else 0.0, -ndesc[k], mu[1], k)

    order = sorted(range(nm), key=key)
    mmap = {old: new for new, old in enumerate(order)}
    s.mutations = [(a, u, d, mmap[p] if p != NULL else NULL, t, md)
                   for a, u, d, p, t, md in (s.mutations[k] for k in order)]
    return s


def individual_cycle(m):
    n = len(m.individuals)
    state = [0] * n
    for start in range(n):
        if state[start]:
            continue
        stack = [(start, iter(m.individuals[start][2]))]
        state[start] = 1
        while stack:
            i, it = stack[-1]
            nxt = next(it, None)
            if nxt is None:
                state[i] = 2
                stack.pop()
            elif nxt != NULL:
                if state[nxt] == 1:
                    return True
                if state[nxt] == 0:
                    state[nxt] = 1
                    stack.append((nxt, iter(m.individuals[nxt][2])))
    return False


# =========================================================================== workload

QUICK_N = 60000
THOROUGH_N = 3000000
KINDS = ["sort"] * 6 + ["repair"] * 5 + ["canon"] * 4 + ["parents"] * 2 + ["dedup", "sortind", "squash"]
EXH_BASES = {"quick": 6, "thorough": 60}
EXH_TABLES = ("edges", "sites", "mutations", "migrations", "individuals", "populations")


def cases(tier, seed):
    for b in range(EXH_BASES[tier]):
        for t in EXH_TABLES:
            yield {"gen": "exh", "base": b, "table": t, "rows": 4 if tier == "quick" else 5}
    n = QUICK_N if tier == "quick" else THOROUGH_N
    for k in range(n):
        yield {"gen": KINDS[k % len(KINDS)], "k": k}


def base_model(rng, migrations=None, big=None, tier="quick", **kw):
    big = (rng.random() < (0.3 if tier == "thorough" else 0.12)) if big is None else big
    migrations = (rng.random() < 0.4) if migrations is None else migrations
    if rng.random() < 0.05 and not kw:
        m = msprime_model(rng, migrations=migrations)
        if rng.random() < 0.6:
            gen.decorate_meta(rng, m, tables=("nodes", "edges", "sites", "mutations", "individuals", "populations",
                                              "migrations"))
        return m
    m = gen.gen_full(rng, max_nodes=16 if big else 8, max_bp=6 if big else 4, max_sites=8 if big else 5,
                     pops=True if migrations else (rng.random() < 0.6), meta=rng.random() < 0.75,
                     migrations=migrations, **kw)
    if m.migrations and rng.random() < 0.6:
        # ties on the leading migration sort keys, so that source / dest / left / node decide
        tv = [rng.randint(0, 8) / 2 for _ in range(2)]
        pv = [rng.randrange(len(m.populations)) for _ in range(2)]
        migs = list(m.migrations)
        migs += [rng.choice(migs) for _ in range(rng.randint(0, 3))]
        out = []
        for l, r, u, a, b, t, md in migs:
            if rng.random() < 0.5:
                l = rng.randint(0, 7) * m.L / 16
                r = l + rng.randint(1, 8) * m.L / 16
            out.append((l, r, rng.randrange(len(m.nodes)) if rng.random() < 0.5 else u,
                        rng.choice(pv) if rng.random() < 0.7 else a, rng.choice(pv) if rng.random() < 0.5 else b,
                        rng.choice(tv) if rng.random() < 0.8 else t, gen.rbytes(rng) if md else md))
        m.migrations = sorted(out, key=lambda g: g[5])
        m.tags.add("migration-key-ties")
    return m


def run_case(case, ctx):
    fn = {"sort": run_sort, "repair": run_repair, "canon": run_canon, "parents": run_parents,
          "dedup": run_dedup, "sortind": run_sortind, "squash": run_squash, "exh": run_exh}[case["gen"]]
    fn(case, ctx)


def feat(ctx, m, *extra):
    for t in m.tags:
        ctx.feature(t)
    for t in extra:
        ctx.feature(t)


# --------------------------------------------------------------------------- sort


def check_sort_call(ctx, m, edge_start, site_start, mutation_start, detail, tag="sort", pre_index=False):
    """Run tables.sort(...) on model m and compare with ref_sort.  Returns the sorted tables or None."""
    ne, ns, nmu = len(m.edges), len(m.sites), len(m.mutations)
    tc = to_tables(m)
    if pre_index:
        # an index over the not-yet-sorted rows (possible when the edges already meet the weaker validity
        # ordering): it must not survive the sort as a stale cache
        try:
            tc.build_index()
        except LIBERR:
            pre_index = False
    before = tables_bytes(tc)
    args = f"sort(edge_start={edge_start}, site_start={site_start}, mutation_start={mutation_start})"
    skip = (site_start == ns and mutation_start == nmu)
    valid_sm = skip or (site_start == 0 and mutation_start == 0)
    try:
        tc.sort(edge_start, site_start=site_start, mutation_start=mutation_start)
        err = None
    except LIBERR as e:
        err = e
    except (OverflowError, ValueError) as e:
        err = e
    if edge_start < 0:
        ctx.count("sort:negative-edge_start(either)")
        if err is None:
            ctx.violation(f"{tag}/negative-edge_start-accepted", f"{args} returned", detail)
        return None
    if edge_start > ne or not valid_sm:
        ctx.count("sort:invalid-start-rejected")
        if err is None or not isinstance(err, LIBERR):
            ctx.violation(f"{tag}/invalid-start-accepted",
                          f"{args} on {ne} edges, {ns} sites, {nmu} mutations: "
                          f"{'returned' if err is None else repr(err)}; the documentation allows edge_start <= "
                          f"len(edges) and (site_start, mutation_start) in {{(0, 0), (len, len)}} only", detail)
        return None
    if err is not None:
        ctx.violation(f"{tag}/raised", f"{args} raised {type(err).__name__}: {err}", detail)
        return None
    ctx.count("sort:ref")
    got, bad = read_back(tc)
    if bad:
        which = sorted({f"{t}.{c}" for t, c, _ in bad})
        if edge_start > 0 and which == ["edges.metadata_offset"]:
            key = f"{tag}/edge_start-metadata-offsets"
        else:
            key = f"{tag}/broken-offsets/" + ",".join(which)
        ctx.violation(key, f"{args}: ragged column offsets invalid after the call: "
                           f"{[(t, c, o) for t, c, o in bad][:2]} (input edges {m.edges})", detail)
        return None
    exp = ref_sort(m, edge_start=edge_start, skip_sites=skip)
    nomd = lambda mm: _with_edges(mm, [e[:4] + (b"",) for e in mm.edges])  # noqa: E731
    for name, msg in diff_models(got, exp, edge_start=edge_start)[:3]:
        key = f"{tag}/{name}"
        if name == "edges" and edge_start > 0 and not [x for x in diff_models(nomd(got), nomd(exp), edge_start=edge_start)
                                                       if x[0] == "edges"]:
            key = f"{tag}/edge_start-metadata-offsets"  # same rows, metadata attached to the wrong ones
        ctx.violation(key, f"{args} {name}: {msg}", detail)
    # nodes, individuals, populations, provenances: byte-identical columns
    after = tables_bytes(tc)
    untouched = ("/nodes/", "/individuals/", "/populations/", "/provenances/", "/sequence_length", "/metadata",
                 "/time_units", "/reference_sequence")
    if skip:
        untouched += ("/sites/", "/mutations/")
    b = {k: v for k, _, v in before if k.startswith(untouched)}
    a = {k: v for k, _, v in after if k.startswith(untouched)}
    ctx.count("sort:untouched-tables")
    if a != b:
        diff = sorted(k for k in set(a) | set(b) if a.get(k) != b.get(k))
        ctx.violation(f"{tag}/untouched-table-changed", f"{args} changed columns {diff}", detail)
    if pre_index:
        ctx.count("sort:indexed-input")
    if pre_index and tc.has_index():
        # sort() kept an index: it must be the index of the rows as they are now (dropping it is fine too)
        ctx.count("sort:index-after-sort")
        msg = stale_index(tc)
        if msg:
            ctx.violation(f"{tag}/stale-index", f"{args}: {msg}; input edges {m.edges}", detail)
    # idempotence
    ctx.count("sort:idempotent")
    try:
        tc.sort(edge_start, site_start=ns if skip else 0, mutation_start=nmu if skip else 0)
        again = tables_bytes(tc) if not bad_offsets(tc) else None
    except LIBERR as e:
        again = repr(e)
    if again != after:
        ctx.violation(f"{tag}/not-idempotent", f"{args} applied twice differs from once", detail)
    return tc


def _with_edges(m, edges):
    o = m.copy()
    o.edges = edges
    return o


def sort_args(rng, m):
    ne, ns, nmu = len(m.edges), len(m.sites), len(m.mutations)
    r = rng.random()
    if r < 0.3:
        es = 0
    elif r < 0.45:
        es = min(1, ne)
    elif r < 0.8:
        es = rng.randint(0, ne)
    elif r < 0.9:
        es = ne
    elif r < 0.96:
        es = ne + rng.choice([1, 2, 1000])
    else:
        es = -rng.choice([1, 2, 2 ** 31])
    r = rng.random()
    if r < 0.55:
        ss, ms = 0, 0
    elif r < 0.85:
        ss, ms = ns, nmu
    else:
        ss = rng.choice([0, ns, rng.randint(0, ns + 1), 1])
        ms = rng.choice([0, nmu, rng.randint(0, nmu + 1), 1])
    return es, ss, ms


def run_sort(case, ctx):
    rng = case_rng(case)
    m = base_model(rng, tier=case["tier"])
    if rng.random() < 0.3:
        m = split_sites(rng, m, same_ancestral=False)
    if rng.random() < 0.15:
        # sort() needs referential integrity only: arbitrary (in-range) mutation parents must follow the rows
        arbitrary_parents(rng, m)
    sm = scramble(rng, m, free_mutations=rng.random() < 0.5)
    pre = rng.random() < 0.3
    if rng.random() < 0.12:
        # edges in a *valid* order that is not sort()'s order: parents of equal time in random id order
        rank = {u: rng.random() for u in range(len(sm.nodes))}
        eo = sorted(range(len(sm.edges)), key=lambda j: (sm.nodes[sm.edges[j][2]][1], rank[sm.edges[j][2]],
                                                         sm.edges[j][3], sm.edges[j][0]))
        sm = apply_orders(sm, edges=eo)
        sm.tags.add("edges-valid-but-not-sort-order")
        pre = True
    es, ss, ms = sort_args(rng, sm)
    feat(ctx, sm, f"sort:edge_start={'0' if es == 0 else ('len' if es == len(sm.edges) else ('k' if 0 < es < len(sm.edges) else 'invalid'))}",
         f"sort:site/mutation_start={'0,0' if (ss, ms) == (0, 0) else ('len,len' if (ss, ms) == (len(sm.sites), len(sm.mutations)) else 'mixed')}")
    if any(e[4] for e in sm.edges) and 0 < es < len(sm.edges):
        ctx.feature("sort:edge_start>0+edge-metadata")
    _sig(ctx, case, ("sort", sm.signature(), es, ss, ms), nontrivial=len(sm.edges) + len(sm.mutations) + len(sm.migrations) > 1)
    detail = {"model": sm.to_json(), "edge_start": es, "site_start": ss, "mutation_start": ms}
    if case["k"] < 40:
        ctx.sample({"case": case, **detail})
    if pre:
        ctx.feature("sort:index-attempted")
    check_sort_call(ctx, sm, es, ss, ms, detail, pre_index=pre)


# --------------------------------------------------------------------------- repair pipeline


def step(ctx, tc, name, fn, detail, expect_error=False):
    try:
        fn()
    except LIBERR as e:
        ctx.violation(f"repair/{name}-raised", f"{name}() raised on a logically consistent collection: {e}", detail)
        return False
    bad = bad_offsets(tc)
    if bad:
        ctx.violation(f"repair/{name}-broken-offsets", f"{name}(): {bad[:2]}", detail)
        return False
    if name != "build_index":
        msg = stale_index(tc)
        ctx.count("repair:index-consistent")
        if msg:
            ctx.violation(f"repair/{name}-stale-index", f"{name}(): {msg}", detail)
            return False
    return True


def compare_step(ctx, tc, exp, name, detail):
    got = from_tables(tc)
    d = diff_models(got, exp)
    for t, msg in d[:3]:
        ctx.violation(f"repair/{name}/{t}", f"after {name}: {t}: {msg}", detail)
    return not d


def run_repair(case, ctx):
    rng = case_rng(case)
    base = base_model(rng, tier=case["tier"])  # valid tree sequence: the content to be preserved
    unknown = not any(mu[4] is not None for mu in base.mutations)
    dup = split_sites(rng, base, same_ancestral=not unknown) if rng.random() < 0.6 else base.copy()
    pmode = rng.choice(["kept", "null", "arbitrary"])
    nmu = len(dup.mutations)
    if pmode == "null":
        dup.mutations = [(s, u, d, NULL, t, md) for s, u, d, p, t, md in dup.mutations]
    elif pmode == "arbitrary":
        arbitrary_parents(rng, dup)
    scr = scramble(rng, dup)
    with_times = rng.random() < 0.35
    feat(ctx, scr, f"repair:parents-{pmode}", f"repair:times={'unknown' if unknown else 'known'}",
         "repair:compute_mutation_times" if with_times else "repair:no-compute_mutation_times")
    _sig(ctx, case, ("repair", scr.signature(), with_times), nontrivial=len(base.edges) > 0 and (len(base.mutations) > 0 or
                                                                                         len(base.edges) > 2))
    detail = {"scrambled": scr.to_json(), "base": base.to_json(), "with_times": with_times}
    if case["k"] < 40:
        ctx.sample({"case": case, "scrambled": scr.to_json()})
    tc = to_tables(scr)
    ref = scr
    # 1 sort
    if not step(ctx, tc, "sort", tc.sort, detail):
        return
    ref = ref_sort(ref)
    ok = compare_step(ctx, tc, ref, "sort", detail)
    # 2 deduplicate_sites
    if not step(ctx, tc, "deduplicate_sites", tc.deduplicate_sites, detail):
        return
    ref = ref_dedup_sites(ref)
    ctx.count("repair:deduplicate_sites")
    ok = compare_step(ctx, tc, ref, "deduplicate_sites", detail) and ok
    # 3 sort again (deduplicate_sites warns that mutations may no longer be sorted by time)
    if not step(ctx, tc, "sort", tc.sort, detail):
        return
    ref = ref_sort(ref)
    # 4 index + parents
    if not step(ctx, tc, "build_index", tc.build_index, detail):
        return
    if not tc.has_index():
        ctx.violation("repair/build_index-no-index", "has_index() is False after build_index()", detail)
    if not step(ctx, tc, "compute_mutation_parents", tc.compute_mutation_parents, detail):
        return
    par = mutation_parents(ref)
    ref.mutations = [(s, u, d, par[k], t, md) for k, (s, u, d, _, t, md) in enumerate(ref.mutations)]
    ctx.count("repair:compute_mutation_parents")
    ok = compare_step(ctx, tc, ref, "compute_mutation_parents", detail) and ok
    # 5 optional times
    if with_times:
        if not step(ctx, tc, "compute_mutation_times", tc.compute_mutation_times, detail):
            return
        ctx.count("repair:compute_mutation_times")
        want = ref_mutation_times(ref)
        got = from_tables(tc)
        # the call may have re-sorted the rows: match them through (site, node, derived, metadata, rank on branch)
        if len(got.mutations) != len(ref.mutations):
            ctx.violation("repair/compute_mutation_times/rows", "row count changed", detail)
            return
        wt = _msorted([(mu[0], mu[1], mu[2], mu[5], round_key(want[k])) for k, mu in enumerate(ref.mutations)])
        gt = _msorted([(mu[0], mu[1], mu[2], mu[5], round_key(mu[4])) for mu in got.mutations])
        if not times_match(wt, gt):
            ctx.violation("repair/compute_mutation_times/values",
                          "times differ from 'evenly spread between node and parent node, node time above a root': "
                          + _first_diff(gt, wt), detail)
            ok = False
        else:
            # adopt the observed values (rounding, E4) and the documented re-sort
            ref = adopt_times(ref, want, got)
            ref = ref_sort(ref)
            ok = compare_step(ctx, tc, ref, "compute_mutation_times", detail) and ok
    # 6 final sort, load
    if not step(ctx, tc, "sort", tc.sort, detail):
        return
    ref = ref_sort(ref)
    ok = compare_step(ctx, tc, ref, "final-sort", detail) and ok
    if not step(ctx, tc, "build_index", tc.build_index, detail):
        return
    ctx.count("repair:loads")
    try:
        ts = tc.tree_sequence()
    except LIBERR as e:
        ctx.violation("repair/result-does-not-load", f"repaired collection rejected by tree_sequence(): {e}", detail)
        return
    check_same_content(ctx, ts, base, detail)


def round_key(t):
    return None if t is None else float(t)


def times_match(want, got):
    if len(want) != len(got):
        return False
    for w, g in zip(want, got):
        if w[:4] != g[:4]:
            return False
        if (w[4] is None) != (g[4] is None):
            return False
        if w[4] is not None and not isclose(w[4], g[4]):
            return False
    return True


def adopt_times(ref, want, got):
    """Replace each reference time by the observed value it was matched with (same site/node/state/metadata,
    nearest value)."""
    pool = {}
    for mu in got.mutations:
        pool.setdefault((mu[0], mu[1], mu[2], mu[5]), []).append(mu[4])
    out = ref.copy()
    muts = []
    for k, (s, u, d, p, t, md) in enumerate(ref.mutations):
        cand = pool[(s, u, d, md)]
        j = min(range(len(cand)), key=lambda i: abs(cand[i] - want[k]))
        muts.append((s, u, d, p, cand.pop(j), md))
    out.mutations = muts
    return out


def check_same_content(ctx, ts, base, detail):
    """The loaded tree sequence encodes the trees and genotypes of the original (unscrambled) collection."""
    bps = base.breakpoints()
    ctx.count("repair:trees")
    got_bps = list(ts.breakpoints())
    if got_bps != bps:
        ctx.violation("repair/content-breakpoints", f"breakpoints {got_bps} expected {bps}", detail)
        return
    for tree in ts.trees():
        x = (tree.interval.left + tree.interval.right) / 2
        want = base.forest_at(x)
        got = {int(c): int(p) for c, p in tree.parent_dict.items()}
        if got != want:
            ctx.violation("repair/content-trees", f"tree at {x}: parents {got} expected {want}", detail)
            return
    for tree in reversed(ts.trees()):
        x = (tree.interval.left + tree.interval.right) / 2
        want = base.forest_at(x)
        got = {int(c): int(p) for c, p in tree.parent_dict.items()}
        if got != want:
            ctx.violation("repair/content-trees", f"tree at {x} (reverse iteration): parents {got} expected {want}",
                          detail)
            return
    n = len(base.nodes)
    if ts.num_sites != len(base.sites):
        ctx.violation("repair/content-sites", f"{ts.num_sites} sites, original has {len(base.sites)}", detail)
        return
    if n == 0:
        return
    for v in ts.variants(samples=list(range(n)), isolated_as_missing=False):
        j = v.site.id
        ctx.count("repair:genotypes")
        if v.site.position != base.sites[j][0]:
            ctx.violation("repair/content-sites", f"site {j} at {v.site.position} expected {base.sites[j][0]}", detail)
            return
        fr = forest(base, base.sites[j][0])
        got = [v.alleles[g] for g in v.genotypes]
        want = [allele_at(base, fr, j, u) for u in range(n)]
        if got != want:
            ctx.violation("repair/content-genotypes", f"site {j} (position {v.site.position}): alleles per node {got} "
                                                      f"expected {want}", detail)
            return


# --------------------------------------------------------------------------- canonicalise


def run_canon(case, ctx):
    rng = case_rng(case)
    with_migs = rng.random() < 0.08
    m = base_model(rng, migrations=with_migs, tier=case["tier"])
    remove = rng.random() < 0.7
    if remove:
        tabs = None
    else:
        # unreferenced individuals / populations are documented to keep "their original order": both copies get
        # the same individual and population order, every other table is permuted independently
        tabs = {t for t in ("edges", "sites", "mutations", "migrations") if rng.random() < 0.85}
        m = scramble(rng, m, tables={"individuals", "populations"})
    s1 = scramble(rng, m, free_mutations=True, tables=tabs)
    s2 = scramble(rng, m, free_mutations=True, tables=tabs)
    feat(ctx, m, f"canon:remove_unreferenced={int(remove)}", "canon:migrations" if m.migrations else "canon:no-migrations")
    _sig(ctx, case, ("canon", s1.signature(), s2.signature(), remove),
            nontrivial=(not m.migrations) and len(m.edges) > 1 and s1.signature() != s2.signature())
    detail = {"scramble1": s1.to_json(), "scramble2": s2.to_json(), "remove_unreferenced": remove}
    if case["k"] < 40:
        ctx.sample({"case": case, "scramble1": s1.to_json()})
    outs = []
    omit_default = rng.random() < 0.5
    for s in (s1, s2):
        tc = to_tables(s)
        try:
            if remove and omit_default:
                tc.canonicalise()
            else:
                tc.canonicalise(remove_unreferenced=remove)
            outs.append(tc)
        except LIBERR as e:
            outs.append(e)
    if m.migrations:
        ctx.count("canon:migrations(either)")  # E3
        for o in outs:
            if not isinstance(o, LIBERR) and o.migrations.num_rows != len(m.migrations):
                ctx.violation("canonicalise/migrations-lost", f"canonicalise() returned with {o.migrations.num_rows} "
                                                              f"of {len(m.migrations)} migrations", detail)
        return
    for o in outs:
        if isinstance(o, LIBERR):
            ctx.violation("canonicalise/raised", f"canonicalise(remove_unreferenced={remove}) raised {o}", detail)
            return
        bad = bad_offsets(o)
        if bad:
            ctx.violation("canonicalise/broken-offsets", f"{bad[:2]}", detail)
            return
    ctx.count("canon:two-scrambles-identical")
    b1, b2 = tables_bytes(outs[0]), tables_bytes(outs[1])
    if b1 != b2:
        cols = [k1 for (k1, _, v1), (k2, _, v2) in zip(b1, b2) if v1 != v2]
        g1, g2 = from_tables(outs[0]), from_tables(outs[1])
        d = diff_models(g1, g2)
        ctx.violation("canonicalise/order-dependent",
                      f"canonicalise(remove_unreferenced={remove}) of two row-permuted copies differs in columns "
                      f"{cols[:6]}: {d[:2]}", detail)
    # against the reference canonical form
    ctx.count("canon:ref")
    for s, o in ((s1, outs[0]), (s2, outs[1])):
        got = from_tables(o)
        exp = ref_canonical(s, remove)
        d = diff_models(mask_individuals(got), mask_individuals(exp))
        d += [("individuals", x) for x in compare_individuals(got, s, list(range(len(s.nodes))), remove)]
        for name, msg in d[:3]:
            ctx.violation(f"canonicalise/{name}", f"canonicalise(remove_unreferenced={remove}) {name}: {msg}", detail)
        if d:
            break
    # individuals end up parents-first? (documented for sort_individuals only; not asserted)  idempotence:
    ctx.count("canon:idempotent")
    try:
        outs[0].canonicalise(remove_unreferenced=remove)
        if tables_bytes(outs[0]) != b1:
            ctx.violation("canonicalise/not-idempotent", "canonicalise twice differs from once", detail)
    except LIBERR as e:
        ctx.violation("canonicalise/raised", f"second canonicalise raised {e}", detail)


# --------------------------------------------------------------------------- compute_mutation_parents


def run_parents(case, ctx):
    rng = case_rng(case)
    m = gen.gen_topology(rng, max_nodes=10, max_bp=4)
    gen.decorate_sites(rng, m, max_sites=5, max_muts=rng.choice([4, 6, 9]))
    if rng.random() < 0.5:
        gen.decorate_meta(rng, m)
    want = [mu[3] for mu in m.mutations]
    nmu = len(m.mutations)
    mode = rng.choice(["null", "arbitrary", "kept", "swap"])
    w = m.copy()
    swapped = None
    if mode == "swap":
        # a mutation listed before the mutation above it on a *different* node: must be refused
        pairs = [(k, mu[3]) for k, mu in enumerate(m.mutations) if mu[3] != NULL and m.mutations[mu[3]][1] != mu[1]
                 and m.mutations[mu[3]][4] == mu[4]]
        if not pairs:
            mode = "null"
        else:
            c, p = rng.choice(pairs)
            rows = list(w.mutations)
            rows[c], rows[p] = rows[p], rows[c]
            w.mutations = [(s, u, d, NULL, t, md) for s, u, d, _, t, md in rows]
            swapped = (p, c)
    if mode == "null":
        w.mutations = [(s, u, d, NULL, t, md) for s, u, d, p, t, md in w.mutations]
    elif mode == "arbitrary":
        arbitrary_parents(rng, w)
    feat(ctx, m, f"parents:{mode}")
    multi = sum(1 for x in want if x != NULL)
    _sig(ctx, case, ("parents", w.signature()), nontrivial=multi > 0)
    detail = {"model": w.to_json(), "mode": mode}
    if case["k"] < 40:
        ctx.sample({"case": case, "model": w.to_json()})
    tc = to_tables(w)
    tc.build_index()
    before = tables_bytes(tc)
    try:
        tc.compute_mutation_parents()
        err = None
    except LIBERR as e:
        err = e
    if mode == "swap":
        ctx.count("parents:child-before-parent-rejected")
        # only decidable when the swapped order is not itself a valid one (several mutations on unrelated
        # branches): the reference parents of the swapped rows must then point forward
        if err is None:
            got = from_tables(tc)
            fwd = [k for k, mu in enumerate(got.mutations) if mu[3] > k]
            refp = mutation_parents(w)
            if [mu[3] for mu in got.mutations] != refp or fwd:
                ctx.violation("compute_mutation_parents/child-before-parent-accepted",
                              f"mutation rows {swapped} swapped (child listed before the mutation above it on another "
                              f"node); no error, parents {[mu[3] for mu in got.mutations]}", detail)
        return
    if err is not None:
        ctx.violation("compute_mutation_parents/raised", f"raised on a valid sorted collection: {err}", detail)
        return
    ctx.count("parents:ref")
    got = from_tables(tc)
    gp = [mu[3] for mu in got.mutations]
    if gp != want:
        ctx.violation("compute_mutation_parents/wrong-parent",
                      f"parents {gp} expected {want} (nearest mutation above at the site); mutations "
                      f"{[(mu[0], mu[1]) for mu in m.mutations]}", detail)
    after = tables_bytes(tc)
    diff = sorted(k for (k, _, v), (_, _, v2) in zip(before, after) if v != v2 and k != "/mutations/parent")
    if diff:
        ctx.violation("compute_mutation_parents/other-columns-changed", f"changed {diff}", detail)


# --------------------------------------------------------------------------- deduplicate_sites


def run_dedup(case, ctx):
    rng = case_rng(case)
    base = base_model(rng, migrations=False, tier=case["tier"])
    m = split_sites(rng, base, same_ancestral=False)
    unsorted = rng.random() < 0.25 and len({s[0] for s in m.sites}) > 1
    if unsorted:
        m = scramble(rng, m, tables={"sites"})
        pos = [s[0] for s in m.sites]
        if pos == sorted(pos):
            unsorted = False
    feat(ctx, m, "dedup:unsorted" if unsorted else "dedup:sorted")
    _sig(ctx, case, ("dedup", m.signature()), nontrivial=len(m.sites) > len({s[0] for s in m.sites}))
    detail = {"model": m.to_json()}
    tc = to_tables(m)
    before = tables_bytes(tc)
    try:
        tc.deduplicate_sites()
        err = None
    except LIBERR as e:
        err = e
    if unsorted:
        ctx.count("dedup:unsorted-rejected")
        if err is None:
            ctx.violation("deduplicate_sites/unsorted-accepted",
                          f"site positions {[s[0] for s in m.sites]} are not sorted but deduplicate_sites() returned",
                          detail)
        return
    if err is not None:
        ctx.violation("deduplicate_sites/raised", f"raised {err}", detail)
        return
    ctx.count("dedup:ref")
    got, bad = read_back(tc)
    if bad:
        ctx.violation("deduplicate_sites/broken-offsets", f"{bad[:2]}", detail)
        return
    exp = ref_dedup_sites(m)
    for name in ("sites", "mutations"):
        if getattr(got, name) != getattr(exp, name):
            ctx.violation(f"deduplicate_sites/{name}", f"{name}: " + _first_diff(getattr(got, name), getattr(exp, name))
                          + f" (input sites {m.sites})", detail)
    after = tables_bytes(tc)
    diff = sorted(k for (k, _, v), (_, _, v2) in zip(before, after)
                  if v != v2 and not k.startswith(("/sites/", "/mutations/site")))
    if diff:
        ctx.violation("deduplicate_sites/other-columns-changed", f"changed {diff}", detail)


# --------------------------------------------------------------------------- sort_individuals


def run_sortind(case, ctx):
    rng = case_rng(case)
    m = gen.gen_topology(rng, max_nodes=8, max_bp=2)
    nind = rng.randint(0, 7)
    gen.decorate_pops_inds(rng, m, npop=rng.randint(0, 2), nind=nind, ordered_parents=rng.random() < 0.3)
    if rng.random() < 0.7:
        gen.decorate_meta(rng, m, tables=("nodes", "individuals", "populations"))
    m = scramble(rng, m, tables={"individuals"})
    selfp = any(i in par for i, (_, _, par, _) in enumerate(m.individuals))
    cyc = individual_cycle(m)
    feat(ctx, m, "sortind:cycle" if cyc else "sortind:acyclic")
    _sig(ctx, case, ("sortind", m.signature()), nontrivial=len(m.individuals) > 1)
    detail = {"model": m.to_json()}
    tc = to_tables(m)
    before = tables_bytes(tc)
    try:
        tc.sort_individuals()
        err = None
    except LIBERR as e:
        err = e
    if cyc or selfp:
        ctx.count("sortind:cycle-rejected")
        if err is None:
            ctx.violation("sort_individuals/cycle-accepted", f"individual parents {[i[2] for i in m.individuals]} contain "
                                                             f"a cycle but sort_individuals() returned", detail)
        return
    if err is not None:
        ctx.violation("sort_individuals/raised", f"raised {err}", detail)
        return
    ctx.count("sortind:ref")
    got, bad = read_back(tc)
    if bad:
        ctx.violation("sort_individuals/broken-offsets", f"{bad[:2]}", detail)
        return
    for i, (_, _, par, _) in enumerate(got.individuals):
        if any(p != NULL and p >= i for p in par):
            ctx.violation("sort_individuals/parent-after-child", f"individual {i} has parents {par}", detail)
            return
    # consistent remapping: recover the permutation from rows; duplicates make it ambiguous, so verify by
    # searching for a bijection row-by-row through content + mapped parents
    msg = match_permuted_individuals(m, got)
    if msg:
        ctx.violation("sort_individuals/content", msg, detail)
    if [nd[:3] + nd[4:] for nd in got.nodes] != [nd[:3] + nd[4:] for nd in m.nodes]:
        ctx.violation("sort_individuals/nodes-changed", "node columns other than individual changed", detail)
    after = tables_bytes(tc)
    diff = sorted(k for (k, _, v), (_, _, v2) in zip(before, after)
                  if v != v2 and not k.startswith(("/individuals/", "/nodes/individual")))
    if diff:
        ctx.violation("sort_individuals/other-columns-changed", f"changed {diff}", detail)


def match_permuted_individuals(src, got):
    """Is got.individuals a permutation of src.individuals with parents and node.individual remapped
    consistently?  Individuals are identified through an iteratively refined content signature."""
    n = len(src.individuals)
    if len(got.individuals) != n:
        return f"{len(got.individuals)} individuals, expected {n}"

    def refine(mm):
        refs = {}
        for u, nd in enumerate(mm.nodes):
            if nd[3] != NULL:
                refs.setdefault(nd[3], []).append(u)
        sig = [repr((ind[0], ind[1], ind[3], len(ind[2]), tuple(refs.get(i, [])))) for i, ind in enumerate(mm.individuals)]
        for _ in range(n + 1):
            sig = [repr((sig[i], tuple(sig[p] if p != NULL else None for p in mm.individuals[i][2])))
                   for i in range(len(sig))]
        return sig

    a, b = refine(src), refine(got)
    if sorted(a) != sorted(b):
        return ("individual rows (flags, location, metadata, parents and referencing nodes, followed through the "
                f"parent links) are not a consistent permutation of the input: got {got.individuals} "
                f"nodes.individual {[nd[3] for nd in got.nodes]}; input {src.individuals} "
                f"nodes.individual {[nd[3] for nd in src.nodes]}")
    return None


# --------------------------------------------------------------------------- EdgeTable.squash


def run_squash(case, ctx):
    rng = case_rng(case)
    m = gen.gen_topology(rng, max_nodes=8, max_bp=6, unsquashed=rng.random() < 0.7)
    with_md = rng.random() < 0.15
    edges = list(m.edges)
    # split some edges further at dyadic points
    out = []
    for l, r, p, c, md in edges:
        if rng.random() < 0.4:
            mid = (l + r) / 2
            out += [(l, mid, p, c, b""), (mid, r, p, c, b"")]
        else:
            out.append((l, r, p, c, b""))
    rng.shuffle(out)
    if with_md and out:
        j = rng.randrange(len(out))
        out[j] = out[j][:4] + (b"x",)
    feat(ctx, m, "squash:metadata" if with_md and out else "squash:plain")
    _sig(ctx, case, ("squash", tuple(out)), nontrivial=len(ref_squash(out)) < len(out))
    detail = {"edges": [list(e[:4]) for e in out]}
    t = tskit.EdgeTable()
    for l, r, p, c, md in out:
        t.add_row(l, r, p, c, metadata=md)
    try:
        t.squash()
        err = None
    except LIBERR as e:
        err = e
    if with_md and out:
        ctx.count("squash:metadata-rejected")
        if err is None:
            ctx.violation("squash/metadata-accepted", "squash() with non-empty edge metadata returned", detail)
        return
    if err is not None:
        ctx.violation("squash/raised", f"raised {err}", detail)
        return
    ctx.count("squash:ref")
    got = [(float(t.left[j]), float(t.right[j]), int(t.parent[j]), int(t.child[j]), b"") for j in range(t.num_rows)]
    exp = ref_squash(out)
    if got != exp:
        ctx.violation("squash/rows", "squash(): " + _first_diff(got, exp) + f" input {out}", detail)
    # content: same {child: parent} at every position
    mm = m.copy()
    mm.edges = got
    for x in sorted({e[0] for e in out} | {(e[0] + e[1]) / 2 for e in out}):
        if mm.forest_at(x) != m.forest_at(x):
            ctx.violation("squash/content", f"forest at {x} changed: {mm.forest_at(x)} expected {m.forest_at(x)}", detail)
            break


# --------------------------------------------------------------------------- exhaustive small scope


def exh_base(b, rows):
    """Deterministic small collection number b with exactly `rows` edges / sites / mutations / migrations where
    possible (metadata everywhere, individuals and populations present)."""
    import random
    for attempt in range(2000):
        rng = random.Random(f"c07-exh-{b}-{attempt}")
        m = gen.gen_topology(rng, max_nodes=6, max_bp=3)
        if len(m.edges) < rows:
            continue
        # keep exactly `rows` edges (any sub-collection of a valid edge set is valid)
        m.edges = sorted(rng.sample(m.edges, rows), key=edge_key(m))
        gen.decorate_pops_inds(rng, m, npop=rows - 1, nind=rows)
        gen.decorate_sites(rng, m, max_sites=rows, max_muts=3, known_times=(b % 2 == 0))
        if len(m.sites) < 2 or len(m.mutations) < 2:
            continue
        while len(m.mutations) > rows:
            # drop trailing mutations (parents stay valid: a parent precedes its child)
            m.mutations.pop()
        while len(m.sites) > rows:
            j = len(m.sites) - 1
            m.sites.pop()
            m.mutations = [mu for mu in m.mutations if mu[0] != j]
        if b % 3 != 0:
            gen.decorate_migrations(rng, m, maxn=rows)
            if len(m.migrations) < 2:
                continue
        gen.decorate_meta(rng, m, tables=("nodes", "edges", "sites", "mutations", "individuals", "populations",
                                          "migrations"))
        par = mutation_parents(m)
        m.mutations = [(s, u, d, par[k], t, md) for k, (s, u, d, _, t, md) in enumerate(m.mutations)]
        return m
    raise RuntimeError("no base")


def run_exh(case, ctx):
    m = exh_base(case["base"], case["rows"])
    table = case["table"]
    n = len(getattr(m, table))
    ctx.feature(f"exh:{table}:{n}-rows")
    _sig(ctx, case, ("exh", case["base"], table, m.signature()), nontrivial=n > 1)
    outs = set()
    canon = set()
    keys_unique = True
    if table == "edges":
        ks = [edge_key(m)(e) for e in m.edges]
        keys_unique = len(set(ks)) == len(ks)
    if table == "migrations":
        ks = [(g[5], g[3], g[4], g[0], g[2]) for g in m.migrations]
        keys_unique = len(set(ks)) == len(ks)
    for perm in itertools.permutations(range(n)):
        pm = apply_orders(m, **{table: list(perm)})
        detail = {"model": pm.to_json(), "perm": list(perm), "table": table}
        ctx.count(f"exh:{table}-permutations")
        if table == "edges":
            starts = sorted({0, 1, n // 2, n})
        else:
            starts = [0]
        for es in starts:
            tc = check_sort_call(ctx, pm, es, 0, 0, detail, tag="sort")
            if tc is not None and es == 0:
                outs.add(repr(tables_bytes(tc)))
        if not m.migrations:
            tc = to_tables(pm)
            try:
                tc.canonicalise()
                canon.add(repr(tables_bytes(tc)))
            except LIBERR as e:
                ctx.violation("canonicalise/raised", f"raised {e}", detail)
    # every permutation of one table sorts to the same collection when the keys are a total order
    # (sites/mutations: sort is stable, so different input orders of tied rows legitimately differ)
    if table in ("edges", "migrations") and keys_unique:
        ctx.count("exh:all-permutations-same-result")
        if len(outs) > 1:
            ctx.violation("sort/order-dependent", f"{len(outs)} different results of sort() over all permutations of "
                                                  f"{table} rows", {"model": m.to_json(), "table": table})
    if not m.migrations:
        ctx.count("exh:canonicalise-all-permutations-same-result")
        if len(canon) > 1:
            ctx.violation("canonicalise/order-dependent", f"{len(canon)} different canonical forms over all permutations "
                                                          f"of {table} rows", {"model": m.to_json(), "table": table})
