from lib.props.meta_common import ASSUME_COMMON

ID = "C12"
META = dict(
    LEVEL="exploration",
    RULE=("random struct-codec schemas (depth <= 3, occasionally 5; 0-6 properties per object, arrays of "
          "scalars/objects/arrays with every length prefix B/H/I/L/Q, fixed `length`, exhaust-buffer arrays (top level or "
          "last member of the last nested object), every numeric/bool/char/Ns/Np/pad format incl. counts with leading "
          "zeros, stringEncoding, nullTerminated, explicit/tied/missing/mixed `index`, defaults at every level, "
          "explicit or implied `required`, object|null top level, JSON-Schema validation keywords minimum/maximum/"
          "enum/maxLength/minItems/maxItems; forced in a fixed share of schemas: a one-byte-prefix array at capacity "
          "255/256 and a string field > 64 KiB) and JSON-codec schemas (typed properties, top-level defaults incl. "
          "mutable ones, required, additionalProperties, object|null top level, permissive + annotation-only, "
          "property-less schemas constrained by 15 other keywords) x 4-6 conforming objects with boundary values x "
          "non-conforming mutations (rare classes forced whenever the schema allows them) x meta-schema-violating "
          "schemas; each schema is also attached to one of the seven table classes / top-level / reference-sequence "
          "metadata and driven through add_row, append, row assignment (own rows, rows of another schema, rows handed "
          "out by a TreeSequence), packset_metadata, metadata_vector (name, list of names, default_value), derived "
          "tables (copy, slices, index arrays, masks, pickle), tree_sequence() accessors incl. edge_diffs in both "
          "directions and split_edges/decapitate(metadata=...), and the numpy structured view (bytes, int8 array, "
          "bytearray, memoryview, empty).  Two small families cover the null schema (raw bytes) in all its three "
          "spellings and arrays at the capacity of a one/two-byte length prefix.  Real bytes and decoded objects are "
          "compared with a reference codec written from docs/metadata.md.  A case is distinct by the canonical JSON "
          "of (schema, objects) and non-trivial when the schema was accepted and has at least one property."),
    REQUIRED=["struct/roundtrip", "struct/layout", "struct/string-form", "struct/numpy-view",
              "struct/nonconforming-rejected", "table/add_row-roundtrip", "table/nonconforming-rejected",
              "schema/invalid-rejected", "json/roundtrip", "json/nonconforming-rejected",
              "schema/handed-out-dict-isolated", "json/default-not-aliased", "table/ts-row-assign",
              "table/derived-table", "null-schema/roundtrip"],
    ASSUMPTIONS=ASSUME_COMMON + [
        "the reference struct codec (lib/props/c12.py, written from docs/metadata.md) states the documented layout",
        "a property without `index` sorts as if it had some fixed index among {0, -inf, +inf} (docs are silent on "
        "mixing indexed and unindexed properties; all three readings are accepted)",
        "property names are compared by code point (generated names make that equal to alphabetical order except "
        "where all indexes are explicit and distinct)",
        "stringEncoding is restricted to utf-8/ascii/latin-1 and the utf-16/utf-32 family, where 'first null' is read "
        "as the first null character of the decoded text",
        "JSON-Schema validation itself (jsonschema package) is trusted; the check only establishes that tskit consults "
        "it on every insertion path",
    ],
    BUDGET={"quick": 50.0, "thorough": 840.0},
    CASE_TIMEOUT={"quick": 90, "thorough": 300},
)
