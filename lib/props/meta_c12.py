from lib.props.meta_common import ASSUME_COMMON

ID = "C12"
META = dict(
    LEVEL="exploration",
    RULE=("random struct-codec schemas (depth <= 3, 0-6 properties per object, arrays of scalars/objects/arrays with "
          "every length prefix B/H/I/L/Q, fixed `length`, exhaust-buffer arrays, every numeric/bool/char/Ns/Np/pad "
          "format, stringEncoding, nullTerminated, explicit/tied/missing/mixed `index`, defaults at every level, "
          "explicit or implied `required`, object|null top level) and JSON-codec schemas (typed properties, "
          "top-level defaults, required, additionalProperties, permissive) x 4-6 conforming objects with boundary "
          "values x non-conforming mutations x meta-schema-violating schemas; each schema is also attached to one of "
          "the seven table classes / top-level / reference-sequence metadata and driven through add_row, append, "
          "row assignment, packset_metadata, tree_sequence() accessors and the numpy structured view.  Real bytes "
          "and decoded objects are compared with a reference codec written from docs/metadata.md.  A case is "
          "distinct by the canonical JSON of (schema, objects) and non-trivial when the schema was accepted and has "
          "at least one property."),
    REQUIRED=["struct/roundtrip", "struct/layout", "struct/string-form", "struct/numpy-view",
              "struct/nonconforming-rejected", "table/add_row-roundtrip", "table/nonconforming-rejected",
              "schema/invalid-rejected", "json/roundtrip", "json/nonconforming-rejected"],
    ASSUMPTIONS=ASSUME_COMMON + [
        "the reference struct codec (lib/props/c12.py, written from docs/metadata.md) states the documented layout",
        "a property without `index` sorts as if it had some fixed index among {0, -inf, +inf} (docs are silent on "
        "mixing indexed and unindexed properties; all three readings are accepted)",
        "property names are compared by code point (generated names make that equal to alphabetical order except "
        "where all indexes are explicit and distinct)",
        "stringEncoding is restricted to utf-8/ascii/latin-1 (+ utf-16-le for Pascal strings), where 'first null' "
        "means the same for bytes and characters",
    ],
    BUDGET={"quick": 50.0, "thorough": 840.0},
    CASE_TIMEOUT={"quick": 90, "thorough": 300},
)
