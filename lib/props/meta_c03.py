import os

from lib.props.meta_common import ASSUME_COMMON

ID = "C03"
META = dict(
    LEVEL="exploration",
    RULE=("forest-walk generated table collections with correctly parented mutations (recurrent, back, silent, "
          "several per branch, above roots and isolated samples, sites in gaps, multi-character/empty/non-ascii "
          "alleles); two thirds general (continuous or discrete coordinates), one third discrete 'alignment-friendly' "
          "(isolated samples repaired, embedded reference sequences of correct/short/long/absent data). Per case ~12 "
          "randomly drawn configurations of variants(), Variant.decode() histories, genotype_matrix(), haplotypes(), "
          "alignments(), as_fasta() over samples lists (default, permuted subset, single, non-sample nodes, empty, "
          "duplicate, out of bounds) x isolated_as_missing / impute_missing_data x user allele tuples x left/right x "
          "copy x missing_data_character x reference_sequence. Every decoded allele is compared through its string with "
          "the nearest-mutation walk on {child: parent} at the site position. A case is distinct by the sha1 of its "
          "row tuples and non-trivial when it has at least one site and one mutation. "
          "Audit round: the family of a case is a scrambled function of its number with fixed shares (walk 48 %, "
          "align 25.5 %, edge 23 %, msprime 2 %, big 1.5 %). `edge` puts sites at 0, exactly L/2, on and just before "
          "breakpoints and at the last position, forces isolated samples carrying 0/1/2 mutations, sites whose isolated "
          "samples are all rescued by mutations, and 4/5 .. 64/65 distinct states at one site; `big` has stars / root "
          "sets / fans with 255-700 children, combs and unary chains of depth 255-1100 (thorough: 3000 deep, 65537 "
          "leaves), 256/512-leaf binary trees, 17-300 states at a site and alleles of 255-70000 characters, decoded "
          "once through the sample-list path (default samples) and once through the traversal path (every node). "
          "Added entry points and forms: a fresh Variant per site (first decode seeks from the null tree), positional "
          "constructor, decode(site_id=)/numpy ids, samples as range / eight numpy dtypes / strided / read-only views, "
          "numpy scalar and -0.0 interval bounds, ids around 2^31 / 2^32 (must raise), write_fasta and write_nexus to "
          "path / pathlib / open file / StringIO, the nexus DATA block, to_macs, pickled / rebuilt / reloaded tree "
          "sequences."),
    REQUIRED=["variants:variant-checked", "decode:variant-checked", "copy:variant-checked", "decode:frozen-copy",
              "genotype_matrix:rows", "haplotypes:compared", "alignments:compared", "as_fasta:compared",
              "cross:matrix-vs-variants", "variants:counts", "variants:states", "variants:frequencies",
              "variants:error-predicted", "decode:error-predicted", "haplotypes:error-predicted",
              "alignments:error-predicted", "fresh:variant-checked", "nexus:compared", "big:cases"],
    ASSUMPTIONS=ASSUME_COMMON + [
        "mutation parents in the generated tables are the ones computed by the reference model "
        "(the property quantifies over correctly parented mutations only)",
    ],
    BUDGET={"quick": 45.0, "thorough": float(os.environ.get("VERIF_C03_THOROUGH_BUDGET", 840.0))},
)
