import os

from lib.props.meta_common import ASSUME_COMMON

ID = "C03"
META = dict(
    LEVEL="exploration",
    RULE=("forest-walk generated table collections with correctly parented mutations (recurrent, back, silent, "
          "several per branch, above roots and isolated samples, sites in gaps, multi-character/empty/non-ascii "
          "alleles); two thirds general (continuous or discrete coordinates), one third discrete 'alignment-friendly' "
          "(isolated samples repaired, embedded reference sequences of correct/short/long/absent data). Per case ~12 "
          "randomly drawn configurations of variants(), Variant.decode() histories, genotype_matrix(), haplotypes(), "
          "alignments(), as_fasta() over samples lists (default, permuted subset, single, non-sample nodes, empty, "
          "duplicate, out of bounds) x isolated_as_missing / impute_missing_data x user allele tuples x left/right x "
          "copy x missing_data_character x reference_sequence. Every decoded allele is compared through its string with "
          "the nearest-mutation walk on {child: parent} at the site position. A case is distinct by the sha1 of its "
          "row tuples and non-trivial when it has at least one site and one mutation."),
    REQUIRED=["variants:variant-checked", "decode:variant-checked", "copy:variant-checked", "decode:frozen-copy",
              "genotype_matrix:rows", "haplotypes:compared", "alignments:compared", "as_fasta:compared",
              "cross:matrix-vs-variants", "variants:counts", "variants:states", "variants:frequencies",
              "variants:error-predicted", "decode:error-predicted", "haplotypes:error-predicted",
              "alignments:error-predicted"],
    ASSUMPTIONS=ASSUME_COMMON + [
        "mutation parents in the generated tables are the ones computed by the reference model "
        "(the property quantifies over correctly parented mutations only)",
    ],
    BUDGET={"quick": 45.0, "thorough": float(os.environ.get("VERIF_C03_THOROUGH_BUDGET", 840.0))},
)
