"""C09 (memcheck): a slice of the sweep / program workloads on the *plain* build (gcc -O2, no sanitizer runtime) under
valgrind memcheck.

Why a second memory monitor: the ASan+UBSan build sees out-of-bounds and lifetime errors but not the USE OF UNINITIALISED
MEMORY (MemorySanitizer cannot be used here: numpy, CPython and libc are uninstrumented).  memcheck tracks definedness bit
by bit through copies and reports when an undefined value decides a branch, is used as an address or is handed to a system
call (the bytes of a dumped file, for instance), and it does so on the optimised code that users actually run.

Used two ways:
  * imported by lib/props/c09.py inside the ASan worker: `run_memcheck(case, ctx)` starts the subprocess and reads the log;
  * run as a script under valgrind:
        valgrind ... python -m lib.props.c09_memcheck <tier> <seed> <offset> <stride> <budget_s>
    drives sweep cases offset, offset+stride, ... (and one program case after every third sweep case) until the time budget
    is used, with every result pushed through `deep_consume` (values are branched on, buffers are written to /dev/null so
    that the definedness of every byte tskit hands out is looked at), and prints one JSON line.

A memcheck error counts only when the error stack or the origin stack ("Uninitialised value was created by ...") has a
frame in /repo's C sources (the _tskit shared object); the few reports valgrind gives for ld.so/libpython internals on
this image have none and are only counted.
"""
import json
import os
import re
import sys
import time

SRC_FILES = ("tables.c", "trees.c", "core.c", "genotypes.c", "stats.c", "convert.c", "haplotype_matching.c", "kastore.c",
             "_tskitmodule.c", "tskit_lwt_interface.h")
FRAME_RE = re.compile(r"^==\d+==\s+(?:at|by) 0x[0-9A-F]+: (\S+) \((.*)\)\s*$")
HEAD_RE = re.compile(r"^==\d+== ([A-Z][^\n]*)$")
KINDS = ("Invalid read", "Invalid write", "Invalid free", "Mismatched free", "Conditional jump or move depends on uninitialised",
         "Use of uninitialised value", "Syscall param", "Source and destination overlap", "Argument ", "Jump to the invalid address",
         "Process terminating")


def is_tskit_frame(fn, where):
    if "_tskit." in where:
        return True
    base = where.rsplit("/", 1)[-1].split(":")[0]
    return base in SRC_FILES


def parse_log(text):
    """-> (total error blocks, {key: block text}) keeping only blocks with a frame in tskit's own code."""
    blocks = re.split(r"^==\d+== *\n", text, flags=re.M)
    total = 0
    found = {}
    for b in blocks:
        lines = b.splitlines()
        if not lines:
            continue
        m = HEAD_RE.match(lines[0])
        if not m or not m.group(1).startswith(KINDS):
            continue
        head = m.group(1)
        if head.startswith("Process terminating"):
            continue
        total += 1
        fns = []
        for ln in lines[1:]:
            fm = FRAME_RE.match(ln)
            if fm and is_tskit_frame(fm.group(1), fm.group(2)):
                fns.append(fm.group(1))
        if not fns:
            continue
        kind = re.sub(r"\d+", "N", head)
        kind = re.sub(r"[^A-Za-z]+", "-", kind).strip("-").lower()[:60]
        found.setdefault((kind, fns[0]), b[:3500])
    return total, found


# ----------------------------------------------------------------------------- driver side (runs under valgrind)


def _driver(argv):
    tier, seed, offset, stride, budget = argv[0], int(argv[1]), int(argv[2]), int(argv[3]), float(argv[4])
    progress = open(argv[5], "w") if len(argv) > 5 else None
    t0 = time.time()
    import numpy as np
    import tskit
    import _tskit

    from lib.props import c09

    # Absurd allocation requests (adversarial sizes) must fail at once, as they do under ASan's max_allocation_size_mb,
    # instead of being granted lazily and then shadowed page by page by valgrind.
    import resource
    vm = 0
    for line in open("/proc/self/status"):
        if line.startswith("VmSize"):
            vm = int(line.split()[1]) * 1024
    resource.setrlimit(resource.RLIMIT_AS, (vm + (4 << 30), vm + (4 << 30)))

    devnull = os.open(os.devnull, os.O_WRONLY)
    stats = {"bytes": 0, "values": 0}

    def sink(b):
        if len(b):
            stats["bytes"] += len(b)
            os.write(devnull, b)

    def deep_consume(r, depth=0):
        """Branch on / write out everything a call handed back (bounded)."""
        if r is None or depth > 3:
            return
        if isinstance(r, np.ndarray):
            if r.dtype != object and r.size <= 1 << 20:
                sink(np.ascontiguousarray(r).tobytes())
            return
        if isinstance(r, (bytes, bytearray)):
            sink(bytes(r[:1 << 20]))
            return
        if isinstance(r, str):
            sink(r[:1 << 18].encode("utf8", "replace"))
            return
        if isinstance(r, (bool, int, float, np.generic)):
            stats["values"] += 1
            sink(repr(r).encode())
            return
        if isinstance(r, dict):
            for k, v in list(r.items())[:60]:
                deep_consume(v, depth + 1)
            return
        if isinstance(r, (tskit.TableCollection, tskit.TreeSequence)):
            try:
                with open(os.devnull, "wb") as f:
                    r.dump(f)
                stats["values"] += 1
            except Exception:
                pass
            return
        if isinstance(r, tskit.BaseTable) or isinstance(r, tskit.ProvenanceTable):
            try:
                deep_consume(r.asdict(), depth + 1)
            except Exception:
                pass
            return
        if hasattr(r, "__next__") or (hasattr(r, "__iter__") and not hasattr(r, "__len__")):
            for k, x in enumerate(r):
                deep_consume(x, depth + 1)
                if k > 200:
                    break
            return
        if isinstance(r, (list, tuple)):
            for x in r[:50]:
                deep_consume(x, depth + 1)
            return
        if hasattr(r, "__dataclass_fields__"):
            try:
                sink(repr(r)[:1 << 16].encode("utf8", "replace"))
            except Exception:
                pass
            return
        if isinstance(r, tskit.Tree):
            try:
                deep_consume(r.parent_array, depth + 1)
                deep_consume(r.left_child_array, depth + 1)
                deep_consume(r.right_sib_array, depth + 1)
                deep_consume(r.num_children_array, depth + 1)
                deep_consume(r.edge_array, depth + 1)
                deep_consume(r.interval, depth + 1)
            except Exception:
                pass
            return
        if isinstance(r, tskit.Variant):
            try:
                deep_consume(r.genotypes, depth + 1)
                deep_consume(r.alleles, depth + 1)
            except Exception:
                pass
            return

    c09.consume = deep_consume

    class Ctx:
        def __init__(self):
            self.counters = {}
            self.keys = {}

        def count(self, name, n=1):
            self.counters[name] = self.counters.get(name, 0) + n

        def feature(self, tag, n=1):
            pass

        def sig(self, obj, nontrivial=True):
            pass

        def sample(self, obj):
            pass

        def step(self, desc):
            if progress is not None:
                progress.seek(0)
                progress.truncate()
                progress.write(f"{time.time() - t0:.1f}s {desc[:400]}")
                progress.flush()

        def violation(self, key, msg, detail=None):
            self.keys[key] = self.keys.get(key, 0) + 1

        def check(self, cond, key, msg, detail=None):
            if not cond:
                self.violation(key, msg, detail)
            return cond

    ctx = Ctx()
    ncat = len(c09.CAT)
    entries = []
    nprog = 0
    k = offset
    n = 0
    startup = time.time() - t0
    t1 = time.time()
    def summary():
        return json.dumps({"sweep_cases": n, "program_cases": nprog, "calls": ctx.counters.get("calls", 0),
                           "program_ops": ctx.counters.get("program-ops", 0), "entries": entries,
                           "bytes_checked": stats["bytes"], "values_checked": stats["values"],
                           "behaviour_keys": sorted(ctx.keys)[:10], "startup_s": round(startup, 1),
                           "tskit": tskit.__file__, "_tskit": _tskit.__file__})

    def checkpoint():
        # the worker kills this process at its deadline (a loaded machine can spend minutes in valgrind's start-up alone):
        # what was done so far must not be lost with it
        if len(argv) > 5:
            tmp = argv[5] + ".summary.tmp"
            with open(tmp, "w") as f:
                f.write(summary())
            os.replace(tmp, argv[5] + ".summary")

    while time.time() - t1 < budget:
        ci = k % ncat
        case = {"gen": "sweep", "call": ci, "name": c09.CAT[ci]["name"], "rep": k // ncat, "idx": k, "seed": seed,
                "tier": tier, "memcheck": 1}
        c09.run_sweep(case, ctx)
        entries.append(c09.CAT[ci]["name"])
        n += 1
        checkpoint()
        if n % 3 == 0:
            case = {"gen": "program", "k": offset * 7919 + nprog, "idx": 10 ** 6 + offset * 7919 + nprog, "seed": seed,
                    "tier": tier, "memcheck": 1}
            c09.run_program(case, ctx)
            nprog += 1
        k += stride
    os.close(devnull)
    print(summary())
    return 0


# ----------------------------------------------------------------------------- worker side


def start_memcheck(case, ctx):
    """Start the valgrind subprocess for `case`; returns a handle for collect_memcheck (None when it cannot run)."""
    import shutil
    import subprocess
    import tempfile

    plain = os.environ.get("VERIF_BUILD_PLAIN")
    vg = shutil.which("valgrind")
    if not plain or not vg:
        ctx.count("memcheck:skipped-no-build-or-no-valgrind")
        return None
    repo = os.environ.get("VERIF_REPO", "/repo")
    here = os.path.dirname(os.path.dirname(os.path.dirname(os.path.abspath(__file__))))
    env = dict(os.environ)
    for k_ in ("LD_PRELOAD", "ASAN_OPTIONS", "UBSAN_OPTIONS", "LD_LIBRARY_PATH"):
        env.pop(k_, None)
    env["PYTHONPATH"] = os.pathsep.join([plain, os.path.join(repo, "python"), here])
    env["VERIF_BUILDDIR"] = plain
    env["PYTHONMALLOC"] = "malloc"
    env["PYTHONDONTWRITEBYTECODE"] = "1"
    env["PYTHONWARNINGS"] = "ignore"
    budget = float(case["budget"])
    td = tempfile.mkdtemp(prefix="c09-memcheck-")
    log = os.path.join(td, "vg.log")
    cmd = [vg, "--tool=memcheck", "--track-origins=yes", "--num-callers=30", "--error-limit=no", "--leak-check=no",
           "--fullpath-after=", f"--log-file={log}", sys.executable, "-m", "lib.props.c09_memcheck",
           case.get("tier", "quick"), str(case.get("seed", 0)), str(case["slice"]), str(case["of"]), str(budget),
           os.path.join(td, "progress")]
    errf = open(os.path.join(td, "stderr"), "w")  # a file, not a pipe: nobody reads it until the end
    proc = subprocess.Popen(cmd, env=env, cwd=here, stdout=subprocess.PIPE, stderr=errf, text=True)
    errf.close()
    return {"proc": proc, "td": td, "log": log, "case": case, "deadline": time.time() + budget * 3 + 120, "plain": plain,
            "repo": repo}


def collect_memcheck(h, ctx):
    import shutil
    import subprocess

    case = h["case"]
    try:
        out, _ = h["proc"].communicate(timeout=max(5.0, h["deadline"] - time.time()))
        rc = h["proc"].returncode
    except subprocess.TimeoutExpired:
        h["proc"].kill()
        out, _ = h["proc"].communicate()
        rc = None
        ctx.count("memcheck:timeouts")
    errp = os.path.join(h["td"], "stderr")
    err = open(errp).read()[-3000:] if os.path.exists(errp) else ""
    text = open(h["log"]).read() if os.path.exists(h["log"]) else ""
    prog = os.path.join(h["td"], "progress")
    last_step = open(prog).read() if os.path.exists(prog) else ""
    partial = None
    try:
        with open(prog + ".summary") as f:
            partial = json.load(f)
    except (OSError, ValueError):
        pass
    shutil.rmtree(h["td"], ignore_errors=True)
    summary = None
    for line in (out or "").splitlines():
        if line.startswith("{"):
            try:
                summary = json.loads(line)
            except ValueError:
                pass
    if summary is None and rc is None and partial is not None and partial.get("sweep_cases", 0) > 0:
        summary = partial  # killed at the deadline: count what it completed
        ctx.feature("memcheck:partial-summary-after-timeout")
    vg_oom = "Valgrind's memory management: out of memory" in text or "run out of swap space" in text
    if summary is None and vg_oom and partial is not None and partial.get("sweep_cases", 0) > 0:
        # valgrind itself gave up (its shadow memory for a multi-GB request did not fit under RLIMIT_AS): not a finding about
        # tskit and not a harness failure - keep what was checked until then and name the step
        summary = partial
        ctx.feature("memcheck:valgrind-out-of-memory:" + re.sub(r"[^A-Za-z_./()=]+", " ", last_step)[:90])
    total, found = parse_log(text)
    ctx.count("memcheck:reports-seen", total)
    ctx.count("memcheck:reports-with-tskit-frame", len(found))
    saved, ctx.case = ctx.case, dict(case)
    try:
        for (kind, fn), block in found.items():
            ctx.violation(f"memcheck/{kind}/{fn}",
                          f"valgrind memcheck report with a frame in tskit's C code (plain build, slice {case['slice']} "
                          f"stride {case['of']}; last step: {last_step[:300]}):\n{block}")
        if summary is None:
            if found:
                return  # the process died on the reported error
            if rc is None:
                ctx.feature("memcheck:timed-out-before-summary:" + re.sub(r"[^A-Za-z_./]+", " ", last_step)[:80])
                return
            ctx.violation("HARNESS-ERROR", f"memcheck run failed rc={rc} (last step: {last_step[:300]}): {(err or '')[-1200:]} {text[-800:]}")
            return
        if not os.path.realpath(summary["tskit"]).startswith(os.path.realpath(h["repo"]) + "/") or \
                os.path.realpath(os.path.dirname(summary["_tskit"])) != os.path.realpath(h["plain"]):
            ctx.violation("HARNESS-ERROR", f"memcheck run imported {summary['tskit']} / {summary['_tskit']}")
            return
    finally:
        ctx.case = saved
    ctx.count("memcheck:runs")
    ctx.count("memcheck:sweep-cases", summary["sweep_cases"])
    ctx.count("memcheck:program-cases", summary["program_cases"])
    ctx.count("memcheck:calls", summary["calls"] + summary["program_ops"])
    ctx.count("memcheck:result-bytes-checked-for-definedness", summary["bytes_checked"])
    for e in set(summary["entries"]):
        ctx.feature("memcheck-entry:" + e)


def run_memcheck(case, ctx):
    """Synchronous form (replay of a memcheck case)."""
    import faulthandler

    ctx.sig(("memcheck", case["slice"], case["of"]), nontrivial=True)
    faulthandler.cancel_dump_traceback_later()  # the subprocess has its own timeout
    h = start_memcheck(case, ctx)
    if h is not None:
        collect_memcheck(h, ctx)


if __name__ == "__main__":
    sys.exit(_driver(sys.argv[1:]))
