"""C12 — metadata codecs decode what they encode and honour the schema.

The reference codec below is written from docs/metadata.md (sections "struct", "binaryFormat", "Strings",
"Padding bytes", "Arrays", "Union typed metadata", "Structured array metadata") and shares no code with
tskit/metadata.py: integers are laid out with int.to_bytes, floats through numpy little-endian dtypes, strings by
hand.

Documented rules used
* properties are encoded in order of `index`, ties and missing indexes by name;
* little-endian fixed-size formats  b B h H i I l L q Q f d ? c, `Ns` (truncate / NUL-pad to N bytes, decoded with all
  N bytes unless nullTerminated), `Np` (length byte min(len, 255), at most N-1 bytes, NUL padded), `Nx` padding;
* arrays: length prefix arrayLengthFormat (default L) | fixed `length` (no prefix, exact length required) |
  noLengthEncodingExhaustBuffer (no prefix, last in the struct);
* a key missing from an object takes the property's `default` (every nesting level); no default => required;
* additional properties are not allowed; top level may be ["object", "null"]: None <-> empty bytes;
* lossy rules: binary32 rounding for `f`, truncation / NUL padding for `Ns`, cut at the first NUL for nullTerminated,
  `?` stores the truth value.
* numpy view: refuses variable-length arrays, Pascal strings and a nullable top level.
* JSON codec: canonical JSON (sorted keys, no whitespace), empty bytes decode as {}, top-level property defaults are
  filled in on decode, defaults below the top level are rejected at construction.

EITHER zones (never asserted)
* schemas on which MetadataSchema(...) raises anything are "not accepted"; only the listed meta-schema violation
  classes must raise MetadataSchemaValidationError;
* a string cut in the middle of a multi-byte character, or with undecodable bytes after the terminating NUL: decode
  may raise;  finite values beyond the binary32 range for `f`: encode may raise OverflowError;
* `0p` (CPython's struct cannot unpack it), property name "" and zero-size components in numpy_dtype (numpy cannot
  express them): any outcome;  mixing indexed and unindexed properties: unindexed ones may sort as 0, first or last;
* which exception a non-conforming object raises (MetadataValidationError, struct.error, ValueError, TypeError,
  KeyError ... all count as rejection);  a non-None object whose struct encoding is empty under ["object","null"]
  decodes as None;  properties literally named "properties" or "type" (the struct codec's ordering pass / binaryFormat
  validator mistake them for keywords: AttributeError / MetadataSchemaValidationError at construction, i.e. "not
  accepted").
"""
import collections
import copy
import json
import math
import pickle

import numpy as np
import tskit
from tskit import metadata as tsk_metadata

from lib.harness import case_rng

ID = "C12"

INT = {"b": (1, True), "B": (1, False), "h": (2, True), "H": (2, False), "i": (4, True), "I": (4, False),
       "l": (4, True), "L": (4, False), "q": (8, True), "Q": (8, False)}
LEN = {"B": 1, "H": 2, "I": 4, "L": 4, "Q": 8}
NP_KIND = {"b": "i1", "B": "u1", "h": "i2", "H": "u2", "i": "i4", "I": "u4", "l": "i4", "L": "u4", "q": "i8",
           "Q": "u8", "f": "f4", "d": "f8", "?": "b1"}
HYPOTHESES = (0, -math.inf, math.inf)
FLT_MAX = float(np.finfo(np.float32).max)


class Either(Exception):
    """The documentation leaves the outcome open for this input."""


class Reject(Exception):
    """The reference says the object does not conform."""


# ------------------------------------------------------------------------------------------- reference codec


def parse_fmt(fmt):
    if fmt[-1] in "spx":
        return (int(fmt[:-1]) if len(fmt) > 1 else 1), fmt[-1]
    return 1, fmt


def node_type(node):
    t = node["type"]
    return "object" if isinstance(t, list) else t


def prop_order(props, missing):
    return sorted(props, key=lambda k: (props[k].get("index", missing), k))


def required_keys(node):
    if "required" in node:
        return set(node["required"])
    return {k for k, sub in node["properties"].items() if "default" not in sub}


def fill(node, v):
    """The object with schema defaults filled in at every level."""
    t = node["type"]
    if isinstance(t, list):
        if v is None:
            return None
        t = "object"
    if t == "object":
        out = {}
        for k, sub in node["properties"].items():
            if k in v:
                out[k] = fill(sub, v[k])
            elif "default" in sub:
                out[k] = fill(sub, copy.deepcopy(sub["default"]))
            else:
                raise Reject(f"missing {k}")
        return out
    if t == "array":
        return [fill(node["items"], x) for x in v]
    return v


def enc_scalar(node, v):
    t = node["type"]
    if t == "null":
        n = parse_fmt(node["binaryFormat"])[0] if "binaryFormat" in node else 0
        return b"\0" * n
    n, c = parse_fmt(node["binaryFormat"])
    if c in INT:
        size, signed = INT[c]
        try:
            return int(v).to_bytes(size, "little", signed=signed)
        except OverflowError:
            raise Reject("integer out of range")
    if c == "?":
        return b"\1" if v else b"\0"
    if c == "d":
        return np.array(float(v), dtype="<f8").tobytes()
    if c == "f":
        x = float(v)
        if math.isfinite(x) and abs(x) > FLT_MAX:
            raise Either("beyond binary32 range")
        with np.errstate(all="ignore"):
            return np.array(x, dtype="<f4").tobytes()
    b = v.encode(node.get("stringEncoding", "utf-8"))
    if c == "c":
        if len(b) != 1:
            raise Reject("char needs one byte")
        return b
    if c == "s":
        return b[:n].ljust(n, b"\0")
    if c == "p":
        if n == 0:
            raise Either("0p")
        data = b[:n - 1]
        return bytes([min(len(data), 255)]) + data.ljust(n - 1, b"\0")
    raise AssertionError(c)


def enc(node, v, H):
    """Bytes of the (default-filled) object; H = index assumed for unindexed properties."""
    t = node["type"]
    if isinstance(t, list):
        if v is None:
            return b""
        t = "object"
    if t == "object":
        props = node["properties"]
        return b"".join(enc(props[k], v[k], H) for k in prop_order(props, H))
    if t == "array":
        body = b"".join(enc(node["items"], x, H) for x in v)
        if "length" in node:
            if len(v) != node["length"]:
                raise Reject("fixed array length")
            return body
        if node.get("noLengthEncodingExhaustBuffer"):
            return body
        size = LEN[node.get("arrayLengthFormat", "L")]
        if len(v) >= 256 ** size:
            raise Reject("array too long for its length prefix")
        return len(v).to_bytes(size, "little") + body
    return enc_scalar(node, v)


def expected(node, v):
    """What decode must return for the (default-filled) object: the documented lossy rules only."""
    t = node["type"]
    if isinstance(t, list):
        if v is None:
            return None
        t = "object"
    if t == "object":
        return {k: expected(sub, v[k]) for k, sub in node["properties"].items()}
    if t == "array":
        return [expected(node["items"], x) for x in v]
    if t == "null":
        return None
    n, c = parse_fmt(node["binaryFormat"])
    if c in INT:
        return int(v)
    if c == "?":
        return bool(v)
    if c == "d":
        return float(v)
    if c == "f":
        x = float(v)
        if math.isfinite(x) and abs(x) > FLT_MAX:
            raise Either("beyond binary32 range")
        with np.errstate(all="ignore"):
            return float(np.float32(x))
    e = node.get("stringEncoding", "utf-8")
    b = v.encode(e)
    try:
        if c == "c":
            return v
        if c == "s":
            raw = b[:n].ljust(n, b"\0")
            whole = raw.decode(e)
            if node.get("nullTerminated"):
                # "ends at the first null": a null CHARACTER of the decoded text (for the single-byte-unit encodings this
                # is the same as the first zero byte; for utf-16/utf-32 zero bytes occur inside ordinary characters)
                return raw.split(b"\0")[0].decode(e) if e not in WIDE else whole.split("\0")[0]
            return whole
        if c == "p":
            if n == 0:
                raise Either("0p")
            return b[:n - 1][:255].decode(e)
    except UnicodeDecodeError:
        raise Either("string cut inside a character")
    raise AssertionError(c)


def fixed_size(node):
    """Encoded size if it does not depend on the value, else None."""
    t = node_type(node)
    if t == "object":
        tot = 0
        for sub in node["properties"].values():
            s = fixed_size(sub)
            if s is None:
                return None
            tot += s
        return tot
    if t == "array":
        if "length" not in node:
            return None
        s = fixed_size(node["items"])
        return None if s is None else s * node["length"]
    if t == "null":
        return parse_fmt(node["binaryFormat"])[0] if "binaryFormat" in node else 0
    n, c = parse_fmt(node["binaryFormat"])
    if c in INT:
        return INT[c][0]
    return {"?": 1, "d": 8, "f": 4, "c": 1}.get(c, n)


def walk(node, top=True):
    yield node, top
    t = node_type(node)
    if t == "object":
        for sub in node.get("properties", {}).values():
            yield from walk(sub, False)
    elif t == "array":
        yield from walk(node["items"], False)


def schema_depth(node):
    t = node_type(node)
    if t == "object":
        return 1 + max([schema_depth(sub) for sub in node["properties"].values()] or [0])
    if t == "array":
        return 1 + schema_depth(node["items"])
    return 0


def numpy_class(schema):
    """'refused' (documented), 'either' (zero-size components / unnamed field), 'supported'."""
    refused = isinstance(schema["type"], list)
    either = False
    for node, top in walk(schema):
        t = node_type(node)
        if t == "array" and "length" not in node:
            refused = True
        if t == "array" and node.get("length") == 0:
            either = True
        if t == "object" and (not node["properties"] or "" in node["properties"]):
            either = True
        if t == "null" and fixed_size(node) == 0:
            either = True
        if t == "string":
            n, c = parse_fmt(node["binaryFormat"])
            if c == "p":
                refused = True
            if c == "s" and n == 0:
                either = True
    if refused:
        return "refused"
    return "either" if either else "supported"


def has_mixed_index(schema):
    for node, _ in walk(schema):
        if node_type(node) == "object":
            idx = ["index" in sub for sub in node["properties"].values()]
            if any(idx) and not all(idx):
                return True
    return False


def deep_eq(a, b):
    """Equality that distinguishes bool/int/float, -0.0/0.0 and treats NaN == NaN."""
    if type(a) is not type(b):
        return False
    if isinstance(a, float):
        if math.isnan(a) or math.isnan(b):
            return math.isnan(a) and math.isnan(b)
        return a == b and math.copysign(1, a) == math.copysign(1, b)
    if isinstance(a, dict):
        return a.keys() == b.keys() and all(deep_eq(a[k], b[k]) for k in a)
    if isinstance(a, list):
        return len(a) == len(b) and all(deep_eq(x, y) for x, y in zip(a, b))
    return a == b


def jdump(o):
    def conv(x):
        if isinstance(x, float) and not math.isfinite(x):
            return repr(x)
        if isinstance(x, bytes):
            return "bytes:" + x.hex()
        if isinstance(x, dict):
            return {str(k): conv(v) for k, v in x.items()}
        if isinstance(x, (list, tuple)):
            return [conv(v) for v in x]
        if isinstance(x, (set, frozenset)):
            return "set"
        return x
    return json.dumps(conv(o), sort_keys=True, ensure_ascii=True)


# ------------------------------------------------------------------------------------------- generators

PLAIN_NAMES = ["a", "b", "c", "d", "ab", "abc", "b1", "b2", "x", "y0", "z", "id", "name", "k2", "aa", "a1", "m",
               "n0", "q", "zz", "flags", "age", "pos", "w"]
ODD_NAMES = ["Z", "A", "_a", "é", "a b", "ß", "日本", "a.b", "B1", "a-b", "0", "Ab", "default",
             "index", "items", "required"]
ENCODINGS = ["utf-8", "utf-8", "utf-8", "ascii", "latin-1"]
WIDE = ("utf-16-le", "utf-16-be", "utf-16", "utf-32-le", "utf-32")
CHARS = {"utf-8": ["a", "b", "Z", "0", " ", "é", "ß", "€", "日", "😀", "\x7f", "x", "y"],
         "ascii": ["a", "b", "Z", "0", " ", "~", "\x7f", "x"],
         "latin-1": ["a", "b", "Z", "é", "ß", "\xff", "\x80", "0"],
         "utf-16-le": ["a", "é", "日", "b", "\u0100", "Z", "😀"]}
for _e in WIDE:
    CHARS[_e] = CHARS["utf-16-le"]


def gen_scalar(rng):
    r = rng.random()
    if r < 0.38:
        c = rng.choice(list(INT))
        node = {"type": rng.choice(["integer", "number"]), "binaryFormat": c}
        k = rng.random()
        if k < 0.14:
            size, signed = INT[c]
            lo = -(1 << (8 * size - 1)) if signed else 0
            hi = (1 << (8 * size - 1)) - 1 if signed else (1 << (8 * size)) - 1
            if k < 0.08:
                a, b = sorted([rng.randint(lo, hi), rng.randint(lo, hi)])
                node["minimum"], node["maximum"] = a, b
            else:
                # ordinary JSON-Schema validation keywords keep working under the struct codec ("optional rules about
                # the types and ranges of data", docs/metadata.md): a value outside the enumeration must be rejected
                node["enum"] = sorted({rng.choice([lo, hi, 0, 1]), rng.randint(lo, hi), rng.randint(lo, hi)})
        return node
    if r < 0.52:
        return {"type": "number", "binaryFormat": rng.choice("fd")}
    if r < 0.62:
        return {"type": "boolean", "binaryFormat": "?"}
    if r < 0.9:
        k = rng.random()
        if k < 0.15:
            node = {"type": "string", "binaryFormat": "c"}
            if rng.random() < 0.3:
                node["stringEncoding"] = rng.choice(["ascii", "latin-1", "utf-8"])
            return node
        n = rng.choice([0, 1, 1, 2, 3, 4, 5, 8, 10, 16, 255, 256, 300])
        if k < 0.7:
            fmt = "s" if (n == 1 and rng.random() < 0.3) else f"{n}s"
            if rng.random() < 0.05:
                fmt = rng.choice(["0", "00"]) + f"{n}s"  # a count with leading zeros is the same count
            node = {"type": "string", "binaryFormat": fmt}
            if rng.random() < 0.45:
                node["nullTerminated"] = rng.random() < 0.85
        else:
            n = max(n, 1)
            fmt = "p" if (n == 1 and rng.random() < 0.3) else f"{n}p"
            if rng.random() < 0.05:
                fmt = "0" + f"{n}p"
            node = {"type": "string", "binaryFormat": fmt}
        if rng.random() < 0.12 and (fmt[-1] == "p" or node.get("nullTerminated")):
            # JSON-Schema keyword, length in characters (only where the decoded string is never longer than the input,
            # so that decoded objects still conform: a plain Ns field is NUL-padded on decode)
            node["maxLength"] = rng.choice([0, 1, 2, 3, 8])
        if rng.random() < 0.4:
            node["stringEncoding"] = rng.choice(ENCODINGS + ["utf-16-le"] + (list(WIDE) if rng.random() < 0.5 else []))
        return node
    node = {"type": "null"}
    if rng.random() < 0.8:
        n = rng.choice([0, 1, 1, 2, 3, 5, 8])
        node["binaryFormat"] = "x" if (n == 1 and rng.random() < 0.4) else f"{n}x"
        if rng.random() < 0.05:
            node["binaryFormat"] = "0" + f"{n}x"
    return node


def gen_node(rng, depth, nonzero=False):
    r = rng.random()
    if depth <= 0 or r < 0.66:
        while True:
            node = gen_scalar(rng)
            if not nonzero or fixed_size(node):
                return node
    if r < 0.84:
        node = {"type": "array", "items": gen_node(rng, depth - 1, nonzero)}
        k = rng.random()
        if k < 0.4:
            node["length"] = rng.choice([0, 1, 2, 2, 3, 4]) if not nonzero else rng.choice([1, 2, 3])
        elif k < 0.85:
            node["arrayLengthFormat"] = rng.choice("BHILQ")
        if "length" not in node and rng.random() < 0.12:
            node["maxItems"] = rng.choice([0, 1, 2, 3, 5])
            if rng.random() < 0.5:
                node["minItems"] = rng.choice([0, 1, 2, node["maxItems"]])
                node["minItems"] = min(node["minItems"], node["maxItems"])
        return node
    return gen_object(rng, depth - 1, nonzero=nonzero)


def gen_object(rng, depth, top=False, nonzero=False):
    k = rng.choice([0, 1, 1, 2, 2, 3, 3, 4, 5, 6])
    if nonzero:
        k = max(k, 1)
    index_mode = rng.choice(["none", "none", "distinct", "distinct", "ties", "mixed", "float"])
    odd = index_mode == "distinct" and rng.random() < 0.3
    names = rng.sample(ODD_NAMES + PLAIN_NAMES[:6] if odd else PLAIN_NAMES, k)
    props = {}
    for name in names:
        sub = gen_node(rng, depth, nonzero)
        props[name] = sub
    if index_mode == "distinct":
        for name, i in zip(names, rng.sample(range(-5, 20), k)):
            props[name]["index"] = i
    elif index_mode == "ties":
        for name in names:
            props[name]["index"] = rng.choice([0, 1, 1, 2])
    elif index_mode == "mixed":
        for name in names:
            if rng.random() < 0.5:
                props[name]["index"] = rng.choice([-3, -1, -0.5, 0, 0, 0.5, 1, 2, 7])
    elif index_mode == "float":
        for name in names:
            props[name]["index"] = rng.choice([-1000, -1.5, 0, 0.25, 567, 567.5, 1000, 1e9])
    node = {"type": "object", "properties": props}
    for name in names:
        if rng.random() < 0.3:
            props[name]["default"] = gen_value(rng, props[name], boundary=0.3)
    if rng.random() < 0.4:
        req = [n for n in names if "default" not in props[n] or rng.random() < 0.25]
        rng.shuffle(req)
        node["required"] = req
    if rng.random() < 0.2:
        node["additionalProperties"] = False
    if rng.random() < 0.15:
        node["description"] = rng.choice(["", "an object", "déscription"])
    # the insertion order of the dict must not matter
    items = list(props.items())
    rng.shuffle(items)
    node["properties"] = dict(items)
    return node


def gen_struct_schema(rng):
    depth = rng.choice([0, 1, 1, 2, 2, 3] * 4 + [5])
    schema = gen_object(rng, depth, top=True)
    schema["codec"] = "struct"
    if rng.random() < 0.15:
        schema["type"] = ["object", "null"]
    props = schema["properties"]
    if rng.random() < 0.1:
        # exhaust-buffer array: must be encoded last
        for i, name in enumerate(sorted(props)):
            props[name]["index"] = i
        arr = {"type": "array", "items": gen_node(rng, max(depth - 1, 0), nonzero=True),
               "noLengthEncodingExhaustBuffer": True, "index": len(props) + 5}
        if rng.random() < 0.3:
            arr["default"] = []
        if rng.random() < 0.3:
            # still "the last type in the encoded struct" when it is the last member of the last nested object
            inner = {"type": "object", "properties": {"n": {"type": "integer", "binaryFormat": "B", "index": 0},
                                                      "tail": dict(arr, index=1)}, "index": len(props) + 5}
            if "default" in arr:
                inner["default"] = {"n": 7}
            arr = inner
        props["zzlast"] = arr
        if "required" in schema:
            schema["required"] = list(schema["required"]) + ["zzlast"]
    r = rng.random()
    forced = None
    if r < 0.035:
        # rare-trigger classes are forced in a fixed share of schemas: an array AT the capacity of a one-byte length
        # prefix (255 elements fit, 256 must be rejected) ...
        forced = {"type": "array", "arrayLengthFormat": "B",
                  "items": {"type": "integer", "binaryFormat": rng.choice("bB")}}
    elif r < 0.041:
        # ... and a string field larger than 64 KiB (a metadata row that does not fit a 16-bit anything)
        forced = {"type": "string", "binaryFormat": f"{rng.choice([65536, 66000, 70001])}s"}
        if rng.random() < 0.5:
            forced["nullTerminated"] = True
    if forced is not None:
        name = rng.choice(["cap", "a9", "zcap"])
        if any("index" in sub for sub in props.values()):
            forced["index"] = rng.choice([-7, 3, 11, 2000])
            if not all("index" in sub for sub in props.values()):
                forced.pop("index")
        props[name] = forced
        if "required" in schema:
            schema["required"] = list(schema["required"]) + [name]
        if "zzlast" in props and "index" in forced:
            forced["index"] = min(forced["index"], 3)
    if rng.random() < 0.1:
        schema["title"] = "t"
    return schema


def gen_string(rng, e, target, straddle_ok=False):
    """A string whose encoding has exactly `target` bytes (or just straddles it)."""
    out, size = [], 0
    while size < target:
        ch = rng.choice(CHARS[e])
        b = len(ch.encode(e))
        if size + b > target and not straddle_ok:
            ch = "a"
            b = len("a".encode(e)) if e not in ("utf-16", "utf-32") else (2 if e == "utf-16" else 4)
            if size + b > target:
                break
        out.append(ch)
        size += b
    return "".join(out)


def gen_value(rng, node, boundary=0.5):
    t = node_type(node)
    if t == "object":
        if isinstance(node["type"], list) and rng.random() < 0.25:
            return None
        req = required_keys(node)
        out = {}
        for k, sub in node["properties"].items():
            if k not in req and "default" in sub and rng.random() < 0.5:
                continue
            out[k] = gen_value(rng, sub, boundary)
        items = list(out.items())
        rng.shuffle(items)
        return dict(items)
    if t == "array":
        if "length" in node:
            n = node["length"]
        else:
            n = rng.choice([0, 0, 1, 1, 2, 3, 5])
            small = fixed_size(node["items"])
            if node.get("arrayLengthFormat") == "B" and small is not None and small <= 2 and rng.random() < 0.3 \
                    and "maxItems" not in node:
                n = 255
            if "maxItems" in node:
                n = min(n, node["maxItems"]) if rng.random() < 0.5 else node["maxItems"]
            n = max(n, node.get("minItems", 0))
        return [gen_value(rng, node["items"], boundary) for _ in range(n)]
    if t == "null":
        return None
    n, c = parse_fmt(node["binaryFormat"])
    if "enum" in node:
        return rng.choice(node["enum"])
    if c in INT:
        size, signed = INT[c]
        lo = -(1 << (8 * size - 1)) if signed else 0
        hi = (1 << (8 * size - 1)) - 1 if signed else (1 << (8 * size)) - 1
        lo, hi = max(lo, node.get("minimum", lo)), min(hi, node.get("maximum", hi))
        if rng.random() < boundary:
            return rng.choice([lo, hi, min(max(0, lo), hi), min(max(-1, lo), hi), min(max(1, lo), hi),
                               min(lo + 1, hi), max(hi - 1, lo)])
        return rng.randint(lo, hi)
    if c == "?":
        return rng.random() < 0.5
    if c == "d":
        if rng.random() < boundary:
            return rng.choice([0.0, -0.0, 1.5, -2.25, 1e308, 1.7976931348623157e308, 5e-324, 2.2250738585072014e-308,
                               math.inf, -math.inf, math.nan, 0.1, 1 / 3, 3, -7, 2 ** 53 + 1, 1e-300])
        return rng.uniform(-1e6, 1e6)
    if c == "f":
        if rng.random() < boundary:
            return rng.choice([0.0, -0.0, 1.5, -2.25, 0.1, 1 / 3, 1e-45, 1e-46, 7e-46, 1.1754943508222875e-38,
                               3.4e38, FLT_MAX, 3.4028235e38, math.inf, -math.inf, math.nan, 3, -7, 16777217,
                               1e-39, 65504.0, 2.0 ** -149, 2.0 ** -150, 3.4028235677973366e38])
        return rng.uniform(-1e6, 1e6)
    e = node.get("stringEncoding", "utf-8")
    if c == "c":
        pool = [ch for ch in CHARS[e] if len(ch.encode(e)) == 1] + ["\0", "q"]
        return rng.choice(pool)
    cap = n if c == "s" else max(n - 1, 0)
    r = rng.random()
    if r < 0.1:
        return ""
    targets = [cap, cap, max(cap - 1, 0), cap + 1, cap + 3, cap // 2, 2 * cap + 1, 1, 2]
    target = rng.choice(targets)
    if cap > 60000:
        # > 64 KiB field: a short random head repeated up to the target keeps generation cheap
        head = gen_string(rng, e, rng.choice([7, 16, 33]))
        unit = max(len(head.encode(e)), 1)
        s = (head or "a") * (min(target, cap + 3) // unit)
    else:
        s = gen_string(rng, e, min(target, 320), straddle_ok=rng.random() < 0.06)
    if s and rng.random() < 0.1 and e not in WIDE:
        i = rng.randrange(len(s))
        s = s[:i] + "\0" + s[i + 1:]
    if "maxLength" in node:
        s = s[:node["maxLength"]]
    return s


# ---- non-conforming mutations


def collect_mutations(node, v, path, out):
    t = node["type"]
    if isinstance(t, list):
        if v is None:
            return
        t = "object"
    elif not path and v is not None:
        out.append(("none-for-object", path, ("set", None)))
    if t == "object":
        req = required_keys(node)
        for k in v:
            if k in req:
                out.append(("missing-required", path, ("del", k)))
        out.append(("extra-key", path, ("add", "zz_extra", 1)))
        if path:
            out.append(("wrong-type-for-object", path, ("set", [1])))
            out.append(("wrong-type-for-object", path, ("set", "x")))
        for k in v:
            collect_mutations(node["properties"][k], v[k], path + [k], out)
        return
    if t == "array":
        if "length" in node:
            out.append(("fixed-length-array-longer", path, ("append",)))
            if v:
                out.append(("fixed-length-array-shorter", path, ("pop",)))
        elif not node.get("noLengthEncodingExhaustBuffer") and node.get("arrayLengthFormat") == "B" and v \
                and (fixed_size(node["items"]) or 99) <= 4:
            out.append(("array-exceeds-length-prefix", path, ("grow", 256)))
        if "maxItems" in node and v:
            out.append(("too-many-items", path, ("grow", node["maxItems"] + 1)))
        if node.get("minItems", 0) > 0:
            out.append(("too-few-items", path, ("shrink", node["minItems"] - 1)))
        out.append(("wrong-type-for-array", path, ("set", {"0": 1})))
        out.append(("wrong-type-for-array", path, ("set", "ab")))
        if v:
            collect_mutations(node["items"], v[0], path + [0], out)
        return
    if t == "null":
        out.append(("wrong-type-for-null", path, ("set", 0)))
        out.append(("wrong-type-for-null", path, ("set", "")))
        return
    n, c = parse_fmt(node["binaryFormat"])
    if "enum" in node and c in INT:
        size, signed = INT[c]
        lo = -(1 << (8 * size - 1)) if signed else 0
        hi = (1 << (8 * size - 1)) - 1 if signed else (1 << (8 * size)) - 1
        for cand in (node["enum"][0] + 1, node["enum"][-1] - 1, lo, hi, 0):
            if cand not in node["enum"] and lo <= cand <= hi:
                out.append(("not-in-enum", path, ("set", cand)))  # representable in the format, excluded by the schema
                break
    if "maxLength" in node:
        out.append(("string-too-long", path, ("set", "a" * (node["maxLength"] + 1))))
    if c in INT:
        size, signed = INT[c]
        lo = -(1 << (8 * size - 1)) if signed else 0
        hi = (1 << (8 * size - 1)) - 1 if signed else (1 << (8 * size)) - 1
        out.append(("integer-above-format-range", path, ("set", hi + 1)))
        out.append(("integer-below-format-range", path, ("set", lo - 1)))
        out.append(("integer-far-out-of-range", path, ("set", (hi + 1) * 2 ** 64)))
        if "maximum" in node and node["maximum"] < hi:
            out.append(("above-schema-maximum", path, ("set", node["maximum"] + 1)))
        if "minimum" in node and node["minimum"] > lo:
            out.append(("below-schema-minimum", path, ("set", node["minimum"] - 1)))
        out.append(("wrong-type-for-integer", path, ("set", "7")))
        out.append(("wrong-type-for-integer", path, ("set", None)))
        out.append(("wrong-type-for-integer", path, ("set", 1.5)))
        out.append(("wrong-type-for-integer", path, ("set", True)))
        out.append(("wrong-type-for-integer", path, ("set", [1])))
    elif c in "fd":
        out.append(("wrong-type-for-number", path, ("set", "1.5")))
        out.append(("wrong-type-for-number", path, ("set", None)))
        out.append(("wrong-type-for-number", path, ("set", False)))
        out.append(("wrong-type-for-number", path, ("set", {})))
    elif c == "?":
        out.append(("wrong-type-for-boolean", path, ("set", 1)))
        out.append(("wrong-type-for-boolean", path, ("set", 0)))
        out.append(("wrong-type-for-boolean", path, ("set", "True")))
        out.append(("wrong-type-for-boolean", path, ("set", None)))
    else:
        out.append(("wrong-type-for-string", path, ("set", 5)))
        out.append(("wrong-type-for-string", path, ("set", None)))
        out.append(("wrong-type-for-string", path, ("set", ["a"])))
        out.append(("wrong-type-for-string", path, ("set", b"ab")))
        if c == "c":
            out.append(("char-not-one-byte", path, ("set", "")))
            out.append(("char-not-one-byte", path, ("set", "ab")))


RARE_CLASSES = {"array-exceeds-length-prefix", "too-many-items", "too-few-items", "not-in-enum", "string-too-long",
                "above-schema-maximum", "below-schema-minimum"}


def apply_mutation(obj, path, op):
    obj = copy.deepcopy(obj)
    if not path and op[0] == "set":
        return op[1]
    cur = obj
    for k in path[:-1]:
        cur = cur[k]
    if op[0] == "set":
        cur[path[-1]] = op[1]
        return obj
    target = cur[path[-1]] if path else obj
    if op[0] == "del":
        del target[op[1]]
    elif op[0] == "add":
        target[op[1]] = op[2]
    elif op[0] == "append":
        target.append(copy.deepcopy(target[0]) if target else 0)
    elif op[0] == "pop":
        target.pop()
    elif op[0] == "grow":
        while len(target) < op[1]:
            target.append(copy.deepcopy(target[0]))
    elif op[0] == "shrink":
        del target[op[1]:]
    return obj


# ---- invalid schemas


def scalar_i():
    return {"type": "number", "binaryFormat": "i"}


# classes rejected on the unchanged tree with another exception type (KeyError / TypeError raised before or after
# the meta-schema validation): rejection itself is asserted, the type is not
LAX_EXCEPTION = {"missing-binaryFormat-in-items", "non-numeric-index", "non-string-codec"}


def invalid_schema(rng, base):
    """(schema, class).  Every class listed here violates a restriction stated in docs/metadata.md (struct
    restrictions 1-5, binaryFormat / arrayLengthFormat tables, fixed-length array rules, codec list, top-level
    object) and is rejected with MetadataSchemaValidationError on the unchanged tree."""
    s = copy.deepcopy(base) if base is not None and rng.random() < 0.6 else \
        {"codec": "struct", "type": "object", "properties": {"a": scalar_i()}}
    props = s["properties"]
    cls = rng.choice(["missing-binaryFormat", "missing-binaryFormat-in-items", "bad-binaryFormat",
                      "length-with-arrayLengthFormat", "length-with-exhaust", "negative-length", "non-integer-length",
                      "bad-arrayLengthFormat", "union-type", "nested-object-null", "top-level-null-object-order",
                      "top-level-union", "unknown-codec", "missing-codec", "non-string-codec", "top-level-non-object",
                      "heterogeneous-items", "optional-without-default", "non-boolean-nullTerminated",
                      "non-boolean-exhaust", "non-string-stringEncoding", "non-numeric-index",
                      "null-with-non-pad-format", "properties-not-object", "required-not-string-list",
                      "non-string-binaryFormat", "non-string-arrayLengthFormat",
                      "unknown-type-name", "json-nested-default", "json-unknown-codec-case", "json-top-level-array"])
    name = rng.choice(["n1", "q9", "a0"])
    arr = {"type": "array", "items": scalar_i()}
    if cls == "missing-binaryFormat":
        props[name] = {"type": rng.choice(["number", "integer", "string", "boolean"])}
        props[name]["default"] = {"number": 1, "integer": 1, "string": "", "boolean": True}[props[name]["type"]]
    elif cls == "missing-binaryFormat-in-items":
        props[name] = {"type": "array", "items": {"type": "number"}, "default": []}
    elif cls == "bad-binaryFormat":
        props[name] = {"type": "number", "default": 0,
                       "binaryFormat": rng.choice(["z", "ii", "3i", "", "5", "<i", "2?", "e", "n", "P", "i ", "4h",
                                                   "s5", "-1s", "1.5s", "xs", "D", "F", "u", "10"])}
    elif cls == "non-string-binaryFormat":
        props[name] = {"type": "number", "default": 0, "binaryFormat": rng.choice([5, None, ["i"], True, {"f": "i"}])}
    elif cls == "non-string-arrayLengthFormat":
        props[name] = dict(arr, arrayLengthFormat=rng.choice([1, None, ["B"], True]), default=[])
    elif cls == "length-with-arrayLengthFormat":
        props[name] = dict(arr, length=2, arrayLengthFormat=rng.choice("BHILQ"), default=[1, 2])
    elif cls == "length-with-exhaust":
        props[name] = dict(arr, length=2, noLengthEncodingExhaustBuffer=True, default=[1, 2])
    elif cls == "negative-length":
        props[name] = dict(arr, length=rng.choice([-1, -2, -100]), default=[])
    elif cls == "non-integer-length":
        props[name] = dict(arr, length=rng.choice([1.5, "3", None, [2], True]), default=[])
    elif cls == "bad-arrayLengthFormat":
        props[name] = dict(arr, arrayLengthFormat=rng.choice(["b", "h", "i", "l", "q", "x", "LL", "", "?", "f", "s",
                                                              "1B", "<B"]), default=[])
    elif cls == "union-type":
        props[name] = {"type": rng.choice([["number", "string"], ["integer", "null"], ["number"]]),
                       "binaryFormat": "i", "default": 0}
    elif cls == "nested-object-null":
        props[name] = {"type": ["object", "null"], "properties": {}, "default": {}}
    elif cls == "top-level-null-object-order":
        s["type"] = ["null", "object"]
    elif cls == "top-level-union":
        s["type"] = rng.choice([["object", "null", "number"], ["object", "array"], ["object"], ["null"]])
    elif cls == "unknown-codec":
        s["codec"] = rng.choice(["yaml", "Struct", "STRUCT", "struct ", "", "msgpack", "jsonn", "pickle"])
    elif cls == "missing-codec":
        del s["codec"]
    elif cls == "non-string-codec":
        s["codec"] = rng.choice([5, None, ["struct"], {"name": "struct"}, True])
    elif cls == "top-level-non-object":
        s["type"] = rng.choice(["array", "number", "string", "null", "integer", "boolean"])
    elif cls == "heterogeneous-items":
        props[name] = {"type": "array", "items": [scalar_i(), {"type": "string", "binaryFormat": "2s"}],
                       "default": []}
    elif cls == "optional-without-default":
        props[name] = scalar_i()
        s["required"] = [k for k in s.get("required", required_keys(s)) if k != name]
    elif cls == "non-boolean-nullTerminated":
        props[name] = {"type": "string", "binaryFormat": "4s", "nullTerminated": rng.choice(["yes", 1, None]),
                       "default": ""}
    elif cls == "non-boolean-exhaust":
        props[name] = dict(arr, noLengthEncodingExhaustBuffer=rng.choice(["true", 1, None]), default=[])
    elif cls == "non-string-stringEncoding":
        props[name] = {"type": "string", "binaryFormat": "4s", "stringEncoding": rng.choice([5, None, ["utf-8"]]),
                       "default": ""}
    elif cls == "non-numeric-index":
        props[name] = dict(scalar_i(), index=rng.choice(["1", None, [1]]), default=0)
    elif cls == "null-with-non-pad-format":
        props["null"] = {"type": "null", "binaryFormat": rng.choice(["i", "4s", "?", "d"]), "default": None}
    elif cls == "properties-not-object":
        s["properties"] = rng.choice([[], "a", 5])
    elif cls == "required-not-string-list":
        s["required"] = rng.choice(["a", [1], {"a": True}, ["a", "a"]])
    elif cls == "unknown-type-name":
        props[name] = {"type": rng.choice(["float", "int", "str", "dict", "Number"]), "binaryFormat": "i",
                       "default": 0}
    elif cls == "json-nested-default":
        inner = {"type": "object", "properties": {"b": {"type": rng.choice(["number", "array", "object"])}}}
        inner["properties"]["b"]["default"] = {"number": 5, "array": [], "object": {}}[inner["properties"]["b"]["type"]]
        if rng.random() < 0.4:
            inner["properties"]["c"] = {"type": "string"}
        for _ in range(rng.choice([0, 0, 1, 2])):  # "only at the shallowest level": any deeper level is refused
            inner = {"type": "object", "properties": {rng.choice(["m", "n"]): inner}}
        s = {"codec": "json", "type": "object", "properties": {"a": inner}}
        if rng.random() < 0.3:
            s["required"] = ["a"]
        if rng.random() < 0.3:
            del s["type"]
        if rng.random() < 0.5:
            s["properties"]["z"] = {"type": "string", "default": "top-level default is fine"}
    elif cls == "json-unknown-codec-case":
        s = {"codec": rng.choice(["JSON", "Json", " json"]), "type": "object"}
    elif cls == "json-top-level-array":
        s = {"codec": "json", "type": rng.choice(["array", "string", "number", ["object", "array"]])}
    return s, cls


# ---- JSON codec

JSON_TYPES = ["string", "number", "integer", "boolean", "null", "array", "object", "any"]


def gen_json_value(rng, t, depth=2):
    if t == "any":
        t = rng.choice(JSON_TYPES[:5] + (["array", "object"] if depth > 0 else []))
    if t == "string":
        return rng.choice(["", "a", "é€😀", "with \"quotes\" \\ and \n newline", "\u0000nul", "x" * 40, "\ud800"])
    if t == "number":
        return rng.choice([0, 1.5, -2.25, 1e300, 5e-324, 0.1, 2 ** 70, -7, math.inf, math.nan, -0.0, 1e16, 1 / 3])
    if t == "integer":
        return rng.choice([0, 1, -1, 2 ** 63, -2 ** 64, 12345678901234567890, 7])
    if t == "boolean":
        return rng.random() < 0.5
    if t == "null":
        return None
    if t == "array":
        return [gen_json_value(rng, "any", depth - 1) for _ in range(rng.choice([0, 1, 2, 3]))]
    keys = rng.sample(["k", "z", "a", "é", "A", "", "nested", "10", "2"], rng.choice([0, 1, 2, 3]))
    return {k: gen_json_value(rng, "any", depth - 1) for k in keys}


ANNOTATIONS = {"title": "t", "description": "déscription", "$comment": "c", "examples": [{"a": 1}], "default": {}}

# property-less JSON schemas that still constrain a row: keyword -> (schema fragment, conforming objects, violating ones)
KEYWORD_ONLY = {
    "minProperties": ({"minProperties": 1}, [{"a": 1}, {"b": None, "c": [1]}], [{}]),
    "patternProperties": ({"patternProperties": {"^n_": {"type": "number"}}},
                          [{"n_a": 1.5}, {"other": "x"}, {}], [{"n_a": "x"}]),
    "propertyNames": ({"propertyNames": {"maxLength": 3}}, [{"abc": 1}, {}, {"a": {"toolong": 1}}], [{"toolong": 1}]),
    "anyOf": ({"anyOf": [{"required": ["a"]}, {"required": ["b"]}]}, [{"a": 1}, {"b": 2, "z": 3}], [{}, {"c": 1}]),
    "not": ({"not": {"required": ["forbidden"]}}, [{}, {"ok": 1}], [{"forbidden": 1}]),
    "const": ({"const": {"k": 1}}, [{"k": 1}], [{"k": 2}, {}]),
    "enum": ({"enum": [{"k": 1}, {}]}, [{"k": 1}, {}], [{"k": 3}]),
    "dependencies": ({"dependencies": {"a": ["b"]}}, [{"a": 1, "b": 2}, {"b": 1}, {}], [{"a": 1}]),
    "if-then": ({"if": {"required": ["a"]}, "then": {"required": ["b"]}}, [{"a": 1, "b": 2}, {"c": 1}], [{"a": 1}]),
    "allOf": ({"allOf": [{"required": ["a"]}]}, [{"a": None}], [{}, {"b": 1}]),
    "oneOf": ({"oneOf": [{"required": ["a"]}, {"required": ["b"]}]}, [{"a": 1}, {"b": 1}], [{"a": 1, "b": 1}, {}]),
}


def gen_json_schema(rng):
    """(schema, kind, spec): spec = None or {"good": [...], "bad": [...]} for the keyword-only kinds."""
    r = rng.random()
    if r < 0.12:
        s = {"codec": "json"}
        # annotation keywords do not constrain anything
        for k in rng.sample(sorted(ANNOTATIONS), rng.choice([0, 0, 1, 2, 5])):
            s[k] = copy.deepcopy(ANNOTATIONS[k])
        return s, "permissive", None
    s = {"codec": "json", "type": "object"}
    if r < 0.2:
        # no properties: the schema still constrains objects through other keywords
        kind = rng.choice(["required", "additionalProperties", "type-only", "maxProperties"])
        if kind == "required":
            s["required"] = rng.sample(["a", "b", "id"], rng.choice([1, 2]))
        elif kind == "additionalProperties":
            s["additionalProperties"] = False
        elif kind == "maxProperties":
            s["maxProperties"] = 1
        if rng.random() < 0.3:
            s["properties"] = {}
        return s, "no-properties:" + kind, None
    if r < 0.42:
        kind = rng.choice(sorted(KEYWORD_ONLY))
        frag, good, bad = copy.deepcopy(KEYWORD_ONLY[kind])
        s.update(frag)
        if rng.random() < 0.4:
            del s["type"]
        else:
            bad = bad + [rng.choice([5, "s", [1]])]
        if rng.random() < 0.3:
            s["title"] = "t"
        return s, "keyword-only:" + kind, {"good": good, "bad": [("violates-" + kind, b) for b in bad]}
    names = rng.sample(PLAIN_NAMES + ["é", "A"], rng.choice([1, 2, 3, 4]))
    props = {}
    for n in names:
        t = rng.choice(JSON_TYPES)
        p = {} if t == "any" else {"type": t}
        if t == "object" and rng.random() < 0.5:
            p["properties"] = {"u": {"type": "number"}, "v": {"type": "string"}}
            if rng.random() < 0.5:
                p["required"] = ["u"]
        if t == "array" and rng.random() < 0.5:
            p["items"] = {"type": rng.choice(["number", "string"])}
        if t in ("number", "integer") and rng.random() < 0.25:
            p["minimum"] = 0
        if t == "string" and rng.random() < 0.25:
            p["enum"] = ["", "a", "é€😀"]
        if rng.random() < 0.35:
            p["default"] = gen_json_conforming(rng, p)
        if rng.random() < 0.1:
            p["description"] = "déscription"
        props[n] = p
    if rng.random() < 0.3:
        # mutable default values (decoded rows must not share them with the schema)
        if rng.random() < 0.5:
            props["tags"] = {"type": "array", "default": rng.choice([[], [1, 2], [{"k": []}]])}
        else:
            props["extra"] = {"type": "object", "default": rng.choice([{}, {"u": 1}, {"u": {"v": [1]}}])}
    s["properties"] = props
    if rng.random() < 0.5:
        s["required"] = [n for n in names if rng.random() < 0.5]
    if rng.random() < 0.5:
        s["additionalProperties"] = rng.random() < 0.5
    if rng.random() < 0.15:
        s["default"] = {}
    if rng.random() < 0.15:
        s["type"] = ["object", "null"]  # the meta-schema allows the union at the top level for every codec
    return s, "typed", None


def gen_json_conforming(rng, p):
    t = p.get("type", "any")
    if "enum" in p:
        return rng.choice(p["enum"])
    if "minimum" in p:
        return rng.choice([0, 1, 7, 2 ** 70, 12345678901234567890])
    if t == "object" and "properties" in p:
        o = {"u": rng.choice([1, 2.5, -3]), "v": rng.choice(["", "s"])}
        if "required" not in p and rng.random() < 0.5:
            del o["u"]
        if rng.random() < 0.5:
            del o["v"]
        return o
    if t == "array" and "items" in p:
        return [gen_json_value(rng, p["items"]["type"], 0) for _ in range(rng.choice([0, 1, 3]))]
    return gen_json_value(rng, t)


def json_norm(o):
    """What survives JSON: nothing is lost for JSON values (ints stay ints, floats stay floats)."""
    return o


# ------------------------------------------------------------------------------------------- cases


def cases(tier, seed):
    n = 16000 if tier == "quick" else 600000
    for k in range(n):
        # (97 is coprime to every worker count, so each family reaches every worker)
        r = (k * 37) % 97
        gen = "struct" if r < 72 else "json" if r < 91 else "null" if r < 96 else "cap"
        yield {"gen": gen, "k": k}


def construct(schema):
    try:
        return tskit.MetadataSchema(schema), None
    except Exception as e:  # any exception: the schema is "not accepted"
        return None, e


def run_case(case, ctx):
    rng = case_rng(case)
    if case["gen"] == "json":
        run_json(case, rng, ctx)
    elif case["gen"] == "null":
        run_null(case, rng, ctx)
    elif case["gen"] == "cap":
        run_cap(case, rng, ctx)
    else:
        run_struct(case, rng, ctx)


def try_encode(ms, obj):
    try:
        return ms.validate_and_encode_row(obj), None
    except Exception as e:
        return None, e


def run_struct(case, rng, ctx):
    schema = gen_struct_schema(rng)
    objs = [gen_value(rng, schema, boundary=rng.choice([0.2, 0.5, 0.9])) for _ in range(rng.choice([4, 5, 6]))]
    pristine = copy.deepcopy(schema)
    ms, err = construct(schema)
    ctx.count("schema/constructed")
    nprops = len(schema["properties"])
    ctx.sig((jdump(schema), jdump(objs)), nontrivial=ms is not None and nprops > 0)
    if case["k"] < 3:
        ctx.sample({"case": case, "schema": json.loads(jdump(schema)), "objects": json.loads(jdump(objs[:2]))})
    detail = {"schema": json.loads(jdump(pristine))}
    if ms is None:
        # generated schemas follow every documented restriction, so they must be accepted
        ctx.violation("schema/valid-rejected",
                      f"MetadataSchema rejected a schema that follows docs/metadata.md: {type(err).__name__}: "
                      f"{str(err)[:300]}; schema={jdump(pristine)}", detail)
        return
    if schema != pristine:
        ctx.violation("schema/input-mutated", f"MetadataSchema(...) modified its argument: {jdump(pristine)} -> "
                                               f"{jdump(schema)}", detail)
    for node, _ in walk(schema):
        t = node_type(node)
        ctx.feature("type:" + t)
        if "binaryFormat" in node:
            ctx.feature("fmt:" + parse_fmt(node["binaryFormat"])[1])
        if t == "array":
            ctx.feature("array:" + ("fixed" if "length" in node else "exhaust"
                        if node.get("noLengthEncodingExhaustBuffer") else "prefix-" + node.get("arrayLengthFormat", "default")))
            for kw in ("minItems", "maxItems"):
                if kw in node:
                    ctx.feature("keyword:" + kw)
            if node.get("arrayLengthFormat") == "B" and "maxItems" not in node and (fixed_size(node["items"]) or 9) <= 2:
                ctx.feature("array:one-byte-prefix-small-items")
        if "binaryFormat" in node:
            digits = node["binaryFormat"][:-1]
            if len(digits) > 1 and digits[0] == "0":
                ctx.feature("fmt:count-with-leading-zero")
            if digits.isdigit() and int(digits) > 65535:
                ctx.feature("fmt:field-larger-than-64KiB")
        for kw in ("enum", "maxLength", "minimum"):
            if kw in node:
                ctx.feature("keyword:" + kw)
        if t == "object" and node.get("properties", {}).get("tail", {}).get("noLengthEncodingExhaustBuffer"):
            ctx.feature("array:exhaust-in-last-nested-object")
        if "default" in node:
            ctx.feature("default@" + t)
        if node.get("nullTerminated"):
            ctx.feature("nullTerminated")
        if "stringEncoding" in node:
            ctx.feature("enc:" + node["stringEncoding"])
    mixed = has_mixed_index(schema)
    ctx.feature("index:mixed" if mixed else "index:determined")
    if isinstance(schema["type"], list):
        ctx.feature("top:object|null")
    ctx.feature(f"nesting-depth:{schema_depth(schema)}")

    # ---------------- string form
    s = repr(ms)
    ctx.count("struct/string-form")
    variants = []
    try:
        variants.append(("parse_metadata_schema(repr)", tsk_metadata.parse_metadata_schema(s)))
        variants.append(("MetadataSchema(json.loads(repr))", tskit.MetadataSchema(json.loads(s))))
        shuffled = shuffle_keys(rng, pristine)
        variants.append(("MetadataSchema(key-shuffled input)", tskit.MetadataSchema(shuffled)))
    except Exception as e:
        ctx.violation("string-form/reparse-failed", f"re-creating the schema from its string form raised "
                                                    f"{type(e).__name__}: {str(e)[:200]}; repr={s}", detail)
    for how, v in variants:
        # (an implied `required` list follows the insertion order of the input, so the key-shuffled variant is only
        # compared by behaviour)
        if "shuffled" not in how and (repr(v) != s or not (v == ms)):
            ctx.violation("string-form/not-canonical", f"{how}: repr differs\n  first : {s}\n  second: {repr(v)}",
                          detail)
    try:
        canon = json.loads(s)
        if json.dumps(canon, sort_keys=True, separators=(",", ":")) != s:
            ctx.violation("string-form/not-canonical", f"repr is not canonical JSON (sorted keys, no whitespace): {s}",
                          detail)
        str(ms)
        if ms.schema != pristine or ms.asdict() != pristine:
            ctx.violation("schema/asdict-differs", f"MetadataSchema.schema/asdict() differ from the input schema",
                          detail)
    except Exception as e:
        ctx.violation("string-form/not-json", f"repr(schema) is not JSON / str() failed: {type(e).__name__}: {e}",
                      detail)

    # ---------------- conforming objects
    good = []  # (obj, bytes, expected) rows usable for tables / numpy
    for obj in objs:
        obj_in = copy.deepcopy(obj)
        try:
            filled = fill(schema, obj)
            refs = []
            for H in (HYPOTHESES if mixed else (0,)):
                refs.append(enc(schema, filled, H))
            exp = expected(schema, filled)
        except Either:
            ctx.count("struct/either-object")
            b, e = try_encode(ms, obj)
            if b is not None:
                try:
                    ms.decode_row(b)
                except Exception:
                    pass
            continue
        b, e = try_encode(ms, obj)
        ctx.count("struct/roundtrip")
        if obj != obj_in and not (jdump(obj) == jdump(obj_in)):
            ctx.violation("encode/input-mutated", f"validate_and_encode_row modified its argument", detail)
        if e is not None:
            ctx.violation("struct/conforming-rejected",
                          f"validate_and_encode_row raised {type(e).__name__}: {str(e)[:200]} for a conforming object "
                          f"{jdump(obj)} schema={s}", detail)
            continue
        ctx.count("struct/layout")
        H = (HYPOTHESES if mixed else (0,))[refs.index(b)] if b in refs else 0
        if b not in refs:
            ctx.violation("struct/layout",
                          f"encoded bytes differ from the documented layout: got {b.hex()} expected {refs[0].hex()} "
                          f"obj={jdump(obj)} schema={s}", detail)
        if isinstance(schema["type"], list) and obj is not None and len(refs[0]) == 0:
            ctx.count("struct/either-object")
            continue
        try:
            d = ms.decode_row(b)
        except Exception as e2:
            ctx.violation("struct/decode-raises",
                          f"decode_row raised {type(e2).__name__}: {str(e2)[:200]} on the bytes it encoded "
                          f"({b.hex()}) obj={jdump(obj)} schema={s}", detail)
            continue
        if not deep_eq(d, exp):
            ctx.violation("struct/roundtrip",
                          f"decode(encode(obj)) = {jdump(d)} expected {jdump(exp)} obj={jdump(obj)} bytes={b.hex()} "
                          f"schema={s}", detail)
            continue
        # encode_row (no validation) gives the same bytes
        try:
            if ms.encode_row(obj) != b:
                ctx.violation("struct/encode_row-differs", f"encode_row != validate_and_encode_row for {jdump(obj)}",
                              detail)
        except Exception as e2:
            ctx.violation("struct/encode_row-differs", f"encode_row raised {type(e2).__name__} for {jdump(obj)}", detail)
        # the decoded object encodes to the reference layout of itself (== b except for Pascal strings longer
        # than 255 bytes, whose tail is stored but not returned)
        try:
            b_re = enc(schema, exp, H)
        except Either:
            b_re = None
        if exp is not None and b_re is not None:
            b2, e2 = try_encode(ms, d)
            ctx.count("struct/re-encode")
            if b2 != b_re:
                ctx.violation("struct/re-encode",
                              f"encoding the decoded object gives {b2.hex() if b2 is not None else repr(e2)}, "
                              f"documented layout {b_re.hex()} obj={jdump(d)} schema={s}", detail)
        # (the cached re-parse sees every object; the two re-constructions, which share all code with it, the first two)
        for how, v in (variants if len(good) < 2 else variants[:1]):
            ctx.count("struct/string-form:objects")
            bv, ev = try_encode(v, obj)
            if bv != b:
                ctx.violation("string-form/behaviour-differs",
                              f"{how} encodes {jdump(obj)} as {bv.hex() if bv is not None else repr(ev)[:100]}, the "
                              f"original schema as {b.hex()}; repr={s}", detail)
                continue
            try:
                dv = v.decode_row(b)
            except Exception as e3:
                dv = e3
            if not deep_eq(dv, exp):
                ctx.violation("string-form/behaviour-differs",
                              f"{how} decodes {b.hex()} as {jdump(dv) if not isinstance(dv, Exception) else dv!r}, "
                              f"expected {jdump(exp)}; repr={s}", detail)
        good.append((obj, b, exp, b_re))

    check_object_api(ctx, rng, ms, schema, pristine, good, s, detail)

    # ---------------- non-conforming objects
    bad_objs = []
    base_objs = [g[0] for g in good] or objs
    draws = []
    for _ in range(rng.choice([2, 3, 4])):
        base = rng.choice(base_objs)
        cands = []
        collect_mutations(schema, base, [], cands)
        if not cands:
            continue
        # draw the class first so that rare classes are not swamped by the frequent ones
        classes = sorted({c[0] for c in cands})
        cls = rng.choice(classes)
        draws.append((base,) + rng.choice([c for c in cands if c[0] == cls]))
    # classes that need a rare schema feature are always exercised when the schema has the feature
    for base in base_objs[:2]:
        cands = []
        collect_mutations(schema, base, [], cands)
        for cls in sorted(RARE_CLASSES & {c[0] for c in cands} - {d[1] for d in draws}):
            draws.append((base,) + [c for c in cands if c[0] == cls][0])
    for base, cls, path, op in draws:
        try:
            bad = apply_mutation(base, path, op)
        except Exception:
            continue
        bad_objs.append((cls, bad))
        ctx.count("struct/nonconforming-rejected")
        ctx.feature("bad:" + cls)
        b, e = try_encode(ms, bad)
        if e is None:
            ctx.violation(f"struct/nonconforming-accepted/{cls}",
                          f"validate_and_encode_row accepted {jdump(bad)} ({cls} at {path}) -> {b.hex()}; schema={s}",
                          detail)
        else:
            ctx.feature("reject-exc:" + type(e).__name__)

    # ---------------- numpy structured view
    check_numpy(ctx, ms, schema, good, s, detail)

    # ---------------- tables
    check_tables(ctx, rng, ms, schema, good, bad_objs, s, detail)

    # ---------------- invalid schemas derived from this one
    for _ in range(2):
        inv, cls = invalid_schema(rng, pristine if fixed_size(pristine) is not None or True else None)
        ctx.count("schema/invalid-rejected")
        ctx.feature("invalid:" + cls)
        m2, e = construct(inv)
        if m2 is not None:
            ctx.violation(f"schema/invalid-accepted/{cls}", f"MetadataSchema accepted {jdump(inv)} ({cls})",
                          {"schema": json.loads(jdump(inv))})
        elif not isinstance(e, tskit.MetadataSchemaValidationError) and cls not in LAX_EXCEPTION:
            ctx.violation(f"schema/invalid-wrong-exception/{cls}",
                          f"MetadataSchema({jdump(inv)}) raised {type(e).__name__}: {str(e)[:200]}; documented: "
                          f"MetadataSchemaValidationError", {"schema": json.loads(jdump(inv))})


def scramble(o):
    """Destructively edit a schema dict (what a caller may do with the copy handed out by .schema / .asdict())."""
    if isinstance(o, dict):
        for v in list(o.values()):
            scramble(v)
        if "binaryFormat" in o:
            o["binaryFormat"] = "Q"
        o.pop("default", None)
        o.pop("index", None)
        if isinstance(o.get("properties"), dict):
            o["properties"]["zz_scrambled"] = {"type": "number", "binaryFormat": "d"}
        if "required" in o:
            o["required"] = []
    elif isinstance(o, list):
        for v in o:
            scramble(v)


_OTHERS = []


def other_schemas():
    if not _OTHERS:
        _OTHERS.extend([
            ("the null schema", tskit.MetadataSchema(None)),
            ("permissive_json()", tskit.MetadataSchema.permissive_json()),
            ("an empty struct schema", tskit.MetadataSchema({"codec": "struct", "type": "object", "properties": {}})),
            ("a one-field struct schema", tskit.MetadataSchema(
                {"codec": "struct", "type": "object", "properties": {"zz_eq": {"type": "number", "binaryFormat": "b"}}})),
        ])
    return _OTHERS


def check_object_api(ctx, rng, ms, schema, pristine, good, s, detail):
    """Alternative argument forms and object-identity questions around one accepted struct schema."""
    # the dict handed out by .schema / .asdict() is the caller's to modify ("one possible use of this is to modify this
    # dict and then pass it to the MetadataSchema constructor"): editing it must not reach the schema object
    ctx.count("schema/handed-out-dict-isolated")
    try:
        for how in ("schema", "asdict"):
            d = ms.schema if how == "schema" else ms.asdict()
            scramble(d)
            if ms.schema != pristine or ms.asdict() != pristine or repr(ms) != s:
                ctx.violation("schema/handed-out-dict-aliased",
                              f"editing the dict returned by MetadataSchema.{how} changed the schema object: "
                              f"schema={jdump(ms.schema)} repr={repr(ms)} expected {s}", detail)
                return
        for obj, b, exp, _ in good[:2]:
            if ms.validate_and_encode_row(obj) != b or not deep_eq(ms.decode_row(b), exp):
                ctx.violation("schema/handed-out-dict-aliased",
                              f"after editing the dict returned by .schema/.asdict() the schema encodes/decodes "
                              f"{jdump(obj)} differently; schema={s}", detail)
                return
    except Exception as e:
        ctx.violation("schema/handed-out-dict-aliased", f".schema/.asdict() isolation check raised {type(e).__name__}: "
                                                        f"{str(e)[:200]}; schema={s}", detail)
    # equality: same schema text -> equal (checked with the re-parsed variants); any other schema -> not equal
    ctx.count("schema/equality")
    try:
        for name, other in other_schemas():
            if repr(other) != s and ((ms == other) or not (ms != other)):
                ctx.violation("schema/equality", f"MetadataSchema == {name} although the schemas differ; schema={s}", detail)
        if not (ms == ms) or (ms != ms):
            ctx.violation("schema/equality", f"MetadataSchema != itself; schema={s}", detail)
    except Exception as e:
        ctx.violation("schema/equality", f"MetadataSchema equality raised {type(e).__name__}: {str(e)[:200]}", detail)
    # a dict subclass with another insertion order is the same object
    for obj, b, exp, _ in good[:1]:
        if isinstance(obj, dict) and obj:
            ctx.count("struct/arg-form:OrderedDict")
            od = collections.OrderedDict(reversed(list(obj.items())))
            bo, eo = try_encode(ms, od)
            if bo != b:
                ctx.violation("struct/arg-form-differs",
                              f"validate_and_encode_row(OrderedDict(reversed(obj.items()))) = "
                              f"{bo.hex() if bo is not None else repr(eo)[:120]}, the dict gives {b.hex()}; "
                              f"obj={jdump(obj)} schema={s}", detail)
    # additionalProperties: true written into a struct schema: the docs say additional properties are disallowed under
    # this codec ("must be set to False ... assumed by default"), so the schema may be refused (EITHER), but when it is
    # accepted an object with an extra key must still be rejected and conforming objects keep their bytes
    if good and rng.random() < 0.15 and isinstance(good[0][0], dict):
        loose = copy.deepcopy(pristine)
        nodes = [n for n, _ in walk(loose) if node_type(n) == "object"]
        for n in nodes:
            if n is loose or rng.random() < 0.5:
                n["additionalProperties"] = True
        m2, _ = construct(loose)
        ctx.count("struct/additionalProperties-true")
        if m2 is not None:
            ctx.feature("additionalProperties:true-accepted")
            obj, b = good[0][0], good[0][1]
            b2, e2 = try_encode(m2, obj)
            if b2 != b:
                ctx.violation("struct/additionalProperties-true",
                              f"with additionalProperties: true the object {jdump(obj)} encodes as "
                              f"{b2.hex() if b2 is not None else repr(e2)[:120]} instead of {b.hex()}; schema={s}", detail)
            b3, e3 = try_encode(m2, dict(obj, zz_extra=1))
            if e3 is None:
                ctx.violation("struct/nonconforming-accepted/extra-key-additionalProperties-true",
                              f"a struct schema written with additionalProperties: true accepted (and silently dropped) "
                              f"the extra key of {jdump(dict(obj, zz_extra=1))}; schema={jdump(loose)}", detail)


def shuffle_keys(rng, o):
    if isinstance(o, dict):
        items = [(k, shuffle_keys(rng, v)) for k, v in o.items()]
        rng.shuffle(items)
        return dict(items)
    if isinstance(o, list):
        return [shuffle_keys(rng, v) for v in o]
    return o


# ------------------------------------------------------------------------------------------- numpy view


def np_compare(v, node, exp, raw, bad, path="row"):
    """Compare one numpy value with the expected decoded object / reference bytes of that component."""
    t = node_type(node)
    if t == "object":
        off = 0
        for k in prop_order(node["properties"], 0):
            sub = node["properties"][k]
            size = fixed_size(sub)
            if node_type(sub) == "null":
                off += size
                continue
            fields = v.dtype.fields
            if k not in fields:
                bad.append(f"{path}: field {k!r} missing from dtype {v.dtype}")
                return
            if fields[k][1] != off:
                bad.append(f"{path}.{k}: dtype offset {fields[k][1]} expected {off}")
            np_compare(v[k], sub, exp[k], raw[off:off + size], bad, f"{path}.{k}")
            off += size
        if v.dtype.itemsize != off:
            bad.append(f"{path}: itemsize {v.dtype.itemsize} expected {off}")
        return
    if t == "array":
        if len(v) != node["length"]:
            bad.append(f"{path}: shape {np.shape(v)} expected length {node['length']}")
            return
        size = fixed_size(node["items"])
        for i in range(node["length"]):
            np_compare(v[i], node["items"], exp[i], raw[i * size:(i + 1) * size], bad, f"{path}[{i}]")
        return
    n, c = parse_fmt(node["binaryFormat"])
    if c in NP_KIND:
        want = np.dtype("<" + NP_KIND[c]) if c != "?" else np.dtype("?")
        if v.dtype != want:
            bad.append(f"{path}: dtype {v.dtype} expected {want} for format {c}")
        got = v.item()
        if not deep_eq(got, exp):
            bad.append(f"{path}: numpy value {got!r} != decoded {exp!r}")
        return
    got = bytes(v)
    if got.rstrip(b"\0") != raw.rstrip(b"\0"):
        bad.append(f"{path}: numpy bytes {got!r} != stored {raw!r}")
    e = node.get("stringEncoding", "utf-8")
    if isinstance(exp, str) and not node.get("nullTerminated") and e not in ("utf-16", "utf-32"):
        # (utf-16 / utf-32 prepend a byte-order mark on every encode: the stored-bytes comparison above decides there)
        if exp.encode(e).rstrip(b"\0") != got.rstrip(b"\0"):
            bad.append(f"{path}: numpy bytes {got!r} != decoded string {exp!r}")


def check_numpy(ctx, ms, schema, good, s, detail, buffers=None):
    cls = numpy_class(schema)
    mixed = has_mixed_index(schema)
    try:
        dt = ms.numpy_dtype()
        err = None
    except Exception as e:
        dt, err = None, e
    ctx.count("struct/numpy-dtype")
    ctx.feature("numpy:" + cls)
    if cls == "refused":
        if dt is not None:
            ctx.violation("numpy/unsupported-schema-accepted",
                          f"numpy_dtype() returned {dt} for a schema with variable-length arrays / Pascal strings / "
                          f"nullable top level: {s}", detail)
        return
    if cls == "either" or mixed:
        if dt is None:
            return
    elif dt is None:
        ctx.violation("numpy/supported-schema-refused",
                      f"numpy_dtype() raised {type(err).__name__}: {err} for a fixed-size schema {s}", detail)
        return
    size = fixed_size(schema)
    rows = [(g[1], g[2]) for g in good]
    if not rows or size == 0:
        return
    buf = b"".join(b for b, _ in rows)
    try:
        arr = ms.structured_array_from_buffer(buf)
    except Exception as e:
        if cls == "either":
            return
        ctx.violation("numpy/view-raises", f"structured_array_from_buffer raised {type(e).__name__}: {e}; schema={s}",
                      detail)
        return
    ctx.count("struct/numpy-view")
    bad = []
    if len(arr) != len(rows) or arr.dtype.itemsize != size:
        bad.append(f"{len(arr)} rows of {arr.dtype.itemsize} bytes, expected {len(rows)} rows of {size}")
    else:
        for i, (b, exp) in enumerate(rows):
            ctx.count("struct/numpy-view:rows")
            np_compare(arr[i], schema, exp, b, bad, f"row{i}")
        # other buffer forms (a metadata column is an int8 numpy array; bytearray / memoryview are buffers too) and the
        # empty column give the same rows / no rows with the same dtype
        ctx.count("struct/numpy-view:buffer-forms")
        for how, other in (("np.int8 array", np.frombuffer(buf, dtype=np.int8)), ("bytearray", bytearray(buf)),
                           ("memoryview", memoryview(buf)), ("empty bytes", b"")):
            try:
                a2 = ms.structured_array_from_buffer(other)
                want = buf if how != "empty bytes" else b""
                if a2.dtype != arr.dtype or a2.tobytes() != want or len(a2) != (len(rows) if want else 0):
                    bad.append(f"structured_array_from_buffer({how}): {len(a2)} rows dtype {a2.dtype}, from bytes "
                               f"{len(arr)} rows dtype {arr.dtype}")
            except Exception as e:
                bad.append(f"structured_array_from_buffer({how}) raised {type(e).__name__}: {e}")
    if bad and not mixed:
        ctx.violation("numpy/view-differs", f"structured view differs from row-wise decoding: {bad[:3]} dtype="
                                            f"{arr.dtype} schema={s}", detail)


# ------------------------------------------------------------------------------------------- tables

KINDS = ["nodes", "edges", "sites", "mutations", "individuals", "populations", "migrations", "top", "refseq"]


def column_rows(table):
    md = np.asarray(table.metadata).tobytes()
    off = table.metadata_offset
    return [md[off[j]:off[j + 1]] for j in range(len(off) - 1)]


def add_row_to(tc, kind, j, **kw):
    if kind == "nodes":
        return tc.nodes.add_row(flags=1, time=0, **kw)
    if kind == "edges":
        return tc.edges.add_row(0, tc.sequence_length, 0, j + 1, **kw)
    if kind == "sites":
        return tc.sites.add_row(j, "A", **kw)
    if kind == "mutations":
        return tc.mutations.add_row(site=j, node=0, derived_state="T", **kw)
    if kind == "individuals":
        return tc.individuals.add_row(**kw)
    if kind == "populations":
        return tc.populations.add_row(**kw)
    if kind == "migrations":
        return tc.migrations.add_row(0, tc.sequence_length, 1, 0, 1, time=j + 0.5, **kw)
    raise AssertionError(kind)


def skeleton(kind, nrows):
    """A table collection in which `nrows` rows of `kind` can be added and tree_sequence() succeeds."""
    tc = tskit.TableCollection(sequence_length=max(nrows, 1) + 4)
    if kind == "edges":
        tc.nodes.add_row(flags=0, time=1)
        for _ in range(nrows):
            tc.nodes.add_row(flags=1, time=0)
    elif kind == "mutations":
        tc.nodes.add_row(flags=1, time=0)
        for j in range(nrows):
            tc.sites.add_row(j, "A")
    elif kind == "migrations":
        tc.populations.add_row()
        tc.populations.add_row()
        tc.nodes.add_row(flags=1, time=0)
        tc.nodes.add_row(flags=1, time=0)
    return tc


def default_acceptable(schema, codec):
    """Byte strings that may be stored when no metadata is given ("the default metadata value for the table's schema,
    typically {}"; None for a nullable top level on the unchanged tree: either is accepted there).  None = no claim."""
    acceptable = set()
    nullable = isinstance(schema.get("type"), list)
    if codec == "struct":
        if nullable:
            acceptable.add(b"")
        if not required_keys(schema):
            for H in HYPOTHESES:
                try:
                    acceptable.add(enc(schema, fill(schema, {}), H))
                except (Either, Reject):
                    return None
    else:
        acceptable = {b"{}"} if not schema.get("required") else set()
        if nullable:
            acceptable.add(b"null")
        if not schema.get("properties"):
            return None  # validation of property-less JSON schemas is covered by run_json itself
    return acceptable


def check_table_forms(ctx, table, kind, good, n, s, equal, detail):
    """copy() / slices / index arrays / masks / pickles of a table carry the schema and decode like the table."""
    forms = [("copy()", lambda: table.copy()),
             ("[0:n]", lambda: table[0:n]),
             ("[np.arange(n)]", lambda: table[np.arange(n)]),
             ("[bool mask]", lambda: table[np.arange(table.num_rows) < n]),
             ("pickle round trip", lambda: pickle.loads(pickle.dumps(table))),
             ("[list(range(n))]", lambda: table[list(range(n))]),
             ("[::-1]", lambda: table[::-1][::-1])]
    how, f = forms[(ctx.case["k"] // 3) % len(forms)]
    ctx.count("table/derived-table")
    ctx.feature("derived-table:" + how)
    t2 = f()
    if repr(t2.metadata_schema) != s:
        ctx.violation("table/derived-table-schema", f"{kind}{how if how[0] == '[' else '.' + how}: metadata_schema is "
                                                    f"{repr(t2.metadata_schema)[:200]!r}, expected {s}", detail)
        return
    for j in range(n):
        if not equal(t2[j].metadata, good[j][2]):
            ctx.violation("table/derived-table-metadata", f"{kind} {how}: row {j} metadata = {jdump(t2[j].metadata)} "
                                                          f"expected {jdump(good[j][2])}; schema={s}", detail)
            return
    if not equal(table[-table.num_rows].metadata, good[0][2]) or not equal(table[np.int64(0)].metadata, good[0][2]):
        ctx.violation("table/derived-table-metadata", f"{kind}[-num_rows] / [np.int64(0)] metadata differs from row 0",
                      detail)


def check_ts_rows(ctx, ts, sing, kind, good, n, s, codec, equal, detail):
    """Rows handed out by a TreeSequence (tskit.Node, tskit.Edge ...) are row-like: assigning / appending them to a table
    validates and encodes their decoded metadata with the table's schema."""
    t2 = ts.tables if ctx.case["k"] % 2 else ts.dump_tables()
    tb2 = getattr(t2, kind)
    ctx.count("table/ts-row-assign")
    for j in range(n):
        if not equal(tb2[j].metadata, good[j][2]):
            ctx.violation("ts/metadata-differs", f"ts.tables.{kind}[{j}].metadata = {jdump(tb2[j].metadata)} expected "
                                                 f"{jdump(good[j][2])}; schema={s}", detail)
            return
    tb2[0] = sing(n - 1)
    tb2.append(sing(0))
    rows = column_rows(tb2)
    for where, j in ((0, n - 1), (tb2.num_rows - 1, 0)):
        got = tb2[where].metadata
        want_b = good[j][3] if codec == "struct" else None
        if not equal(got, good[j][2]) or (want_b is not None and rows[where] != want_b):
            ctx.violation("table/ts-row-assign-differs",
                          f"{kind}[{where}] <- ts.{kind[:-1]}({j}) stored {rows[where][:64].hex()} = {jdump(got)}, expected "
                          f"{jdump(good[j][2])}; schema={s}", detail)
            return


def check_split_edges(ctx, ms, schema, good, bad_objs, s, codec, equal, detail):
    """TreeSequence.split_edges / decapitate(metadata=...) validate and encode with the node table's schema."""
    t3 = tskit.TableCollection(2)
    t3.nodes.metadata_schema = ms
    t3.nodes.add_row(flags=1, time=0, metadata=good[0][0])
    t3.nodes.add_row(flags=0, time=2, metadata=good[0][0])
    t3.edges.add_row(0, 2, 1, 0)
    ts3 = t3.tree_sequence()
    acceptable = default_acceptable(schema, codec)
    for which in ("split_edges", "decapitate"):
        f = getattr(ts3, which)
        for obj, b, exp, *_ in good[:3]:
            ctx.count("ts/split_edges-metadata")
            if obj is None:
                continue  # None means "not given"
            ts4 = f(1, metadata=obj)
            new = ts4.num_nodes - 1
            stored = column_rows(ts4.tables.nodes)[new]
            if stored != b or not equal(ts4.node(new).metadata, exp):
                ctx.violation("ts/split_edges-metadata-differs",
                              f"{which}(1, metadata={jdump(obj)}) stored {stored[:64].hex()} on the new node, expected "
                              f"{b[:64].hex()}; schema={s}", detail)
                return
        if acceptable is not None:
            try:
                ts4 = f(1)
                stored = column_rows(ts4.tables.nodes)[ts4.num_nodes - 1]
                if stored not in acceptable:
                    ctx.violation("ts/split_edges-default", f"{which}(1) stored {stored.hex()} on the new node, expected "
                                                            f"one of {sorted(a.hex() for a in acceptable)}; schema={s}",
                                  detail)
            except Exception as e:
                if acceptable and codec == "struct":
                    ctx.violation("ts/split_edges-default", f"{which}(1) raised {type(e).__name__}: {str(e)[:150]} "
                                                            f"although {{}} conforms; schema={s}", detail)
        for cls, bad in bad_objs:
            if bad is None:
                continue
            ctx.count("ts/split_edges-nonconforming-rejected")
            try:
                f(1, metadata=bad)
            except Exception:
                continue
            ctx.violation(f"ts/split_edges-nonconforming-accepted/{cls}",
                          f"{which}(1, metadata={jdump(bad)}) accepted a non-conforming object ({cls}); schema={s}", detail)
            return


def vec_same(vec, want):
    try:
        ref = np.array(want)
    except (OverflowError, ValueError, TypeError):
        return None
    return vec.dtype == ref.dtype and vec.shape == ref.shape and all(
        (x == y) or (x != x and y != y) for x, y in zip(vec.reshape(-1).tolist(), ref.reshape(-1).tolist()))


def check_metadata_vector_forms(ctx, table, kind, schema, good, n, total, codec, detail):
    """metadata_vector: list-of-names key (nested values) and default_value for absent keys."""
    exps = [g[2] for g in good]
    if not all(isinstance(e, dict) for e in exps) or total % n:
        return
    reps = total // n
    props = schema.get("properties") or {}
    scalar = ("integer", "number", "boolean", "string")
    if codec == "struct":
        for k1 in sorted(props):
            sub = props[k1]
            if node_type(sub) == "object":
                inner = [k2 for k2 in sorted(sub["properties"]) if node_type(sub["properties"][k2]) in scalar]
                if inner:
                    key = [k1, inner[0]]
                    want = [e[k1][inner[0]] for e in exps] * reps
                    break
            elif node_type(sub) in scalar:
                key = [k1]
                want = [e[k1] for e in exps] * reps
                break
        else:
            return
        ctx.count("table/metadata_vector:list-key")
        ctx.feature(f"metadata_vector:list-key-depth-{len(key)}")
        try:
            vec = table.metadata_vector(key)
            if vec_same(vec, want) is False:
                ctx.violation("table/metadata_vector", f"{kind}.metadata_vector({key!r}) = {vec.tolist()[:8]} expected "
                                                       f"{want[:8]}", detail)
        except Exception as e:
            if vec_same(np.zeros(0), want) is not None:
                ctx.violation("table/metadata_vector", f"{kind}.metadata_vector({key!r}) raised {type(e).__name__}: {e}",
                              detail)
        return
    # JSON codec: keys may be absent from a row
    keys = [k for k in sorted(props) if props[k].get("type") in scalar and "default" not in props[k]]
    if not keys:
        return
    k = keys[0]
    for dv in (-1, None):
        want = [e.get(k, dv) for e in exps] * reps
        absent = any(k not in e for e in exps)
        ctx.count("table/metadata_vector:default_value")
        ctx.feature("metadata_vector:key-absent-in-some-row" if absent else "metadata_vector:key-present")
        try:
            vec = table.metadata_vector(k, default_value=dv)
            if vec_same(vec, want) is False:
                ctx.violation("table/metadata_vector", f"{kind}.metadata_vector({k!r}, default_value={dv!r}) = "
                                                       f"{vec.tolist()[:8]} expected {want[:8]}", detail)
        except Exception as e:
            if vec_same(np.zeros(0), want) is not None:
                ctx.violation("table/metadata_vector", f"{kind}.metadata_vector({k!r}, default_value={dv!r}) raised "
                                                       f"{type(e).__name__}: {e}", detail)
    if any(k not in e for e in exps):
        # "The default behaviour is to raise KeyError on missing entries"
        try:
            table.metadata_vector(k)
            ctx.violation("table/metadata_vector", f"{kind}.metadata_vector({k!r}) did not raise although the key is "
                                                   f"absent from a row", detail)
        except KeyError:
            pass
        except Exception:
            pass  # (building the array may fail first: no claim)


def check_tables(ctx, rng, ms, schema, good, bad_objs, s, detail, codec="struct", equal=deep_eq):
    kind = KINDS[ctx.case["k"] % len(KINDS)] if rng.random() < 0.7 else rng.choice(KINDS)
    ctx.feature("container:" + kind)
    if not good:
        return
    if kind in ("top", "refseq"):
        tc = tskit.TableCollection(1)
        holder = tc if kind == "top" else tc.reference_sequence
        try:
            holder.metadata_schema = ms
            for obj, b, exp, *_ in good:
                ctx.count("table/add_row-roundtrip")
                holder.metadata = obj
                if holder.metadata_bytes != b:
                    ctx.violation("table/bytes-differ", f"{kind}.metadata_bytes = {holder.metadata_bytes.hex()} "
                                                        f"expected {b.hex()} obj={jdump(obj)} schema={s}", detail)
                if not equal(holder.metadata, exp):
                    ctx.violation("table/metadata-differs", f"{kind}.metadata = {jdump(holder.metadata)} expected "
                                                            f"{jdump(exp)} schema={s}", detail)
            if repr(holder.metadata_schema) != s:
                ctx.violation("table/schema-differs", f"{kind}.metadata_schema round trip differs", detail)
            obj, b, exp = good[-1][:3]
            for cls, bad in bad_objs:
                ctx.count("table/nonconforming-rejected")
                try:
                    holder.metadata = bad
                    ctx.violation(f"table/nonconforming-accepted/{cls}",
                                  f"{kind}.metadata = {jdump(bad)} accepted ({cls}); schema={s}", detail)
                    holder.metadata = obj
                except Exception:
                    if holder.metadata_bytes != b:
                        ctx.violation("table/changed-by-rejected-object",
                                      f"{kind}.metadata_bytes changed by a rejected assignment", detail)
            if kind == "refseq":
                tc.reference_sequence.data = "ACGT"
            ts = tc.tree_sequence()
            h2 = ts if kind == "top" else ts.reference_sequence
            ctx.count("table/ts-accessor")
            if not equal(h2.metadata, exp) or repr(h2.metadata_schema) != s or \
                    getattr(h2, "metadata_bytes", b) != b:
                ctx.violation("ts/metadata-differs", f"TreeSequence {kind} metadata = {jdump(h2.metadata)} expected "
                                                     f"{jdump(exp)} schema={s}", detail)
            t2 = ts.dump_tables()
            h3 = t2 if kind == "top" else t2.reference_sequence
            if not equal(h3.metadata, exp):
                ctx.violation("ts/metadata-differs", f"dump_tables() {kind} metadata differs", detail)
        except Exception as e:
            ctx.violation("table/raises", f"{kind} metadata path raised {type(e).__name__}: {str(e)[:200]}; "
                                          f"schema={s}", detail)
        return
    n = len(good)
    tc = skeleton(kind, 2 * n + 2)
    table = getattr(tc, kind)
    try:
        table.metadata_schema = ms
        if repr(table.metadata_schema) != s:
            ctx.violation("table/schema-differs", f"{kind}.metadata_schema round trip differs: "
                                                  f"{repr(table.metadata_schema)} vs {s}", detail)
        for j, (obj, *_) in enumerate(good):
            add_row_to(tc, kind, j, metadata=obj)
        rows = column_rows(table)
        for j, (obj, b, exp, *_) in enumerate(good):
            ctx.count("table/add_row-roundtrip")
            if rows[j] != b:
                ctx.violation("table/bytes-differ", f"{kind}.add_row stored {rows[j].hex()} expected {b.hex()} "
                                                    f"obj={jdump(obj)} schema={s}", detail)
                return  # never decode bytes of unknown layout through the table (may loop on garbage lengths)
            r = table[j]
            got = r.metadata
            if not equal(r.metadata, got):
                ctx.violation("table/metadata-differs", f"{kind}[{j}].metadata changes between two accesses", detail)
            if not equal(got, exp):
                ctx.violation("table/metadata-differs", f"{kind}[{j}].metadata = {jdump(got)} expected {jdump(exp)} "
                                                        f"schema={s}", detail)
        for j, row in enumerate(table):
            if not equal(row.metadata, good[j][2]):
                ctx.violation("table/metadata-differs", f"iterating {kind}: row {j} metadata differs", detail)
        # non-conforming objects: add_row / row assignment must raise and leave the table alone
        before = (table.num_rows, bytes(np.asarray(table.metadata).tobytes()), table.metadata_offset.tobytes())
        for cls, bad in bad_objs:
            for how in ("add_row", "setitem", "append"):
                if bad is None and how != "setitem":
                    continue  # add_row(metadata=None) means "no metadata given": the schema's empty value is stored
                ctx.count("table/nonconforming-rejected")
                try:
                    if how == "add_row":
                        add_row_to(tc, kind, n, metadata=bad)
                    elif how == "setitem":
                        table[0] = table[0].replace(metadata=bad)
                    else:
                        table.append(table[n - 1].replace(metadata=bad))
                    ctx.violation(f"table/nonconforming-accepted/{cls}",
                                  f"{kind}.{how} accepted {jdump(bad)} ({cls}); schema={s}", detail)
                    return
                except Exception:
                    pass
                after = (table.num_rows, bytes(np.asarray(table.metadata).tobytes()), table.metadata_offset.tobytes())
                if after != before:
                    ctx.violation("table/changed-by-rejected-object",
                                  f"{kind}.{how} raised for {jdump(bad)} but the table changed", detail)
                    return
        # row assignment: rotate the objects
        ctx.count("table/setitem")
        perm = list(range(n))
        rng.shuffle(perm)
        for j in range(n):
            table[j] = table[j].replace(metadata=good[perm[j]][0])
        rows = column_rows(table)
        for j in range(n):
            if rows[j] != good[perm[j]][1] or not equal(table[j].metadata, good[perm[j]][2]):  # (short-circuit)
                ctx.violation("table/setitem-differs", f"{kind}[{j}] = row.replace(metadata=obj) stored "
                                                       f"{rows[j].hex()} expected {good[perm[j]][1].hex()}", detail)
                return
        # packset_metadata with validate_and_encode_row (the documented bulk idiom) restores the first order
        ctx.count("table/packset")
        table.packset_metadata([ms.validate_and_encode_row(g[0]) for g in good])
        if column_rows(table) != [g[1] for g in good]:
            ctx.violation("table/packset-differs", f"{kind}.packset_metadata did not store the encoded rows", detail)
            return
        # append(row): a decoded row re-encodes to the same bytes
        if codec == "struct":
            for j in range(n):
                if good[j][2] is None and not isinstance(schema["type"], list):
                    continue
                r = table[j]
                if kind == "edges":
                    r = r.replace(child=n + 1 + j)
                elif kind == "sites":
                    r = r.replace(position=n + j)
                elif kind == "mutations":
                    r = r.replace(site=n + j)
                elif kind == "migrations":
                    r = r.replace(time=n + j + 0.5)
                table.append(r)
            rows = column_rows(table)
            ctx.count("table/append")
            want_rows = [g[3] for g in good if not (g[2] is None and not isinstance(schema["type"], list))]
            if None not in want_rows and rows[n:] != want_rows:
                ctx.violation("table/append-differs", f"{kind}.append(table[j]) stored different metadata bytes: "
                                                      f"{[r.hex() for r in rows[n:]][:3]} expected "
                                                      f"{[r.hex() for r in want_rows][:3]}", detail)
        # cross-schema row assignment: a lazily decoded row that comes from a table with ANOTHER schema must be decoded
        # with its own schema and then validated and encoded with the destination's (objects that violate the
        # destination schema are rejected, conforming ones are stored in the destination codec)
        if n >= 1:
            snap = (table.num_rows, bytes(np.asarray(table.metadata).tobytes()), table.metadata_offset.tobytes())
            src = table.copy()
            src.metadata_schema = tskit.MetadataSchema(None)
            src.packset_metadata([b"\x00\x01raw"] * src.num_rows)
            ctx.count("table/cross-schema-setitem")
            try:
                table[0] = src[0]
                ctx.violation("table/cross-schema-setitem-accepted/raw-bytes",
                              f"{kind}[0] = row of a schema-less table (metadata b'\\x00\\x01raw') was accepted by a table "
                              f"with schema {s}", detail)
            except Exception:
                pass
            after = (table.num_rows, bytes(np.asarray(table.metadata).tobytes()), table.metadata_offset.tobytes())
            if after != snap:
                ctx.violation("table/changed-by-rejected-object", f"{kind}[0] = foreign row raised or not, but the table "
                                                                    f"changed", detail)
                return
            # a JSON-coded source carrying the same objects: the destination must re-encode them with its own codec
            try:
                jbytes = [tskit.canonical_json(g[0]).encode() for g in good[:n]]
                json.loads(jbytes[0])
            except Exception:
                jbytes = None
            if jbytes is not None and codec == "struct" and all(g[2] is not None for g in good[:n]):
                src2 = table.copy()
                src2.truncate(n)
                src2.metadata_schema = tskit.MetadataSchema({"codec": "json"})
                src2.packset_metadata(jbytes)
                ok = True
                for j in range(n):
                    try:
                        table[j] = src2[j]
                    except Exception as e:
                        if deep_eq(json.loads(jbytes[j]), good[j][0]):  # JSON kept the object intact, so it conforms
                            ctx.violation("table/cross-schema-setitem-rejected",
                                          f"{kind}[{j}] = row from a JSON-coded table holding the conforming object "
                                          f"{jdump(good[j][0])} raised {e!r}", detail)
                        ok = False
                        break
                if ok:
                    rows2 = column_rows(table)
                    for j in range(n):
                        if deep_eq(json.loads(jbytes[j]), good[j][0]) and rows2[j] != good[j][1]:
                            ctx.violation("table/cross-schema-setitem-differs",
                                          f"{kind}[{j}] = row from a JSON-coded table stored {rows2[j].hex()}, the destination's "
                                          f"encoding of {jdump(good[j][0])} is {good[j][1].hex()}", detail)
                            return
        total = table.num_rows
        check_table_forms(ctx, table, kind, good, n, s, equal, detail)
        # metadata_vector on a top-level scalar key: np.array over row.metadata[key]
        if codec == "struct" and schema["properties"] and all(g[2] is not None for g in good) and total == 2 * n:
            key = sorted(schema["properties"])[0]
            sub = schema["properties"][key]
            if node_type(sub) in ("integer", "number", "boolean", "string"):
                ctx.count("table/metadata_vector")
                want = [g[2][key] for g in good] * 2
                try:
                    ref = np.array(want)
                except (OverflowError, ValueError, TypeError):
                    ref = None
                if ref is not None:
                    try:
                        vec = table.metadata_vector(key)
                        ok = vec.dtype == ref.dtype and vec.shape == ref.shape and all(
                            (x == y) or (x != x and y != y) for x, y in zip(vec.tolist(), ref.tolist()))
                        if not ok:
                            ctx.violation("table/metadata_vector", f"{kind}.metadata_vector({key!r}) = {vec.tolist()} "
                                                                   f"expected {ref.tolist()}", detail)
                    except Exception as e:
                        ctx.violation("table/metadata_vector", f"{kind}.metadata_vector({key!r}) raised "
                                                               f"{type(e).__name__}: {e}", detail)
        check_metadata_vector_forms(ctx, table, kind, schema, good, n, total, codec, detail)
        ts = tc.tree_sequence()
        ctx.count("table/ts-accessor")
        sing = {"nodes": ts.node, "edges": ts.edge, "sites": ts.site, "mutations": ts.mutation,
                "individuals": ts.individual, "populations": ts.population, "migrations": ts.migration}[kind]
        for j in range(n):
            got = sing(j).metadata
            if not equal(got, good[j][2]):
                ctx.violation("ts/metadata-differs", f"ts.{kind[:-1]}({j}).metadata = {jdump(got)} expected "
                                                     f"{jdump(good[j][2])} schema={s}", detail)
        for j, row in enumerate(getattr(ts, kind)()):
            if j < n and not equal(row.metadata, good[j][2]):
                ctx.violation("ts/metadata-differs", f"ts.{kind}() row {j} metadata differs", detail)
        if kind == "edges":
            # edges handed out by edge_diffs carry decoded metadata as well (both directions have their own loop)
            for kw in ({}, {"direction": tskit.REVERSE}, {"include_terminal": True},
                       {"include_terminal": True, "direction": tskit.REVERSE}):
                ctx.count("ts/edge_diffs")
                seen = 0
                for _, eout, ein in ts.edge_diffs(**kw):
                    for e in list(eout) + list(ein):
                        seen += 1
                        if e.id < n and not equal(e.metadata, good[e.id][2]):
                            ctx.violation("ts/metadata-differs", f"edge_diffs({kw}) edge {e.id} metadata = "
                                                                 f"{jdump(e.metadata)} expected {jdump(good[e.id][2])}",
                                          detail)
                if seen < n:
                    ctx.violation("ts/metadata-differs", f"edge_diffs({kw}) handed out {seen} edges, expected >= {n}",
                                  detail)
        if kind == "nodes":
            check_split_edges(ctx, ms, schema, good, bad_objs, s, codec, equal, detail)
        check_ts_rows(ctx, ts, sing, kind, good, n, s, codec, equal, detail)
        if kind == "mutations":
            for j in range(n):
                got = ts.site(j).mutations[0].metadata
                if not equal(got, good[j][2]):
                    ctx.violation("ts/metadata-differs", f"ts.site({j}).mutations[0].metadata = {jdump(got)} expected "
                                                         f"{jdump(good[j][2])}", detail)
        if kind == "sites":
            for j, var in enumerate(ts.variants()):
                if j < n and not equal(var.site.metadata, good[j][2]):
                    ctx.violation("ts/metadata-differs", f"variants() site {j} metadata differs", detail)
        schemas = ts.table_metadata_schemas
        if repr(getattr(schemas, kind[:-1])) != s:
            ctx.violation("ts/schema-differs", f"ts.table_metadata_schemas.{kind[:-1]} differs from the schema", detail)
        if codec == "struct":
            cls = numpy_class(schema)
            size = fixed_size(schema)
            try:
                arr = getattr(ts, kind + "_metadata")
            except Exception as e:
                arr = None
                if cls == "supported" and not has_mixed_index(schema) and size:
                    ctx.violation("numpy/view-raises", f"ts.{kind}_metadata raised {type(e).__name__}: {e}; "
                                                       f"schema={s}", detail)
            if arr is not None and cls == "refused":
                ctx.violation("numpy/unsupported-schema-accepted", f"ts.{kind}_metadata returned an array for {s}",
                              detail)
            if arr is not None and cls != "refused" and size:
                ctx.count("struct/numpy-view")
                ctx.count("struct/numpy-view:ts")
                bad = []
                if len(arr) != total:
                    bad.append(f"{len(arr)} rows expected {total}")
                else:
                    for j in range(n):
                        np_compare(arr[j], schema, good[j][2], good[j][1], bad, f"row{j}")
                if bad and not has_mixed_index(schema):
                    ctx.violation("numpy/view-differs", f"ts.{kind}_metadata differs from row-wise decoding: {bad[:3]} "
                                                        f"schema={s}", detail)
        # add_row() without metadata stores "the default metadata value for the table's schema, typically {}"
        # (None for a nullable top level on the unchanged tree: either is accepted there)
        ctx.count("table/add_row-default")
        acceptable = default_acceptable(schema, codec)
        if acceptable is not None:
            nrows = table.num_rows
            try:
                add_row_to(tc, kind, nrows + 7)
                stored = column_rows(table)[-1] if table.num_rows == nrows + 1 else None
                if stored not in acceptable:
                    ctx.violation("table/add_row-default",
                                  f"{kind}.add_row() without metadata stored "
                                  f"{stored.hex() if stored is not None else None}, expected one of "
                                  f"{sorted(a.hex() for a in acceptable)}; schema={s}", detail)
            except Exception as e:
                if acceptable and codec == "struct":
                    ctx.violation("table/add_row-default",
                                  f"{kind}.add_row() without metadata raised {type(e).__name__}: {str(e)[:150]} "
                                  f"although {{}} conforms (all properties have defaults); schema={s}", detail)
    except Exception as e:
        import traceback

        ctx.violation("table/raises", f"{kind} metadata path raised {type(e).__name__}: {str(e)[:200]}; schema={s}",
                      dict(detail, tb=traceback.format_exc()[-1500:]))


# ------------------------------------------------------------------------------------------- no schema / capacity


def run_null(case, rng, ctx):
    """The null schema (MetadataSchema(None) / MetadataSchema.null() / the empty string form): metadata is raw bytes,
    stored and returned verbatim; anything that is not bytes is refused ("If no encoding is set metadata should be
    bytes")."""
    forms = [("MetadataSchema(None)", lambda: tskit.MetadataSchema(None)),
             ("MetadataSchema.null()", tskit.MetadataSchema.null),
             ("parse_metadata_schema('')", lambda: tsk_metadata.parse_metadata_schema(""))]
    how, f = forms[case["k"] % 3]
    ctx.feature("null-schema:" + how)
    detail = {"schema": None, "form": how}
    try:
        ms = f()
    except Exception as e:
        ctx.violation("null-schema/construct", f"{how} raised {type(e).__name__}: {e}", detail)
        return
    values = [b"", b"\x00", bytes(rng.randrange(256) for _ in range(rng.choice([1, 2, 7, 40]))), b"{}", b"null",
              "é€".encode(), bytes(range(256)), b"ab" * rng.choice([3, 40000])]
    rng.shuffle(values)
    values = values[:rng.choice([3, 4, 5])]
    ctx.sig((how, [v[:64].hex() for v in values], [len(v) for v in values]), nontrivial=True)
    ctx.count("null-schema/roundtrip")
    try:
        if repr(ms) != "" or ms.schema is not None or ms.asdict() is not None or not (ms == tskit.MetadataSchema(None)) \
                or ms == tskit.MetadataSchema.permissive_json():
            ctx.violation("null-schema/string-form", f"{how}: repr={repr(ms)!r} schema={ms.schema!r}; expected '' / None / "
                                                     f"equal to the null schema only", detail)
        str(ms)
        for v in values:
            b = ms.validate_and_encode_row(v)
            if b != v or ms.encode_row(v) != v or ms.decode_row(v) != v or type(ms.decode_row(v)) is not bytes:
                ctx.violation("null-schema/roundtrip", f"{how}: {v[:40]!r} encodes as {b!r:.80} / decodes as "
                                                       f"{ms.decode_row(v)!r:.80}", detail)
    except Exception as e:
        ctx.violation("null-schema/roundtrip", f"{how}: raw bytes raised {type(e).__name__}: {str(e)[:200]}", detail)
    bad = [("str", "ab"), ("dict", {}), ("dict", {"a": 1}), ("int", 5), ("list", [1]), ("float", 1.5), ("bool", True)]
    for cls, v in bad:
        ctx.count("null-schema/non-bytes-rejected")
        _, e = try_encode(ms, v)
        if e is None:
            ctx.violation(f"null-schema/non-bytes-accepted/{cls}", f"{how}.validate_and_encode_row({v!r}) did not raise",
                          detail)
    # containers
    kind = KINDS[(case["k"] // 3) % len(KINDS)]
    ctx.feature("container:" + kind)
    n = len(values)
    try:
        if kind in ("top", "refseq"):
            tc = tskit.TableCollection(1)
            holder = tc if kind == "top" else tc.reference_sequence
            holder.metadata_schema = ms
            for v in values:
                ctx.count("null-schema/container")
                holder.metadata = v
                if holder.metadata_bytes != v or holder.metadata != v:
                    ctx.violation("null-schema/container", f"{kind}.metadata = {v[:40]!r} reads back as "
                                                           f"{holder.metadata!r:.80}", detail)
            for cls, v in bad[:4]:
                try:
                    holder.metadata = v
                    ctx.violation(f"null-schema/non-bytes-accepted/{cls}", f"{kind}.metadata = {v!r} accepted", detail)
                except Exception:
                    pass
            if holder.metadata_bytes != values[-1] or repr(holder.metadata_schema) != "":
                ctx.violation("null-schema/container", f"{kind} metadata changed by a rejected assignment", detail)
            if kind == "refseq":
                tc.reference_sequence.data = "A"
            ts = tc.tree_sequence()
            h2 = ts if kind == "top" else ts.reference_sequence
            if h2.metadata != values[-1] or repr(h2.metadata_schema) != "":
                ctx.violation("null-schema/container", f"TreeSequence {kind} metadata = {h2.metadata!r:.80}", detail)
            return
        tc = skeleton(kind, 2 * n + 2)
        table = getattr(tc, kind)
        if case["k"] % 2:
            table.metadata_schema = ms
        for j, v in enumerate(values):
            add_row_to(tc, kind, j, metadata=v)
        rows = column_rows(table)
        for j, v in enumerate(values):
            ctx.count("null-schema/container")
            if rows[j] != v or table[j].metadata != v or type(table[j].metadata) is not bytes:
                ctx.violation("null-schema/container", f"{kind}.add_row(metadata={v[:40]!r}) reads back as "
                                                       f"{table[j].metadata!r:.80}", detail)
        before = (table.num_rows, np.asarray(table.metadata).tobytes(), table.metadata_offset.tobytes())
        for cls, v in bad[:5]:
            for op in ("add_row", "setitem"):
                ctx.count("null-schema/non-bytes-rejected")
                try:
                    if op == "add_row":
                        add_row_to(tc, kind, n, metadata=v)
                    else:
                        table[0] = table[0].replace(metadata=v)
                    ctx.violation(f"null-schema/non-bytes-accepted/{cls}", f"{kind}.{op} accepted metadata={v!r}", detail)
                    return
                except Exception:
                    pass
        if before != (table.num_rows, np.asarray(table.metadata).tobytes(), table.metadata_offset.tobytes()):
            ctx.violation("null-schema/container", f"{kind} changed by rejected non-bytes metadata", detail)
        add_row_to(tc, kind, n)  # no metadata given: empty
        table[0] = table[0].replace(metadata=values[-1])
        rows = column_rows(table)
        if rows[n] != b"" or rows[0] != values[-1]:
            ctx.violation("null-schema/container", f"{kind}: add_row() stored {rows[n]!r:.60}, [0]=... stored "
                                                   f"{rows[0]!r:.60}", detail)
        ts = tc.tree_sequence()
        sing = {"nodes": ts.node, "edges": ts.edge, "sites": ts.site, "mutations": ts.mutation,
                "individuals": ts.individual, "populations": ts.population, "migrations": ts.migration}[kind]
        for j in range(1, n):
            if sing(j).metadata != values[j]:
                ctx.violation("null-schema/container", f"ts.{kind[:-1]}({j}).metadata = {sing(j).metadata!r:.80} "
                                                       f"expected {values[j]!r:.80}", detail)
        if repr(getattr(ts.table_metadata_schemas, kind[:-1])) != "":
            ctx.violation("null-schema/container", f"ts.table_metadata_schemas.{kind[:-1]} is not the null schema", detail)
    except Exception as e:
        ctx.violation("null-schema/raises", f"{kind} with the null schema raised {type(e).__name__}: {str(e)[:200]}",
                      detail)


def run_cap(case, rng, ctx):
    """Arrays exactly at / one above the capacity of a two-byte length prefix (65535 fit, 65536 must be refused), and the
    same boundary for one byte; kept out of the table paths because of their size."""
    fmt = "H" if (case["k"] // 97) % 12 == 0 else "B"  # (the two-byte boundary costs ~2 s: one in 1164 cases)
    cap = 65535 if fmt == "H" else 255
    item = rng.choice([{"type": "integer", "binaryFormat": "B"}, {"type": "integer", "binaryFormat": "b"},
                       {"type": "boolean", "binaryFormat": "?"}, {"type": "string", "binaryFormat": "c"},
                       {"type": "null", "binaryFormat": "x"}, {"type": "string", "binaryFormat": "1s"}])
    schema = {"codec": "struct", "type": "object",
              "properties": {"n": {"type": "integer", "binaryFormat": "H"},
                             "v": {"type": "array", "arrayLengthFormat": fmt, "items": item}}}
    if rng.random() < 0.5:
        schema["properties"]["n"]["index"] = 5  # the array comes first then
        schema["properties"]["v"]["index"] = 1
    first = "v" if "index" in schema["properties"]["v"] else "n"
    ms, err = construct(schema)
    s = jdump(schema)
    detail = {"schema": schema}
    ctx.feature("cap:prefix-" + fmt)
    ctx.sig((s, case["k"]), nontrivial=ms is not None)
    if ms is None:
        ctx.violation("schema/valid-rejected", f"MetadataSchema rejected {s}: {err!r:.200}", detail)
        return

    def element():
        c = item["binaryFormat"][-1]
        return {"B": rng.randrange(256), "b": rng.randrange(-128, 128), "?": rng.random() < 0.5,
                "c": rng.choice("abz"), "x": None, "s": rng.choice("abz")}[c]

    def ref_item(x):
        return enc_scalar(item, x)

    for length in ((cap - 1, cap, 0) if fmt == "B" else (cap,)):
        v = [element() for _ in range(length)]
        obj = {"n": 513, "v": v}
        ctx.count("struct/array-at-prefix-capacity")
        size = LEN[fmt]
        arr = length.to_bytes(size, "little") + b"".join(ref_item(x) for x in v)
        want = arr + b"\x01\x02" if first == "v" else b"\x01\x02" + arr
        b, e = try_encode(ms, obj)
        if b != want:
            ctx.violation("struct/layout", f"array of {length} elements with prefix {fmt}: encoded "
                                           f"{(b[:24].hex() + '...') if b is not None else repr(e)[:200]} "
                                           f"({len(b) if b is not None else '-'} bytes), documented layout "
                                           f"{want[:24].hex()}... ({len(want)} bytes); schema={s}", detail)
            continue
        try:
            d = ms.decode_row(b)
        except Exception as e2:
            ctx.violation("struct/decode-raises", f"decode_row raised {type(e2).__name__}: {str(e2)[:200]} for an array of "
                                                  f"{length} elements with prefix {fmt}; schema={s}", detail)
            continue
        if not deep_eq(d, {"n": 513, "v": [expected(item, x) for x in v]}):
            ctx.violation("struct/roundtrip", f"array of {length} elements with prefix {fmt} does not round trip "
                                              f"(decoded length {len(d.get('v', []))}); schema={s}", detail)
    for length in ((cap + 1, cap + 2) if fmt == "B" else (cap + 1,)):
        ctx.count("struct/nonconforming-rejected")
        ctx.feature("bad:array-exceeds-length-prefix")
        b, e = try_encode(ms, {"n": 513, "v": [element() for _ in range(length)]})
        if e is None:
            ctx.violation("struct/nonconforming-accepted/array-exceeds-length-prefix",
                          f"validate_and_encode_row accepted an array of {length} elements under a {fmt} length prefix "
                          f"(capacity {cap}) -> {len(b)} bytes starting {b[:8].hex()}; schema={s}", detail)


# ------------------------------------------------------------------------------------------- JSON codec


def json_eq(a, b):
    if isinstance(a, bool) or isinstance(b, bool):
        return type(a) is type(b) and a == b
    if isinstance(a, float) and isinstance(b, float):
        if math.isnan(a) or math.isnan(b):
            return math.isnan(a) and math.isnan(b)
        return a == b and math.copysign(1, a) == math.copysign(1, b)
    if isinstance(a, dict) and isinstance(b, dict):
        return a.keys() == b.keys() and all(json_eq(a[k], b[k]) for k in a)
    if isinstance(a, list) and isinstance(b, list):
        return len(a) == len(b) and all(json_eq(x, y) for x, y in zip(a, b))
    return type(a) is type(b) and a == b


def mutate_in_place(o):
    """Edit a decoded object the way a caller might: every mutable member is changed in place."""
    if isinstance(o, dict):
        for v in list(o.values()):
            mutate_in_place(v)
        o["zz_touched"] = [1]
    elif isinstance(o, list):
        for v in o:
            mutate_in_place(v)
        o.append("zz_touched")


def run_json(case, rng, ctx):
    schema, kind, spec = gen_json_schema(rng)
    pristine = copy.deepcopy(schema)
    ms, err = construct(schema)
    ctx.feature("json:" + kind)
    nullable = isinstance(schema.get("type"), list)
    if nullable:
        ctx.feature("json:top:object|null")
    detail = {"schema": json.loads(jdump(pristine))}
    if ms is None:
        ctx.violation("schema/valid-rejected", f"MetadataSchema rejected the JSON-codec schema {jdump(pristine)}: "
                                               f"{type(err).__name__}: {str(err)[:200]}", detail)
        return
    s = repr(ms)
    props = schema.get("properties", {})
    defaults = {k: copy.deepcopy(p["default"]) for k, p in pristine.get("properties", {}).items() if "default" in p}
    if kind == "permissive" and len(schema) == 1:
        perm = tskit.MetadataSchema.permissive_json()
        if repr(perm) != s:
            ctx.violation("json/permissive", f"permissive_json() is {repr(perm)}, expected {s}", detail)
    # conforming objects
    objs = []
    for _ in range(rng.choice([3, 4, 5])):
        if spec is not None:
            o = copy.deepcopy(rng.choice(spec["good"]))
        elif nullable and rng.random() < 0.2 and None not in objs:
            o = None
        elif kind == "permissive":
            o = gen_json_value(rng, rng.choice(["object", "object", "any"]), 3)
        else:
            req = set(schema.get("required", []))
            o = {}
            for k, p in props.items():
                if k in req or rng.random() < 0.6:
                    o[k] = gen_json_conforming(rng, p)
            for k in req:
                if k not in o:
                    o[k] = gen_json_value(rng, "any", 1)
            extra_ok = schema.get("additionalProperties", True) is not False and schema.get("maxProperties") is None
            if extra_ok and rng.random() < 0.4:
                o["extra_" + rng.choice("xyz")] = gen_json_value(rng, "any", 2)
        objs.append(o)
    ctx.sig((jdump(pristine), jdump(objs)), nontrivial=True)
    good = []
    for o in objs:
        ctx.count("json/roundtrip")
        b, e = try_encode(ms, o)
        if e is not None:
            ctx.violation("json/conforming-rejected", f"validate_and_encode_row raised {type(e).__name__}: "
                                                      f"{str(e)[:200]} for {jdump(o)} schema={s}", detail)
            continue
        want = json.dumps(o, sort_keys=True, separators=(",", ":")).encode()
        if b != want:
            ctx.violation("json/not-canonical", f"encoded {b!r}, canonical JSON is {want!r}", detail)
        exp = dict(defaults, **o) if isinstance(o, dict) else o
        try:
            d = ms.decode_row(b)
        except Exception as e2:
            ctx.violation("json/decode-raises", f"decode_row({b!r}) raised {type(e2).__name__}: {e2}", detail)
            continue
        if not json_eq(d, exp):
            ctx.violation("json/roundtrip", f"decode(encode(obj)) = {jdump(d)} expected {jdump(exp)} (defaults "
                                            f"{jdump(defaults)}) obj={jdump(o)} schema={s}", detail)
            continue
        good.append((o, b, exp))
    if schema != pristine:
        ctx.violation("schema/input-mutated", f"MetadataSchema(...) / encoding modified the schema argument: "
                                               f"{jdump(pristine)} -> {jdump(schema)}", detail)
    # decoded rows are the caller's: changing one in place must not change what the next decode returns (default
    # values with mutable members would otherwise leak from row to row through the cached schema object)
    if any(isinstance(v, (list, dict)) for v in defaults.values()):
        ctx.count("json/default-not-aliased")
        try:
            probe = tskit.MetadataSchema(copy.deepcopy(pristine))  # (a separate instance keeps a finding local)
            want = {k: copy.deepcopy(p["default"]) for k, p in pristine["properties"].items() if "default" in p}
            for data in (b"", b"{}"):
                first = probe.decode_row(data)
                mutate_in_place(first)
                again = probe.decode_row(data)
                if not json_eq(again, want):
                    ctx.violation("json/default-aliased",
                                  f"decode_row({data!r}) = {jdump(again)} after the caller modified the object returned by "
                                  f"the previous decode_row({data!r}); schema defaults are {jdump(defaults)} -- decoded "
                                  f"rows share the mutable default values of the schema; schema={s}", detail)
                    break
        except Exception as e:
            ctx.violation("json/default-aliased", f"aliasing probe raised {type(e).__name__}: {e}", detail)
    # empty bytes are an empty object (+ defaults)
    ctx.count("json/empty-bytes")
    try:
        d = ms.decode_row(b"")
        defaults = {k: p["default"] for k, p in pristine.get("properties", {}).items() if "default" in p}
        if not json_eq(d, dict(defaults)):
            ctx.violation("json/empty-bytes", f"decode_row(b'') = {jdump(d)} expected {jdump(defaults)} schema={s}",
                          detail)
    except Exception as e:
        ctx.violation("json/empty-bytes", f"decode_row(b'') raised {type(e).__name__}: {e}", detail)
    # string form
    ctx.count("json/string-form")
    try:
        for how, v in (("parse_metadata_schema(repr)", tsk_metadata.parse_metadata_schema(s)),
                       ("MetadataSchema(json.loads(repr))", tskit.MetadataSchema(json.loads(s))),
                       ("MetadataSchema(key-shuffled input)", tskit.MetadataSchema(shuffle_keys(rng, pristine)))):
            if repr(v) != s:
                ctx.violation("string-form/not-canonical", f"{how}: repr {repr(v)} != {s}", detail)
            for o, b, exp in good:
                if v.validate_and_encode_row(o) != b or not json_eq(v.decode_row(b), exp):
                    ctx.violation("string-form/behaviour-differs", f"{how} behaves differently for {jdump(o)}", detail)
        if json.dumps(json.loads(s), sort_keys=True, separators=(",", ":")) != s:
            ctx.violation("string-form/not-canonical", f"repr is not canonical JSON: {s}", detail)
    except Exception as e:
        ctx.violation("string-form/reparse-failed", f"JSON schema string form: {type(e).__name__}: {e}; {s}", detail)
    # non-conforming objects
    bad_objs = []
    base = dict(good[0][0]) if good and isinstance(good[0][0], dict) else {}
    req = list(schema.get("required", []))
    if req:
        k = rng.choice(req)
        o = {kk: vv for kk, vv in base.items() if kk != k}
        bad_objs.append(("missing-required", o))
    if schema.get("additionalProperties") is False:
        bad_objs.append(("extra-key", dict(base, zz_extra=1)))
    if schema.get("maxProperties") == 1:
        bad_objs.append(("too-many-properties", {"a": 1, "b": 2}))
    if schema.get("type") in ("object", ["object", "null"]):
        bad_objs.append(("non-object-top-level", rng.choice([5, "s", [1, 2], True, 1.5])))
    if schema.get("type") == "object":
        bad_objs.append(("none-for-object", None))
    typed = [(k, p["type"]) for k, p in props.items() if "type" in p]
    if typed:
        k, t = rng.choice(typed)
        wrong = {"string": 5, "number": "x", "integer": 1.5, "boolean": 0, "null": 0, "array": {"a": 1},
                 "object": [1]}[t]
        bad_objs.append(("wrong-type-for-" + t, dict(base, **{k: wrong})))
    for k, p in props.items():
        if "minimum" in p:
            bad_objs.append(("below-schema-minimum", dict(base, **{k: rng.choice([-1, -0.5, -2 ** 70])})))
        if "enum" in p:
            bad_objs.append(("not-in-enum", dict(base, **{k: "b"})))
        if p.get("type") == "object" and "required" in p:
            bad_objs.append(("nested-missing-required", dict(base, **{k: {"v": "s"}})))
        if p.get("type") == "array" and "items" in p:
            bad_objs.append(("wrong-item-type", dict(base, **{k: [{"not": "a scalar"}]})))
    if spec is not None:
        bad_objs.extend(copy.deepcopy(spec["bad"]))
    bad_objs.append(("not-json-encodable", dict(base, zz=rng.choice([{1, 2}, b"bytes", object])))
                    if schema.get("additionalProperties", True) is not False and schema.get("maxProperties") is None
                    else ("not-json-encodable", {1, 2}))
    for cls, bad in bad_objs:
        ctx.count("json/nonconforming-rejected")
        ctx.feature("json-bad:" + cls)
        b, e = try_encode(ms, bad)
        if e is None:
            mech = "json/validation-bypassed-without-properties" if not props else f"json/nonconforming-accepted/{cls}"
            ctx.violation(mech, f"validate_and_encode_row accepted {jdump(bad)} ({cls}) -> {b!r}; schema={s}", detail)
    bad_objs = [(c, o) for c, o in bad_objs if props and o is not None]  # table paths share the same validator
    if nullable:
        good = [g for g in good if g[0] is not None]  # (add_row(metadata=None) means "not given")
    if good and all(isinstance(o, dict) for o, _, _ in good):
        check_tables(ctx, rng, ms, schema, good, bad_objs, s, detail, codec="json", equal=json_eq)
