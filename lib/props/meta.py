"""Static per-property metadata (importable without tskit): collected from meta_cXX.py files."""
import glob
import importlib
import os

from lib.props.meta_common import ASSUME_COMMON  # noqa: F401

META = {}
for _p in sorted(glob.glob(os.path.join(os.path.dirname(__file__), "meta_c[0-9]*.py"))):
    _m = importlib.import_module("lib.props." + os.path.basename(_p)[:-3])
    META[_m.ID] = _m.META
