"""C20 — Tree.map_mutations returns a most-parsimonious placement that reproduces the data.

Oracle (written from the Tree.map_mutations docstring and docs/data-model.md "Mutation requirements";
nothing is shared with the Hartigan bit-set code in c/tskit/trees.c):

 (1) reproduce   every sample with a non-missing observation reads back its observed allele when the
                 returned ancestral state and mutations are placed on the reference tree (nearest
                 mutation above; several mutations on one node: the later listed one is the more recent);
 (2) optimal     len(mutations) == unit-cost small-parsimony optimum computed by an own DP over the
                 reference children sets (one shared ancestral state for all roots, a change above a
                 root costs 1, observed samples - internal ones too - are fixed to their observation,
                 samples with a missing observation and non-samples are free; fixed root state when
                 `ancestral_state` is given).  For tiny instances the DP itself is cross-checked by
                 brute-force enumeration of all state assignments;
 (3) table order every parent index is < the own index and equals the nearest listed mutation above on
                 the tree (-1 if none); periodically the result is also written into a table collection
                 exactly as the docstring example does and must load and decode to the observations;
 (4) unary chain no mutation sits on a node whose parent is an unobserved node with exactly one child
                 ("if there are unary nodes between two branch points ... the oldest node is used");
 (5) errors      all-missing / wrong-length / out-of-range genotypes and bad ancestral states raise.

Entry points and argument forms driven (see AUDIT-C20.md): Tree.map_mutations positional and by keyword;
genotypes as list / tuple / numpy int8, int16, int32, int64, uint8, uint64, big-endian, non-contiguous view,
and the live Variant.genotypes buffer together with Variant.alleles (trailing None under isolated_as_missing);
alleles as tuple / list / str of single characters; ancestral_state as int, str, numpy integer, numpy.str_;
the low-level Tree.map_mutations of _tskit directly (index level; the C range checks that the Python
wrapper otherwise shadows); trees obtained through at / at_index / trees() / aslist / Tree(ts)+seek /
seek_index / first-next and last-prev sweeps of ONE reused object / copy() / sample_lists + tracked_samples
options / the null state / root_threshold=2; the docstring recipe mutations.append(mutation.replace(...)).

EITHER zones (documentation leaves them open, the oracle accepts all):
 * which of several optimal ancestral states / placements is returned (also between two calls on one object);
 * the exception class of a documented refusal (any Exception is accepted, a normal return is not);
 * genotype indexes >= len(alleles) (undocumented) and duplicate allele strings are never generated;
 * 2-D / float genotype arrays and float ancestral states (undocumented): only "returns or raises";
 * the low-level method with an ancestral state outside int32 wraps by design (comment in Tree_map_mutations):
   not generated;
 * root_threshold > 1: samples outside the tree's roots are not reachable, the oracle is evaluated on the
   forest below tree.roots only (their observations cannot be reproduced by any placement);
 * the null tree (no edges; every sample is an isolated root, tree.roots == samples) is checked as exactly that.
"""
import itertools

import numpy as np
import tskit

from lib import gen
from lib.harness import case_rng
from lib.model import NODE_IS_SAMPLE, NULL, RowModel, forest
from lib.tsk import from_tables, to_tables, to_ts

ID = "C20"
INF = 10 ** 9
MISSING = -1

# --------------------------------------------------------------------------- case streams

SMALL_VALUES = (-1, 0, 1, 2)


def parent_maps(n):
    """All parent maps on nodes 0..n-1 with parent id > child id (time = id): n! forests; every
    unlabelled rooted forest shape with every assignment of roles occurs among them."""
    choices = [[NULL] + list(range(u + 1, n)) for u in range(n)]
    return list(itertools.product(*choices))


def forest_cases(n):
    out = []
    for pi in range(len(parent_maps(n))):
        for mask in range(1, 1 << n):
            out.append({"gen": "forest", "n": n, "pm": pi, "mask": mask})
    return out


ALLTREES_COUNT = {1: 1, 2: 1, 3: 4, 4: 26, 5: 236, 6: 2752}
CHUNK = 4


def alltrees_cases(n):
    return [{"gen": "alltrees", "n": n, "lo": lo, "hi": min(lo + CHUNK, ALLTREES_COUNT[n])}
            for lo in range(0, ALLTREES_COUNT[n], CHUNK)]


def interleave(*streams):
    """Round robin; a stream given as (iterable, w) contributes w items per round."""
    its = [(iter(s[0]), s[1]) if isinstance(s, tuple) else (iter(s), 1) for s in streams]
    while its:
        nxt = []
        for it, w in its:
            alive = True
            for _ in range(w):
                try:
                    yield next(it)
                except StopIteration:
                    alive = False
                    break
            if alive:
                nxt.append((it, w))
        its = nxt


def rand_stream(kind, n):
    for k in range(n):
        yield {"gen": kind, "k": k}


HUGE_QUICK = 10     # two per worker with 5 workers, ~2 s each
ENTRY_FORMS = ("ctor-seek", "ctor-seek-index", "sweep-forward", "sweep-backward", "copy", "options", "null",
               "root-threshold-2", "aslist", "trees-options", "repeat", "same-question-after-move")


def cases(tier, seed):
    # The interleave periods (quick 13, thorough 307) are coprime to the usual shard counts
    # (5, 6, 16), so that every worker sees every family (case idx % nshards picks the worker).
    if tier == "quick":
        # the smallest scope first (small witnesses are found first), then interleaved streams
        yield from forest_cases(1) + forest_cases(2) + forest_cases(3)
        yield from rand_stream("huge", HUGE_QUICK)
        exh = forest_cases(4) + alltrees_cases(3) + alltrees_cases(4)
        yield from interleave(exh, (rand_stream("walk", 80000), 4), rand_stream("wide", 3000),
                              rand_stream("errors", 2000), rand_stream("fanout", 400),
                              (rand_stream("variants", 20000), 2), (rand_stream("entry", 20000), 2),
                              rand_stream("deep", 400))
    else:
        yield from forest_cases(1) + forest_cases(2) + forest_cases(3)
        yield from rand_stream("huge", 32)
        exh = forest_cases(4) + alltrees_cases(3) + alltrees_cases(4) + alltrees_cases(5) + forest_cases(5)
        yield from interleave((exh, 6), (rand_stream("walk", 4000000), 201), (rand_stream("wide", 200000), 12),
                              (rand_stream("errors", 50000), 2), rand_stream("forest6", 200000),
                              rand_stream("alltrees67", 200000), rand_stream("fanout", 20000),
                              (rand_stream("variants", 1000000), 40), (rand_stream("entry", 1000000), 40),
                              (rand_stream("deep", 20000), 2), rand_stream("huge", 2000))


# --------------------------------------------------------------------------- reference semantics


def tree_nodes(fr, roots):
    """Post-order list of the nodes below the given roots (children before parents)."""
    out = []
    for r in sorted(roots):
        stack = [(r, False)]
        while stack:
            u, done = stack.pop()
            if done:
                out.append(u)
                continue
            stack.append((u, True))
            for c in sorted(fr.kids(u)):
                stack.append((c, False))
    return out


def parsimony_optimum(fr, roots, obs, states, fixed=None, order=None):
    """Unit-cost small parsimony.  obs: {node: state} for observed samples; states: candidate states
    (observed states + the fixed ancestral state are sufficient: an unobserved state never helps
    under unit costs).  Returns the minimum number of state changes, counting a change between the
    single shared ancestral state and a root."""
    cost = {}
    children = fr.children
    leaf_rows = {}
    for u in (order if order is not None else tree_nodes(fr, roots)):
        o = obs.get(u)
        if u not in children:  # a leaf: nothing below to pay for (rows are shared, never modified)
            row = leaf_rows.get(o)
            if row is None:
                row = leaf_rows[o] = [0 if (o is None or s == o) else INF for s in states]
            cost[u] = row
            continue
        kc = []
        for c in fr.kids(u):
            cv = cost[c]
            kc.append((cv, min(cv) + 1))
        row = []
        for i, s in enumerate(states):
            if o is not None and s != o:
                row.append(INF)
                continue
            t = 0
            for cv, m1 in kc:
                t += cv[i] if cv[i] < m1 else m1
            row.append(t)
        cost[u] = row
    totals = []
    for i, s in enumerate(states):
        t = 0
        for r in roots:
            cv = cost[r]
            m1 = min(cv) + 1
            t += cv[i] if cv[i] < m1 else m1
        totals.append(t)
    if fixed is not None:
        return totals[states.index(fixed)]
    return min(totals)


def brute_optimum(fr, roots, obs, states, fixed=None):
    """All assignments of states to all tree nodes and to the ancestral state."""
    nodes = tree_nodes(fr, roots)
    best = INF
    rootset = set(roots)
    for anc in ([fixed] if fixed is not None else states):
        for assign in itertools.product(states, repeat=len(nodes)):
            st = dict(zip(nodes, assign))
            if any(st[u] != o for u, o in obs.items()):
                continue
            c = 0
            for u in nodes:
                if u in rootset:
                    c += st[u] != anc
                else:
                    c += st[u] != st[fr.par(u)]
            if c < best:
                best = c
    return best


def read_back(fr, anc, muts, node):
    """State of `node` under (anc, muts): nearest mutation above, later listed = more recent."""
    last = {}
    for i, mu in enumerate(muts):
        last[mu[0]] = i
    u = node
    while True:
        if u in last:
            return muts[last[u]][1]
        if u not in fr.parent:
            return anc
        u = fr.parent[u]


def expected_parents(fr, muts):
    out = []
    last = {}
    for i, mu in enumerate(muts):
        u = mu[0]
        p = NULL
        if u in last:
            p = last[u]
        else:
            v = u
            while v in fr.parent:
                v = fr.parent[v]
                if v in last:
                    p = last[v]
                    break
        out.append(p)
        last[u] = i
    return out


# --------------------------------------------------------------------------- the monitor

_SEEN = {}
MAX_PER_KEY = 25


def report(ctx, key, msg, detail):
    """Record a violation; after MAX_PER_KEY records of one mechanism in this worker only count."""
    _SEEN[key] = _SEEN.get(key, 0) + 1
    if _SEEN[key] <= MAX_PER_KEY:
        ctx.violation(key, msg, detail)
    else:
        ctx.count("violations-not-recorded-individually")



def fast_roots(fr, samples):
    """fr.roots(1) without the quadratic descendant walks: the topmost ancestors of the samples."""
    top = {}
    out = set()
    for s in samples:
        path = []
        u = s
        while u not in top and u in fr.parent:
            path.append(u)
            u = fr.parent[u]
        r = top.get(u, u)
        for v in path:
            top[v] = r
        top[u] = r
        out.add(r)
    return out


class TreeCtx:
    """One marginal tree of one tree sequence, with its reference forest.  `fr` / `roots` override the
    reference forest (null tree: no edges) and the root set (root_threshold > 1)."""

    def __init__(self, ts, tree, m, x, fr=None, roots=None, note=None):
        self.ts = ts
        self.tree = tree
        self.m = m
        self.x = x
        self.fr = forest(m, x) if fr is None else fr
        self.samples = m.samples()
        self.roots = sorted(fast_roots(self.fr, self.samples)) if roots is None else sorted(roots)
        self.order = tree_nodes(self.fr, self.roots)
        self.in_tree = set(self.order)
        self.note = note
        self._desc = None

    def describe(self):
        if self._desc is None:
            items = sorted(self.fr.parent.items())
            d = {"parent": {str(c): p for c, p in items[:300]}, "samples": self.samples[:300],
                 "position": self.x, "num_nodes": self.m.num_nodes}
            if len(items) > 300 or len(self.samples) > 300:
                d["truncated"] = "large tree: the case descriptor of the replay file rebuilds it exactly"
            if self.note:
                d["tree-obtained-by"] = self.note
            self._desc = d
        return self._desc


def classify_suboptimal(T, geno, alleles, anc_arg, opt, mut_nodes):
    """Mechanism key for a result with more mutations than the optimum.  The D12 mechanism (a sample
    with a missing observation that has children keeps the all-ones Hartigan set) is named only when
    (a) such a sample exists and (b) the real code is optimal on the same tree once exactly those
    samples are turned into non-samples (their observations impose no constraint, so the optimum is
    unchanged) and (c) a returned mutation sits strictly below such a sample (that is where the
    mechanism puts the superfluous changes)."""
    fr = T.fr
    inv = [u for j, u in enumerate(T.samples) if geno[j] == MISSING and fr.kids(u)]
    if not inv:
        return "map_mutations/not-parsimonious"
    try:
        m2 = T.m.copy()
        for u in inv:
            f, t, p, i, md = m2.nodes[u]
            m2.nodes[u] = (f & ~NODE_IS_SAMPLE, t, p, i, md)
        g2 = [g for j, g in enumerate(geno) if T.samples[j] not in inv]
        ts2 = to_ts(m2)
        _, muts2 = ts2.at(T.x).map_mutations(np.array(g2, dtype=np.int8), alleles, anc_arg)
        below = any(set(fr.path_up(u)[1:]) & set(inv) for u in mut_nodes)
        if len(muts2) == opt and below:
            return "map_mutations/not-parsimonious/missing-internal-sample"
    except Exception:
        pass
    return "map_mutations/not-parsimonious"


GENO_FORMS = ("list", "int8", "int32", "tuple", "int64", "int16", "uint8", "uint64", "bigendian", "strided",
              "strided32", "readonly")


def genotype_arg(geno, how):
    """The same observation vector in another argument form (array_like is all the docs say).  Unsigned
    forms cannot carry the missing value and fall back to int64."""
    if how == "list":
        return list(geno)
    if how == "tuple":
        return tuple(geno)
    if how in ("uint8", "uint64") and min(geno) < 0:
        how = "int64"
    if how in ("int8", "int16", "int32", "int64", "uint8", "uint64"):
        return np.array(geno, dtype=how)
    if how == "bigendian":
        return np.array(geno, dtype=">i4")
    if how == "strided":  # every second element of a buffer whose other elements are poison
        buf = np.full(2 * len(geno), 77, dtype=np.int8)
        buf[::2] = geno
        return buf[::2]
    if how == "strided32":
        buf = np.full(3 * len(geno) + 1, 64, dtype=np.int32)
        buf[1::3] = geno
        return buf[1::3]
    if how == "readonly":
        arr = np.array(geno, dtype=np.int8)
        arr.setflags(write=False)
        return arr
    raise ValueError(how)


def wit_geno(geno):
    """Literal genotype vector for a witness; long ones as counts + head (the replay case rebuilds them)."""
    if len(geno) <= 400:
        return [int(g) for g in geno]
    cnt = {}
    for g in geno:
        cnt[int(g)] = cnt.get(int(g), 0) + 1
    return {"length": len(geno), "count-per-value": {str(k): v for k, v in sorted(cnt.items())},
            "first-50": [int(g) for g in geno[:50]]}


def plain(x):
    """JSON-able literal of an argument for the witness."""
    if isinstance(x, str):
        return str(x)
    if isinstance(x, (bool, np.bool_)):
        return bool(x)
    if isinstance(x, (int, np.integer)):
        return int(x)
    return x


def check_call(ctx, T, geno, alleles, anc_arg, how="list", kw=False, raw=None, want_objects=False):
    """Call the real map_mutations and evaluate oracles (1)-(4).  `raw` is a ready-made genotypes object
    (e.g. the live Variant.genotypes buffer) that holds the values of `geno`."""
    garg = raw if raw is not None else genotype_arg(geno, how)
    witness = {"tree": T.describe(), "genotypes": wit_geno(geno), "alleles": list(alleles),
               "ancestral_state": plain(anc_arg),
               "argument-form": f"genotypes:{how if raw is None else 'as-given'} alleles:{type(alleles).__name__} "
                                f"ancestral_state:{type(anc_arg).__name__} {'keyword' if kw else 'positional'}"}
    try:
        if kw == "omit":
            anc, muts = T.tree.map_mutations(alleles=alleles, genotypes=garg)
        elif kw:
            anc, muts = T.tree.map_mutations(genotypes=garg, alleles=alleles, ancestral_state=anc_arg)
        elif anc_arg is None and how in ("tuple", "int16"):
            anc, muts = T.tree.map_mutations(garg, alleles)  # two-argument form
        else:
            anc, muts = T.tree.map_mutations(garg, alleles, anc_arg)
    except Exception as e:
        ctx.count("map_mutations:valid-call")
        report(ctx, "map_mutations/valid-input-raises",
                      f"valid input raised {type(e).__name__}: {e}; {witness}", witness)
        return
    ctx.count("map_mutations:valid-call")
    try:
        mlist = [(int(mu.node), mu.derived_state, int(mu.parent)) for mu in muts]
    except Exception as e:
        report(ctx, "map_mutations/malformed-result", f"{type(e).__name__}: {e}; {witness}", witness)
        return
    res = evaluate(ctx, T, geno, alleles, anc_arg, anc, mlist, witness)
    if res is not None and want_objects:
        return anc, mlist, muts
    return res


LL_ALLELES = tuple(f"s{i}" for i in range(64))


def check_ll(ctx, T, geno, anc_idx, how="int32", kw=False):
    """The low-level method directly: (genotypes, ancestral_state index or None) ->
    (ancestral index, [(node, parent, state)]).  Evaluated by the same oracles on index level."""
    garg = genotype_arg(geno, how)
    witness = {"tree": T.describe(), "genotypes": wit_geno(geno), "ancestral_state": plain(anc_idx),
               "entry": f"_tskit.Tree.map_mutations genotypes:{how} {'keyword' if kw else 'positional'}"}
    ctx.count("oracle:ll-direct")
    try:
        if kw:
            res = T.tree._ll_tree.map_mutations(genotypes=garg, ancestral_state=anc_idx)
        elif anc_idx is None and how == "list":
            res = T.tree._ll_tree.map_mutations(garg)
        else:
            res = T.tree._ll_tree.map_mutations(garg, anc_idx)
    except Exception as e:
        report(ctx, "map_mutations/low-level/valid-input-raises",
               f"valid input raised {type(e).__name__}: {e}; {witness}", witness)
        return
    try:
        a, trans = res
        ok = isinstance(a, int) and 0 <= a < 64 and all(
            isinstance(n, int) and isinstance(p, int) and isinstance(st, int) and 0 <= st < 64 for n, p, st in trans)
    except Exception:
        ok = False
    if not ok:
        report(ctx, "map_mutations/low-level/malformed-result", f"returned {res!r}; {witness}", witness)
        return
    mlist = [(n, LL_ALLELES[st], p) for n, p, st in trans]
    return evaluate(ctx, T, geno, LL_ALLELES, anc_idx, LL_ALLELES[a], mlist, witness)


def states_topdown(T, anc, mlist):
    """State of every tree node under (anc, mlist), parents before children (linear time)."""
    last = {}
    for i, mu in enumerate(mlist):
        last[mu[0]] = i
    st = {}
    parent = T.fr.parent
    for u in reversed(T.order):
        if u in last:
            st[u] = mlist[last[u]][1]
        elif u in parent:
            st[u] = st[parent[u]]
        else:
            st[u] = anc
    return st


def evaluate(ctx, T, geno, alleles, anc_arg, anc, mlist, witness):
    """Oracles (1)-(4) on a returned (ancestral state, [(node, derived state, parent)])."""
    fr = T.fr
    witness["got"] = {"ancestral_state": anc, "mutations": mlist if len(mlist) <= 200 else
                      mlist[:200] + [f"... {len(mlist)} in total"]}
    aset = set(a for a in alleles if a is not None)
    if not isinstance(anc, str) or anc not in aset or any(
            (not isinstance(d, str)) or d not in aset for _, d, _ in mlist):
        report(ctx, "map_mutations/state-not-an-allele", f"{witness}", witness)
        return
    if any(u < 0 or u >= T.m.num_nodes for u, _, _ in mlist):
        report(ctx, "map_mutations/node-out-of-range", f"{witness}", witness)
        return
    # fixed ancestral state is honoured
    fixed = None
    if anc_arg is not None:
        fixed = str(anc_arg) if isinstance(anc_arg, str) else alleles[anc_arg]
        ctx.count("oracle:fixed-ancestral-state")
        if anc != fixed:
            report(ctx, "map_mutations/fixed-ancestral-state-ignored",
                          f"ancestral_state={anc_arg!r} requested, {anc!r} returned; {witness}", witness)
    # (1) reproduce
    obs = {}
    for j, u in enumerate(T.samples):
        if geno[j] != MISSING and u in T.in_tree:  # outside the tree only with root_threshold > 1
            obs[u] = alleles[geno[j]]
    bad = []
    if len(T.order) > 64:
        st = states_topdown(T, anc, mlist)
        bad = [(u, a, st[u]) for u, a in obs.items() if st[u] != a]
    else:
        for u, a in obs.items():
            got = read_back(fr, anc, mlist, u)
            if got != a:
                bad.append((u, a, got))
    ctx.count("oracle:reproduce")
    if bad:
        report(ctx, "map_mutations/observation-not-reproduced",
                      f"(sample, observed, read back) = {bad[:5]}; {witness}", witness)
    # (2) optimality
    states = sorted(set(obs.values()) | ({fixed} if fixed is not None else set()))
    opt = parsimony_optimum(fr, T.roots, obs, states, fixed, T.order)
    ctx.count("oracle:optimum")
    if (sum(geno) + len(geno)) % 3 == 0 and len(states) <= 3 and len(states) ** (len(T.in_tree) + 1) <= 2500:
        ctx.count("oracle:dp-vs-bruteforce")
        b = brute_optimum(fr, T.roots, obs, states, fixed)
        if b != opt:
            raise AssertionError(f"reference DP {opt} != brute force {b}: {witness}")
    if len(mlist) != opt:
        if len(mlist) > opt:
            key = classify_suboptimal(T, geno, alleles, anc_arg, opt, [u for u, _, _ in mlist])
        else:
            # fewer changes than the optimum cannot reproduce the data; keep it apart from (1)
            key = "map_mutations/fewer-mutations-than-possible"
        report(ctx, key, f"{len(mlist)} mutations returned, optimum is {opt}; {witness}", witness)
    # (3) order / parents
    exp_par = expected_parents(fr, mlist)
    ctx.count("oracle:parents")
    for i, (u, d, p) in enumerate(mlist):
        if p >= i or p < NULL:
            report(ctx, "map_mutations/parent-not-before-child",
                          f"mutation {i} has parent {p}; {witness}", witness)
            break
        if p != exp_par[i]:
            report(ctx, "map_mutations/wrong-parent",
                          f"mutation {i} on node {u} has parent {p}, nearest listed mutation above is "
                          f"{exp_par[i]}; {witness}", witness)
            break
    # (4) oldest node of a unary chain
    ctx.count("oracle:unary-chain")
    missing_samples = {u for j, u in enumerate(T.samples) if geno[j] == MISSING}
    for i, (u, d, p) in enumerate(mlist):
        q = fr.par(u)
        if q == NULL or len(fr.kids(q)) != 1 or q in obs:
            continue
        key = "map_mutations/not-oldest-unary-node"
        if q in missing_samples:
            key += "/missing-internal-sample"
        report(ctx, key, f"mutation {i} sits on node {u} whose parent {q} is an unobserved unary node; "
                           f"{witness}", witness)
        break
    return anc, mlist


def check_via_tables(ctx, T, geno, alleles, anc, mlist):
    """(3) end to end, as in the docstring example: the list goes into a mutation table unchanged."""
    if T.x is None:
        return
    tc = to_tables(T.m)
    tc.sites.clear()
    tc.mutations.clear()
    tc.sites.add_row(T.x, anc)
    for u, d, p in mlist:
        tc.mutations.add_row(site=0, node=u, derived_state=d, parent=p)
    witness = {"tree": T.describe(), "genotypes": wit_geno(geno), "alleles": list(alleles),
               "got": {"ancestral_state": anc, "mutations": mlist[:200]}}
    ctx.count("oracle:loads-as-mutation-table")
    try:
        ts2 = tc.tree_sequence()
    except Exception as e:
        report(ctx, "map_mutations/result-not-a-valid-mutation-table",
                      f"{type(e).__name__}: {e}; {witness}", witness)
        return
    var = next(ts2.variants(isolated_as_missing=False))
    for j, u in enumerate(T.samples):
        if geno[j] == MISSING:
            continue
        if var.alleles[var.genotypes[j]] != alleles[geno[j]]:
            report(ctx, "map_mutations/observation-not-reproduced/decoded",
                          f"sample {u}: decoded {var.alleles[var.genotypes[j]]!r}, observed "
                          f"{alleles[geno[j]]!r}; {witness}", witness)
            return


def check_docstring_route(ctx, T, geno, alleles, anc, muts, rng):
    """(3) exactly as the docstring recipe: a new site (not necessarily the last one) is added to the
    tables of the tree sequence itself, every returned Mutation OBJECT goes in through
    mutations.append(mutation.replace(site=..., parent=mapped)), then sort() and tree_sequence()."""
    if T.x is None:
        return
    tables = T.ts.dump_tables()
    left, right = T.tree.interval.left, T.tree.interval.right
    taken = set(float(p) for p in tables.sites.position)
    pos = None
    for cand in (T.x, (left + right) / 2, left, (left + 3 * right) / 4):
        if left <= cand < right and cand not in taken:
            pos = cand
            break
    if pos is None:
        return
    witness = {"tree": T.describe(), "genotypes": wit_geno(geno), "alleles": list(alleles), "new-site-position": pos,
               "got": {"ancestral_state": anc, "mutations": [(int(mu.node), mu.derived_state, int(mu.parent))
                                                             for mu in muts][:200]}}
    ctx.count("oracle:docstring-route")
    if taken and pos < max(taken):
        ctx.feature("docstring-route:site-not-last")
    if tables.mutations.metadata_schema.schema is not None:
        ctx.feature("docstring-route:mutation-metadata-schema")
    try:
        site_id = tables.sites.add_row(pos, anc)
        mut_id_map = {tskit.NULL: tskit.NULL}
        for list_id, mutation in enumerate(muts):
            mut_id_map[list_id] = tables.mutations.append(
                mutation.replace(site=site_id, parent=mut_id_map[mutation.parent]))
        tables.sort()
        ts2 = tables.tree_sequence()
    except Exception as e:
        report(ctx, "map_mutations/result-not-a-valid-mutation-table/docstring-recipe",
               f"{type(e).__name__}: {e}; {witness}", witness)
        return
    for var in ts2.variants(isolated_as_missing=False):
        if var.site.position != pos:
            continue
        for j, u in enumerate(T.samples):
            if geno[j] == MISSING:
                continue
            if var.alleles[var.genotypes[j]] != alleles[geno[j]]:
                report(ctx, "map_mutations/observation-not-reproduced/decoded/docstring-recipe",
                       f"sample {u}: decoded {var.alleles[var.genotypes[j]]!r}, observed {alleles[geno[j]]!r}; "
                       f"{witness}", witness)
                return
        return
    report(ctx, "map_mutations/result-not-a-valid-mutation-table/docstring-recipe",
           f"the new site is not in the tree sequence; {witness}", witness)


def after_refusal(ctx, T, refused):
    """The valid call that follows a refused one on the SAME Tree object: every sample gets an allele other than the one
    it had in the refused vector (whatever the refused call had already read must not leak into this answer)."""
    ns = len(T.samples)
    if ns == 0:
        return
    try:
        old = [int(x) for x in list(refused)[:ns]]
    except Exception:  # noqa: BLE001
        old = []
    old += [0] * (ns - len(old))
    geno = [1 if g == 0 else 0 for g in old]
    if ns > 2:
        geno[-1] = MISSING
    ctx.count("oracle:call-after-refused-call")
    check_call(ctx, T, geno, ("A", "C"), None)


def expect_raise(ctx, T, geno, alleles, anc_arg, key, why, kw=False):
    ctx.count("oracle:must-raise")
    ctx.feature("error:" + why)
    witness = {"tree": T.describe(), "genotypes": wit_geno(geno), "alleles": list(alleles),
               "ancestral_state": plain(anc_arg), "why": why, "call": "keyword" if kw else "positional"}
    try:
        if kw:
            res = T.tree.map_mutations(ancestral_state=anc_arg, alleles=alleles, genotypes=geno)
        else:
            res = T.tree.map_mutations(geno, alleles, anc_arg)
    except Exception:
        # EITHER: the class of the exception is not fixed by the docs.  What IS fixed: a refused call leaves nothing
        # behind - the next call on the same Tree object must answer as a fresh tree would.
        after_refusal(ctx, T, geno)
        return
    report(ctx, key, f"{why}: accepted and returned {res!r}; {witness}", witness)


def expect_raise_ll(ctx, T, f, args, key, why):
    ctx.count("oracle:must-raise")
    ctx.feature("error:" + why)
    try:
        res = f()
    except Exception:
        after_refusal(ctx, T, args.get("genotypes"))   # EITHER: the class of the exception is not fixed
        return
    witness = {"tree": T.describe(), "why": why, "entry": "_tskit.Tree.map_mutations"}
    witness.update({k: plain(v) if not isinstance(v, list) else [int(x) for x in v] for k, v in args.items()})
    report(ctx, key, f"{why}: accepted and returned {res!r}; {witness}", witness)


# --------------------------------------------------------------------------- workloads

_STRS = ["A", "C", "G", "T", "", "AC", "GGT", "é", "0", "1", "-", "N", "*", "a"]


def make_alleles(rng, k):
    """k distinct allele strings."""
    base = list(_STRS)
    rng.shuffle(base)
    out = base[:k]
    if k >= 2 and "" not in out and rng.random() < 0.25:
        out[rng.randrange(k)] = ""  # the empty allele (a deletion) at any index, index 0 included
    i = 0
    while len(out) < k:
        out.append(f"x{i}")
        i += 1
    return tuple(out)


def run_exhaustive_tree(ctx, T, rng, values=SMALL_VALUES):
    """ALL genotype vectors over {missing,0,1,2} x {free, every fixed state incl. an unobserved one}."""
    alleles = ("A", "C", "G", "T")
    ns = len(T.samples)
    hows = GENO_FORMS
    k = 0
    for geno in itertools.product(values, repeat=ns):
        if all(g == MISSING for g in geno):
            expect_raise(ctx, T, list(geno), alleles, None, "map_mutations/all-missing-accepted", "all-missing")
            continue
        for anc in (None, 0, 1, 2, 3):
            k += 1
            a = anc
            if anc is not None and k % 2:
                a = alleles[anc]
            elif anc is not None and k % 6 == 2:
                a = np.int64(anc)
            res = check_call(ctx, T, geno, alleles, a, hows[k % len(hows)], kw=k % 7 == 0, want_objects=True)
            if res is not None and k % 97 == 0:
                check_via_tables(ctx, T, geno, alleles, res[0], res[1])
            if res is not None and k % 193 == 0:
                check_docstring_route(ctx, T, geno, alleles, res[0], res[2], rng)
            if k % 11 == 0:
                check_ll(ctx, T, geno, anc, ("int32", "list", "int8")[k % 3], kw=k % 5 == 0)
    ctx.count("exhaustive-trees")


def evolve(rng, T, nalleles_idx, p):
    """Genotypes by dropping a few changes down the tree (parsimony is then non-trivial)."""
    st = {}
    for u in reversed(tree_nodes(T.fr, T.roots)):
        q = T.fr.par(u)
        s = st[q] if q != NULL else nalleles_idx[0]
        if rng.random() < p:
            s = rng.choice(nalleles_idx)
        st[u] = s
    return [st.get(u, nalleles_idx[0]) for u in T.samples]


def anc_form(rng, a, alleles):
    """One of the documented spellings of a fixed ancestral state (index or string) incl. numpy scalars."""
    if alleles[a] == "" and rng.random() < 0.6:
        return ""  # a falsy but legal string
    r = rng.random()
    if r < 0.36:
        return a
    if r < 0.72:
        return alleles[a]
    if r < 0.86:
        return rng.choice([np.int64, np.int32, np.int8, np.uint8, np.intp])(a)
    return np.str_(alleles[a])


def skewed_genotypes(rng, T, idx):
    """Count boundaries: under one node (or the virtual root) with k children exactly c of them
    (c in 255, 256, 257, 65535, 65536, 65537 ...: one past a narrow counter) carry one allele and the few
    others carry 1-3 other alleles.  Returns None when the tree has no node with enough sample leaves."""
    fr = T.fr
    best = None
    groups = [sorted(c for c in ch if T.m.is_sample(c) and not fr.kids(c)) for _, ch in sorted(fr.children.items())]
    groups.append([r for r in T.roots if T.m.is_sample(r) and not fr.kids(r)])
    for g in groups:
        if best is None or len(g) > len(best):
            best = g
    if best is None or len(best) < 256:
        return None
    k = len(best)
    cands = [c for c in (255, 256, 257, 511, 512, 513, 65535, 65536, 65537) if c < k]
    if k > 65537:
        cands = [65536, 65536, 65537, 65537, 65535]  # the wrapping counts twice as often as the control
    c = rng.choice(cands[-3:]) if rng.random() < 0.6 else rng.choice(cands)  # the largest that fit, mostly
    major = idx[0]
    minors = idx[1:4] or [idx[0]]
    members = list(best)
    rng.shuffle(members)
    st = {}
    for u in members[:c]:
        st[u] = major
    rest = members[c:]
    if len(rest) > 200:  # keep the others below c mod 256 / 65536
        for u in rest[200:]:
            st[u] = MISSING
        rest = rest[:200]
    for j, u in enumerate(rest):
        # one competitor gets at least three carriers: it beats a count that wrapped round to 0 or 1
        st[u] = minors[0] if j < 3 else rng.choice(minors)
    other = rng.choice(minors)
    return [st.get(u, other) for u in T.samples], c


def random_calls(ctx, T, rng, ncalls, big=False, skew=False):
    ns = len(T.samples)
    if ns == 0:
        expect_raise(ctx, T, [], ("A",), None, "map_mutations/no-observation-accepted", "zero-samples")
        return
    for call in range(ncalls):
        K = rng.choice([1, 2, 2, 3, 4, 4, 8, 33, 64, 64] if not big else [64, 64, 64, 32, 33, 70])
        alleles = make_alleles(rng, K)
        kmax = min(K, 64)
        A = rng.choice([1, 2, 2, 2, 3, 3, 3, 4, 6, kmax]) if not big else rng.choice([kmax, kmax, 16])
        A = max(1, min(A, kmax))
        idx = rng.sample(range(kmax), A)
        # word / limit boundaries of the allele index: 63 (last legal), 31 and 32 (32-bit edge)
        if kmax == 64 and rng.random() < 0.6 and 63 not in idx:
            idx[rng.randrange(A)] = 63
        if kmax >= 33 and rng.random() < 0.5:
            for v in (31, 32):
                if v not in idx:
                    free = [i for i in range(A) if idx[i] not in (63, 31, 32)]
                    if free:
                        idx[rng.choice(free)] = v
        mode = None
        sk = skewed_genotypes(rng, T, idx) if skew and call == 0 else None
        if sk is not None:
            geno, c = sk
            mode = "skewed"
            ctx.feature(f"child-count-boundary:{c}")
        elif rng.random() < 0.35:
            geno = evolve(rng, T, idx, rng.choice([0.2, 0.4, 0.6]))
        elif big and ns >= len(idx):
            geno = [idx[j % len(idx)] for j in range(ns)]
            rng.shuffle(geno)
        else:
            geno = [rng.choice(idx) for _ in range(ns)]
        if mode is None:
            pm = rng.choice([0, 0, 0, 0.1, 0.2, 0.3, 0.5, 0.9, "one"])
            if pm == "one":  # exactly one observation
                keep = rng.randrange(ns)
                geno = [g if j == keep else MISSING for j, g in enumerate(geno)]
                ctx.feature("exactly-one-observation")
            else:
                geno = [MISSING if rng.random() < pm else g for g in geno]  # independent of sample kind
        else:
            pm = 0 if MISSING not in geno else 0.5
        if all(g == MISSING for g in geno):
            expect_raise(ctx, T, geno, alleles, None, "map_mutations/all-missing-accepted", "all-missing")
            continue
        ctx.feature(f"missing:{'none' if pm == 0 else 'some'}")
        used = set(geno) - {MISSING}
        ctx.feature(f"alleles-in-use:{min(len(used), 5)}{'+' if len(used) > 5 else ''}")
        if len(used) == 64:
            ctx.feature("alleles-in-use:all-64")
        for v in (63, 31, 32):
            if v in used:
                ctx.feature(f"allele-{v}-observed")
        if any(g == MISSING and T.fr.kids(u) for g, u in zip(geno, T.samples)):
            ctx.feature("missing-internal-sample")
        # ancestral options: free + every fixed state (small K) or a sample of them
        if kmax <= 4:
            fixed = list(range(K))
        else:
            fixed = {0, kmax - 1, rng.randrange(kmax)}
            obs_idx = [g for g in geno if g != MISSING]
            fixed.add(rng.choice(obs_idx))
            if kmax >= 33:
                fixed.add(rng.choice([31, 32]))
            fixed = sorted(fixed)
        if len(T.order) > 5000:
            fixed = rng.sample(fixed, 1)
        how = rng.choice(GENO_FORMS)
        ctx.feature("genotypes-as:" + how)
        r = rng.random()
        if r < 0.6:
            al = alleles
        elif r < 0.9:
            al = list(alleles)
        elif all(len(a) == 1 for a in alleles):
            al = "".join(alleles)  # a str is a sequence of one-character alleles with .index()
            ctx.feature("alleles-as:str")
        else:
            al = list(alleles)
        kw = rng.choice([False, False, False, True, "omit"])
        if kw:
            ctx.feature("call:keyword")
        res = check_call(ctx, T, geno, al, None, how, kw=kw, want_objects=True)
        if res is not None and rng.random() < 0.08:
            check_via_tables(ctx, T, geno, alleles, res[0], res[1])
        if res is not None and rng.random() < 0.08:
            check_docstring_route(ctx, T, geno, alleles, res[0], res[2], rng)
        for a in fixed:
            arg = anc_form(rng, a, alleles)
            ctx.feature("ancestral:string" if isinstance(arg, str) else "ancestral:index")
            if isinstance(arg, (np.integer, np.str_)):
                ctx.feature("ancestral:numpy-scalar")
            if isinstance(arg, str) and arg == "":
                ctx.feature("ancestral:empty-string")
            if a in (63, 31, 32):
                ctx.feature(f"ancestral-{a}")
            res = check_call(ctx, T, geno, al, arg, how, kw=bool(kw) and rng.random() < 0.5, want_objects=True)
            if res is not None and rng.random() < 0.04:
                check_via_tables(ctx, T, geno, alleles, res[0], res[1])
            if res is not None and rng.random() < 0.04:
                check_docstring_route(ctx, T, geno, alleles, res[0], res[2], rng)
        # the same question put to the low-level method (allele strings play no role there)
        if rng.random() < 0.2:
            ctx.feature("entry:low-level")
            # (the low-level method takes only what casts safely to int32)
            check_ll(ctx, T, geno, rng.choice([None] + fixed), rng.choice(["list", "int8", "int16", "int32", "strided32"]),
                     kw=rng.random() < 0.3)


def error_calls(ctx, T, rng):
    ns = len(T.samples)
    if ns == 0:
        expect_raise(ctx, T, [], ("A",), None, "map_mutations/no-observation-accepted", "zero-samples")
        ll0 = T.tree._ll_tree.map_mutations
        expect_raise_ll(ctx, T, lambda: ll0(np.array([], dtype=np.int32), rng.choice([None, 0])), {"genotypes": []},
                        "map_mutations/low-level/no-observation-accepted", "low-level:zero-samples")
        return
    alleles = make_alleles(rng, rng.choice([2, 3, 64, 70]))
    K = min(len(alleles), 64)
    good = [rng.randrange(K) for _ in range(ns)]
    expect_raise(ctx, T, [MISSING] * ns, alleles, rng.choice([None, 0]), "map_mutations/all-missing-accepted",
                 "all-missing")
    for d in (-1, 1, ns):
        g = (good + good + [0])[: ns + d]
        if len(g) != ns:
            expect_raise(ctx, T, g, alleles, None, "map_mutations/wrong-length-accepted", "wrong-length", kw=d == 1)
    j = rng.randrange(ns)
    for v in (64, 65, 127, rng.choice([128, 255, 256, 1000, 2 ** 31])):
        g = list(good)
        g[j] = v
        expect_raise(ctx, T, g, alleles, None, "map_mutations/genotype-above-63-accepted", "genotype>=64")
        expect_raise(ctx, T, np.array(g, dtype=np.int64), alleles, None,
                     "map_mutations/genotype-above-63-accepted", "genotype>=64", kw=v == 65)
    for v in (-2, -3, -128, rng.choice([-129, -1000])):
        g = list(good)
        g[j] = v
        expect_raise(ctx, T, g, alleles, None, "map_mutations/genotype-below-missing-accepted", "genotype<-1")
    expect_raise(ctx, T, good, alleles, "not-an-allele", "map_mutations/bad-ancestral-state-accepted",
                 "ancestral-string-not-in-alleles")
    for v in (-1, -2, len(alleles), len(alleles) + 1, 64 if len(alleles) > 64 else len(alleles) + 5):
        expect_raise(ctx, T, good, alleles, v, "map_mutations/bad-ancestral-state-accepted",
                     "ancestral-index-out-of-range", kw=v == -1)
    if len(alleles) > 64:
        # a string that sits at index >= 64 of a long allele list is as illegal as the index itself
        for v in (64, len(alleles) - 1):
            expect_raise(ctx, T, good, alleles, alleles[v], "map_mutations/bad-ancestral-state-accepted",
                         "ancestral-string-at-index>=64")
            expect_raise(ctx, T, good, list(alleles), np.int64(v), "map_mutations/bad-ancestral-state-accepted",
                         "ancestral-index-out-of-range")
    # the boundary on the accepting side: 63 is a legal genotype and a legal ancestral state
    if K == 64:
        g = list(good)
        g[j] = 63
        check_call(ctx, T, g, alleles, None)
        check_call(ctx, T, g, alleles, 63)
        check_call(ctx, T, good, alleles, alleles[63])
        check_ll(ctx, T, g, 63)
        check_ll(ctx, T, g, None, "list")
    # the low-level method has its own range checks (the Python wrapper shadows them otherwise)
    ll = T.tree._ll_tree.map_mutations
    # (in a third of the cases: one undefined shift is enough to be seen, every case would be a crash storm)
    for v in (64, 65, rng.choice([127, 128, 1 << 16, 2 ** 31 - 1])) if rng.random() < 0.34 else ():
        g = list(good)
        g[j] = v
        expect_raise_ll(ctx, T, lambda g=g: ll(np.array(g, dtype=np.int32), None), {"genotypes": g},
                        "map_mutations/low-level/genotype-above-63-accepted", "low-level:genotype>=64")
    for v in (-2, rng.choice([-3, -128, -(2 ** 31)])):
        g = list(good)
        g[j] = v
        expect_raise_ll(ctx, T, lambda g=g: ll(g), {"genotypes": g},
                        "map_mutations/low-level/genotype-below-missing-accepted", "low-level:genotype<-1")
    for v in (64, -1, rng.choice([65, 100, -2, -64])):
        expect_raise_ll(ctx, T, lambda v=v: ll(good, v), {"genotypes": good, "ancestral_state": v},
                        "map_mutations/low-level/bad-ancestral-state-accepted", "low-level:ancestral-out-of-range")
        expect_raise_ll(ctx, T, lambda v=v: ll(genotypes=good, ancestral_state=v),
                        {"genotypes": good, "ancestral_state": v},
                        "map_mutations/low-level/bad-ancestral-state-accepted", "low-level:ancestral-out-of-range")
    expect_raise_ll(ctx, T, lambda: ll(good, "A"), {"genotypes": good, "ancestral_state": "A"},
                    "map_mutations/low-level/bad-ancestral-state-accepted", "low-level:ancestral-not-a-number")
    for d in (-1, 1):
        g = (good + [0])[: ns + d]
        expect_raise_ll(ctx, T, lambda g=g: ll(g, None), {"genotypes": g},
                        "map_mutations/low-level/wrong-length-accepted", "low-level:wrong-length")
    expect_raise_ll(ctx, T, lambda: ll([MISSING] * ns, rng.choice([None, 0, 63])), {"genotypes": [MISSING] * ns},
                    "map_mutations/low-level/all-missing-accepted", "low-level:all-missing")
    # undocumented argument shapes: must return or raise, nothing is asserted about which (EITHER)
    for f in (lambda: T.tree.map_mutations(np.array([good]), alleles),
              lambda: T.tree.map_mutations(np.array(good, dtype=float), alleles),
              lambda: T.tree.map_mutations(good, alleles, 1.0),
              lambda: ll(np.array([good, good], dtype=np.int32)),
              lambda: ll(good, 0.0)):
        ctx.count("either:undocumented-argument-shape")
        try:
            f()
        except Exception:
            pass


# --------------------------------------------------------------------------- case runners

_AT = {}


def alltrees_slice(n, lo, hi):
    it, pos = _AT.get(n, (None, 0))
    if it is None or pos > lo:
        it, pos = tskit.all_trees(n), 0
    out = []
    while pos < hi:
        try:
            t = next(it)
        except StopIteration:  # enumeration shorter than expected: C15's business, not ours
            break
        if pos >= lo:
            out.append(t)
        pos += 1
    _AT[n] = (it, pos)
    return out


def model_of_tree(tree):
    return from_tables(tree.tree_sequence.dump_tables())


def tag_tree(ctx, T):
    fr = T.fr
    if len(T.roots) > 1:
        ctx.feature("multi-root")
    for p, ch in fr.children.items():
        if p not in T.in_tree:
            continue
        if len(ch) == 1:
            ctx.feature("unary")
        if len(ch) > 2:
            ctx.feature("polytomy")
        if T.m.is_sample(p):
            ctx.feature("internal-sample")
    for u in T.samples:
        if fr.is_isolated(u):
            ctx.feature("isolated-sample")
    for u in T.in_tree:
        if not T.m.is_sample(u) and not fr.kids(u):
            ctx.feature("dead-leaf")


def fast_ts(m):
    """to_ts for node/edge-only models with tens of thousands of rows (column-wise)."""
    tc = tskit.TableCollection(m.L)
    tc.nodes.set_columns(flags=np.array([r[0] for r in m.nodes], dtype=np.uint32),
                         time=np.array([r[1] for r in m.nodes], dtype=np.float64))
    tc.edges.set_columns(left=np.array([e[0] for e in m.edges], dtype=np.float64),
                         right=np.array([e[1] for e in m.edges], dtype=np.float64),
                         parent=np.array([e[2] for e in m.edges], dtype=np.int32),
                         child=np.array([e[3] for e in m.edges], dtype=np.int32))
    return tc.tree_sequence()


def run_huge(case, ctx, rng):
    """More than 2^16 children under one node / the virtual root, one allele on exactly 65535 / 65536 /
    65537 of them: 16-bit per-child counters, 16-bit stack depths and the like."""
    k = rng.choice([65540, 65541, 65600, 66000])
    shape = ("star", "roots", "star-under-unary")[case["k"] % 3]
    m = RowModel(1.0)
    m.nodes = [(NODE_IS_SAMPLE, 0.0, NULL, NULL, b"")] * k
    edges = []
    if shape != "roots":
        m.nodes.append((rng.choice([0, 0, NODE_IS_SAMPLE]), 1.0, NULL, NULL, b""))
        edges = [(0.0, 1.0, k, c, b"") for c in range(k)]
        if shape == "star-under-unary":
            m.nodes.append((0, 2.0, NULL, NULL, b""))
            edges.append((0.0, 1.0, k + 1, k, b""))
    m.edges = edges
    ts = fast_ts(m)
    T = TreeCtx(ts, ts.first(), m, 0.0, note=f"huge {shape} with {k} sample leaves")
    ctx.sig(("huge", k, shape), nontrivial=True)
    ctx.feature("huge:" + shape)
    ctx.count("family:huge-fanout")
    random_calls(ctx, T, rng, 1, big=True, skew=True)


def run_deep(case, ctx, rng):
    """Depth 1000-3000: a caterpillar (every internal node has one leaf and the rest of the spine), long
    unary runs inside it, internal samples on the spine."""
    depth = rng.choice([1000, 1500, 2000, 3000])
    p_leaf = rng.choice([0.0, 0.1, 0.5, 1.0])
    p_sample = rng.choice([0.0, 0.02, 0.3])
    m = RowModel(1.0)
    nodes = [(NODE_IS_SAMPLE, 0.0, NULL, NULL, b"")]  # the bottom of the spine
    edges = []
    below = 0
    for d in range(1, depth + 1):
        nodes.append((NODE_IS_SAMPLE if rng.random() < p_sample else 0, float(d), NULL, NULL, b""))
        u = len(nodes) - 1
        edges.append((0.0, 1.0, u, below, b""))
        if rng.random() < p_leaf:
            nodes.append((NODE_IS_SAMPLE if rng.random() < 0.9 else 0, 0.0, NULL, NULL, b""))
            edges.append((0.0, 1.0, u, len(nodes) - 1, b""))
        below = u
    m.nodes = nodes
    m.edges = sorted(edges, key=lambda e: (nodes[e[2]][1], e[2], e[3]))
    ts = fast_ts(m)
    tree = ts.first() if rng.random() < 0.5 else ts.at(0.5)
    T = TreeCtx(ts, tree, m, 0.0, note=f"spine of depth {depth}, leaf share {p_leaf}, spine-sample share {p_sample}")
    ctx.sig(("deep", depth, p_leaf, p_sample, case["k"]), nontrivial=True)
    ctx.feature(f"deep:{depth}")
    if p_leaf == 0.0:
        ctx.feature("deep:pure-unary-chain")
    ctx.count("family:deep")
    random_calls(ctx, T, rng, 2)


PERMISSIVE_JSON = {"codec": "json"}


def run_variants(case, ctx, rng):
    """The documented pairing with TreeSequence.variants: the live Variant.genotypes buffer and
    Variant.alleles (None for missing data at the end) go in unchanged; the result goes back into the
    tables of the same tree sequence through the docstring recipe."""
    m = None
    for _ in range(4):
        m = gen.gen_topology(rng, n=rng.randint(2, rng.choice([6, 10, 16])), max_bp=rng.choice([0, 1, 3]),
                             sample_mode=rng.choice(["young"] * 3 + ["any"] * 3 + ["all"] * 2 + ["few"]))
        gen.decorate_sites(rng, m, max_sites=5, max_muts=rng.choice([2, 4, 8]),
                           alleles=rng.choice([None, None, ("A", "C", "G", "T"), ("", "A", "AC", "é", "T")]))
        if m.sites and m.samples():
            break
    ctx.sig(("variants", m.signature()), nontrivial=bool(m.sites and m.samples()))
    if not (m.sites and m.samples()):
        return
    tc = to_tables(m)
    if rng.random() < 0.35:
        tc.mutations.metadata_schema = tskit.MetadataSchema(PERMISSIVE_JSON)
        ctx.feature("variants:mutation-metadata-schema")
    ts = tc.tree_sequence()
    ctx.count("family:variants")
    iam = rng.random() < 0.6
    done = 0
    for var in ts.variants(isolated_as_missing=iam, copy=rng.random() < 0.5):
        if done >= 3:
            break
        done += 1
        x = float(var.site.position)
        tree = ts.at(x) if rng.random() < 0.7 else ts.at_index(ts.at(x).index)
        T = TreeCtx(ts, tree, m, x, note="at(site position); genotypes/alleles are those of the Variant")
        tag_tree(ctx, T)
        geno = [int(v) for v in var.genotypes]
        alleles = var.alleles
        if None in alleles:
            ctx.feature("variants:alleles-end-with-None")
        if all(v == MISSING for v in geno):
            expect_raise(ctx, T, geno, alleles, None, "map_mutations/all-missing-accepted", "all-missing")
            continue
        # reference cross-check of the workload itself: what the variant says is what the model says
        ctx.feature(f"variants:alleles:{min(len([a for a in alleles if a is not None]), 5)}")
        for anc in (None, var.site.ancestral_state, 0, rng.randrange(len([a for a in alleles if a is not None]))):
            res = check_call(ctx, T, geno, alleles, anc, how="variant-buffer", raw=var.genotypes,
                             kw=rng.random() < 0.2, want_objects=True)
            if res is not None and rng.random() < 0.5:
                check_docstring_route(ctx, T, geno, alleles, res[0], res[2], rng)
            if [int(v) for v in var.genotypes] != geno:
                raise AssertionError("workload error: Variant.genotypes changed under the call")


def null_ctx(ts, tree, m, note):
    """The null tree: no edges, every sample an isolated root."""
    from lib.model import Forest
    return TreeCtx(ts, tree, m, None, fr=Forest(m, {}), note=note)


def run_entry(case, ctx, rng):
    """The same question through every way of getting hold of a Tree (ENTRY_FORMS, cycled so that each
    form has a fixed share of the cases); reused objects are asked again after they moved."""
    form = ENTRY_FORMS[case["k"] % len(ENTRY_FORMS)]
    m = gen.gen_topology(rng, n=rng.randint(2, rng.choice([6, 9, 14])), max_bp=rng.choice([1, 3, 5]),
                         sample_mode=rng.choice(["young"] * 3 + ["any"] * 3 + ["all"] * 2 + ["few"]))
    ts = to_ts(m)
    ctx.sig(("entry", form, m.signature()), nontrivial=len(m.samples()) > 0)
    ctx.feature("entry:" + form)
    ctx.count("family:entry")
    samples = m.samples()
    nt = ts.num_trees

    def ask(tree, note, ncalls=2, **kw):
        x = float(tree.interval.left)
        T = TreeCtx(ts, tree, m, x, note=note, **kw)
        tag_tree(ctx, T)
        random_calls(ctx, T, rng, ncalls)

    if form == "same-question-after-move":
        # ONE Tree object, the SAME genotype vector / alleles / fixed state asked again after every kind of move: the answer
        # must be the one for the tree the object is on now (nothing remembered from where it was)
        ns = len(samples)
        if ns == 0 or nt < 2:
            ctx.feature("entry:same-question:not-applicable")
            form = "ctor-seek"
        else:
            alleles = ("A", "C", "G")
            geno = [rng.choice([0, 1, 1, 2]) for _ in range(ns)]
            if len(set(geno)) == 1:
                geno[0] = (geno[0] + 1) % 3
            if ns > 3 and rng.random() < 0.4:
                geno[rng.randrange(ns)] = MISSING
                if all(g == MISSING for g in geno):
                    geno[0] = 0
            anc = rng.choice([None, None, 0, "C", 2])
            t = tskit.Tree(ts, sample_lists=rng.random() < 0.3)
            t.first()
            moves = ["seek_index", "seek", "seek_index", "next", "seek", "prev", "last", "seek_index", "first", "seek"]
            rng.shuffle(moves)
            for mv in ["none"] + moves[:6]:
                if mv == "seek_index":
                    t.seek_index(rng.choice([i for i in range(nt) if i != t.index] or [0]))
                elif mv == "seek":
                    others = [i for i in range(nt) if i != t.index] or [0]
                    bp = m.breakpoints()
                    i = rng.choice(others)
                    t.seek((bp[i] + bp[i + 1]) / 2)
                elif mv == "next":
                    if not t.next():
                        t.first()
                elif mv == "prev":
                    if not t.prev():
                        t.last()
                elif mv == "last":
                    t.last()
                elif mv == "first":
                    t.first()
                ctx.count("oracle:same-question-after-move")
                ctx.feature("same-question-after:" + mv)
                T = TreeCtx(ts, t, m, float(t.interval.left), note=f"same genotypes asked again after {mv}")
                check_call(ctx, T, list(geno), alleles, anc)
            return
    if form == "ctor-seek":
        t = tskit.Tree(ts)
        for _ in range(2):
            x = rng.choice(m.breakpoints()[:-1] + [rng.random() * m.L])
            t.seek(x)
            ask(t, f"Tree(ts); seek({x})")
    elif form == "ctor-seek-index":
        t = tskit.Tree(ts)
        for _ in range(2):
            i = rng.choice([0, nt - 1, -1, rng.randrange(nt)])
            t.seek_index(i)
            ask(t, f"Tree(ts); seek_index({i})")
    elif form == "sweep-forward":
        t = tskit.Tree(ts)
        t.first()
        ask(t, "first()", 1)
        steps = 0
        while t.next() and steps < 5:
            steps += 1
            ask(t, f"first(); next() x {steps}", 1)
        if t.index == -1:
            random_calls(ctx, null_ctx(ts, t, m, "ran off the end with next()"), rng, 1)
            ctx.feature("entry:null-after-sweep")
            t.first()
            ask(t, "first() again after running off the end", 1)
    elif form == "sweep-backward":
        t = tskit.Tree(ts)
        t.last()
        ask(t, "last()", 1)
        steps = 0
        while t.prev() and steps < 5:
            steps += 1
            ask(t, f"last(); prev() x {steps}", 1)
        if t.index == -1:
            random_calls(ctx, null_ctx(ts, t, m, "ran off the start with prev()"), rng, 1)
            ctx.feature("entry:null-after-sweep")
            t.last()
            ask(t, "last() again after running off the start", 1)
    elif form == "copy":
        t = ts.at_index(rng.randrange(nt))
        c = t.copy()
        ask(c, "at_index(i).copy()")
        if not t.next():
            t.first()
        ask(c, "copy, after the original moved on", 1)
        ask(t, "the original after next()", 1)
    elif form == "options":
        tracked = [u for u in samples if rng.random() < 0.5]
        t = tskit.Tree(ts, sample_lists=rng.random() < 0.7, tracked_samples=tracked)
        t.seek_index(rng.randrange(nt))
        ask(t, f"Tree(ts, sample_lists, tracked_samples={tracked}); seek_index")
    elif form == "trees-options":
        tracked = [u for u in samples if rng.random() < 0.5]
        want = rng.randrange(nt)
        for t in ts.trees(tracked_samples=tracked, sample_lists=True):
            if t.index == want or t.index == nt - 1:
                ask(t, f"trees(tracked_samples={tracked}, sample_lists=True) at index {t.index}", 1)
    elif form == "aslist":
        lst = ts.aslist(sample_lists=rng.random() < 0.3)
        for i in sorted({0, nt - 1, rng.randrange(nt)}):
            ask(lst[i], f"aslist()[{i}]", 1)
    elif form == "null":
        t = tskit.Tree(ts)
        random_calls(ctx, null_ctx(ts, t, m, "Tree(ts), never positioned"), rng, 2)
        t2 = ts.at_index(rng.randrange(nt))
        t2.clear()
        random_calls(ctx, null_ctx(ts, t2, m, "at_index(i); clear()"), rng, 1)
    elif form == "root-threshold-2":
        t = tskit.Tree(ts, root_threshold=2)
        t.seek_index(rng.randrange(nt))
        x = float(t.interval.left)
        fr = forest(m, x)
        roots = fr.roots(2)
        T = TreeCtx(ts, t, m, x, fr=fr, roots=roots, note="Tree(ts, root_threshold=2); seek_index")
        if any(u not in T.in_tree for u in samples):
            ctx.feature("entry:root-threshold-2:samples-outside-the-roots")
        root_threshold_calls(ctx, T, rng)
    elif form == "repeat":
        # two calls with different data on one object, then the first question again
        t = ts.at(rng.choice(m.breakpoints()[:-1]))
        ask(t, "at(x), asked repeatedly", 3)


def root_threshold_calls(ctx, T, rng):
    """root_threshold=2: observations of samples outside the roots cannot be reproduced by any placement
    and do not count; at least one sample below the roots is observed."""
    ns = len(T.samples)
    inside = [j for j, u in enumerate(T.samples) if u in T.in_tree]
    if ns == 0 or not inside:
        return
    for _ in range(2):
        K = rng.choice([2, 3, 4, 64])
        alleles = make_alleles(rng, K)
        idx = rng.sample(range(K), min(K, rng.choice([1, 2, 3])))
        geno = [rng.choice(idx) if rng.random() < 0.8 else MISSING for _ in range(ns)]
        j = rng.choice(inside)
        if geno[j] == MISSING:
            geno[j] = idx[0]
        for a in [None] + sorted({0, K - 1, rng.choice(idx)}):
            check_call(ctx, T, geno, alleles, a if a is None or rng.random() < 0.5 else alleles[a],
                       rng.choice(GENO_FORMS))


def run_case(case, ctx):
    rng = case_rng(case)
    g = case["gen"]
    if g == "forest":
        n = case["n"]
        pm = parent_maps(n)[case["pm"]]
        m = RowModel(1.0)
        m.nodes = [(NODE_IS_SAMPLE if (case["mask"] >> u) & 1 else 0, float(u), NULL, NULL, b"")
                   for u in range(n)]
        m.edges = sorted([(0.0, 1.0, p, c, b"") for c, p in enumerate(pm) if p != NULL],
                         key=lambda e: (m.time(e[2]), e[2], e[3], e[0]))
        ts = to_ts(m)
        T = TreeCtx(ts, ts.first(), m, 0.0)
        ctx.sig(("forest", n, case["pm"], case["mask"]), nontrivial=True)
        tag_tree(ctx, T)
        if case["pm"] == 3 and case["mask"] == 3:
            ctx.sample({"case": case, "tree": T.describe()})
        run_exhaustive_tree(ctx, T, rng)
        return
    if g == "forest6":
        n = 6
        pm = tuple(rng.choice([NULL] + list(range(u + 1, n))) for u in range(n))
        mask = rng.randrange(1, 1 << n)
        m = RowModel(1.0)
        m.nodes = [(NODE_IS_SAMPLE if (mask >> u) & 1 else 0, float(u), NULL, NULL, b"") for u in range(n)]
        m.edges = sorted([(0.0, 1.0, p, c, b"") for c, p in enumerate(pm) if p != NULL],
                         key=lambda e: (m.time(e[2]), e[2], e[3], e[0]))
        ts = to_ts(m)
        T = TreeCtx(ts, ts.first(), m, 0.0)
        ctx.sig(("forest6", pm, mask), nontrivial=True)
        tag_tree(ctx, T)
        run_exhaustive_tree(ctx, T, rng)
        return
    if g == "alltrees":
        for k, tree in enumerate(alltrees_slice(case["n"], case["lo"], case["hi"])):
            m = model_of_tree(tree)
            T = TreeCtx(tree.tree_sequence, tree, m, 0.0)
            ctx.sig(("alltrees", case["n"], case["lo"] + k), nontrivial=True)
            tag_tree(ctx, T)
            ctx.feature(f"all_trees({case['n']})")
            run_exhaustive_tree(ctx, T, rng)
        return
    if g == "alltrees67":
        n = rng.choice([6, 7])
        from tskit import combinatorics as comb
        sr = rng.randrange(comb.num_shapes(n))
        lr = rng.randrange(comb.num_labellings(n, sr))
        tree = tskit.Tree.unrank(n, (sr, lr))
        m = model_of_tree(tree)
        T = TreeCtx(tree.tree_sequence, tree, m, 0.0)
        ctx.sig(("unrank", n, sr, lr), nontrivial=True)
        tag_tree(ctx, T)
        ctx.feature(f"all_trees({n}):sampled")
        if n == 6:
            run_exhaustive_tree(ctx, T, rng)
        else:
            random_calls(ctx, T, rng, 40)
        return
    # random tree sequences from the shared forest-walk generator
    if g == "fanout":
        # one node (or the virtual root) with several hundred children: per-child vote counters must not be narrow
        k = rng.choice([255, 256, 257, 258, 300, 511, 512, 513, 600])
        shape = rng.choice(["star", "roots", "star-under-unary", "two-stars"])
        m = RowModel(1.0)
        m.nodes = [(NODE_IS_SAMPLE, 0.0, NULL, NULL, b"") for _ in range(k)]
        edges = []
        if shape != "roots":
            m.nodes.append((0, 1.0, NULL, NULL, b""))
            hub = k
            edges = [(0.0, 1.0, hub, c, b"") for c in range(k)]
            if shape == "star-under-unary":
                m.nodes.append((rng.choice([0, NODE_IS_SAMPLE]), 2.0, NULL, NULL, b""))
                edges.append((0.0, 1.0, k + 1, hub, b""))
            elif shape == "two-stars":
                extra = rng.randint(2, 40)
                base = len(m.nodes)
                m.nodes += [(NODE_IS_SAMPLE, 0.0, NULL, NULL, b"") for _ in range(extra)]
                m.nodes.append((0, 1.0, NULL, NULL, b""))
                hub2 = len(m.nodes) - 1
                edges += [(0.0, 1.0, hub2, c, b"") for c in range(base, base + extra)]
                m.nodes.append((0, 3.0, NULL, NULL, b""))
                edges += [(0.0, 1.0, len(m.nodes) - 1, hub, b""), (0.0, 1.0, len(m.nodes) - 1, hub2, b"")]
        m.edges = sorted(edges, key=lambda e: (m.time(e[2]), e[2], e[3], e[0]))
        ts = to_ts(m)
        T = TreeCtx(ts, ts.first(), m, 0.0)
        ctx.sig(("fanout", k, shape), nontrivial=True)
        ctx.feature("fanout:" + shape)
        tag_tree(ctx, T)
        random_calls(ctx, T, rng, 3, big=True, skew=True)
        return
    if g == "huge":
        return run_huge(case, ctx, rng)
    if g == "deep":
        return run_deep(case, ctx, rng)
    if g == "variants":
        return run_variants(case, ctx, rng)
    if g == "entry":
        return run_entry(case, ctx, rng)
    if g == "wide":
        n = rng.randint(30, 90)
        m = gen.gen_topology(rng, n=n, max_bp=rng.choice([0, 0, 1]),
                             time_mode=rng.choice(["ties", "int", "half"]),
                             sample_mode=rng.choice(["young", "all", "any"]))
    else:
        m = gen.gen_topology(rng, n=rng.randint(2, rng.choice([6, 9, 12, 16, 24])), max_bp=rng.choice([0, 1, 3]),
                             sample_mode=rng.choice(["young"] * 4 + ["any"] * 4 + ["all"] * 3 + ["few"] * 3 + ["none"]))
    ts = to_ts(m)
    bps = m.breakpoints()
    ivs = list(range(len(bps) - 1))
    rng.shuffle(ivs)
    ctx.sig(("model", g, m.signature()), nontrivial=len(m.samples()) > 0)
    if case["k"] < 2 and g == "walk":
        ctx.sample({"case": case, "model": m.to_json()})
    for i in ivs[:2]:
        x = rng.choice([bps[i], (bps[i] + bps[i + 1]) / 2])
        r = rng.random()
        if r < 0.5:
            tree = ts.at(x, sample_lists=rng.random() < 0.3)
        elif r < 0.8:
            tree = ts.at_index(i)
        else:
            tree = next(t for t in ts.trees() if t.index == i)
        T = TreeCtx(ts, tree, m, x)
        tag_tree(ctx, T)
        if g == "errors":
            error_calls(ctx, T, rng)
        elif g == "wide":
            random_calls(ctx, T, rng, 3, big=True)
        else:
            random_calls(ctx, T, rng, 4)
