"""C19 — IBD segments are exactly the maximal shared-path intervals of each requested node pair.

Reference (docs/ibd.md "Definition", TreeSequence.ibd_segments / TableCollection.ibd_segments docstrings;
no edge sweep, no ancestry segment lists - nothing shared with tsk_ibd_finder_*):
  for every elementary interval between consecutive breakpoints of the edge table and every requested
  pair (a, b), signature = (node path a -> MRCA, node path b -> MRCA) read from the {child: parent} map
  at that position (None when the pair has no common ancestor there; when one node is an ancestor of the
  other the MRCA is that node and its own path is just itself - such pairs DO have segments).  Maximal
  runs of equal signatures over adjacent intervals are the segments, labelled with the MRCA.
  Filters: span > min_span ("greater than this value"), time[MRCA] < max_time ("more recent than").
  Requested pairs: all unordered pairs of the `within` list (default: all sample nodes); for `between`
  the pairs whose nodes lie in different sets.

EITHER zones
 * time[MRCA] == max_time: the docstring says "more recent than", the code keeps them.  max_time is
   always drawn strictly between distinct node times (or beyond all of them) in gated calls; a boundary
   workload only records which behaviour was seen (feature boundary:*), it never raises a violation.
 * Adjacent edge rows with equal parent and child ("unsquashed"): "the same genealogical path" can be
   read per link (node path) or per edge row (TableCollection.ibd_segments documents that such IBD
   intervals "will also be split").  Both readings are computed (the per-row signature also carries the
   edge row ids) and a result is accepted when it equals either one, consistently over the four
   store_pairs/store_segments variants of one call.
 * Order of pairs and of segments within a pair is arbitrary (documented) - compared as sorted lists.
 * The exception class of refusals (duplicates, within+between, negative id, summaries not stored).
 * ids >= num_nodes are never generated (known out-of-bounds defect D5, owned by C09).
"""
import itertools

import numpy as np
import tskit

from lib import gen
from lib.harness import case_rng
from lib.model import NODE_IS_SAMPLE, NULL, RowModel, forest
from lib.tsk import to_tables

ID = "C19"

_SEEN = {}
MAX_PER_KEY = 25


def report(ctx, key, msg, detail):
    _SEEN[key] = _SEEN.get(key, 0) + 1
    if _SEEN[key] <= MAX_PER_KEY:
        ctx.violation(key, msg, detail)
    else:
        ctx.count("violations-not-recorded-individually")


# --------------------------------------------------------------------------- case streams


def parent_maps(n):
    choices = [[NULL] + list(range(u + 1, n)) for u in range(n)]
    return list(itertools.product(*choices))


def small_cases(n, k):
    """All sequences of k forests on n nodes (time = id)."""
    npm = len(parent_maps(n))
    return [{"gen": "small", "n": n, "pms": list(c)} for c in itertools.product(range(npm), repeat=k)]


def interleave(*streams):
    """Round robin; a stream given as (iterable, w) contributes w items per round."""
    its = [(iter(s[0]), s[1]) if isinstance(s, tuple) else (iter(s), 1) for s in streams]
    while its:
        nxt = []
        for it, w in its:
            alive = True
            for _ in range(w):
                try:
                    yield next(it)
                except StopIteration:
                    alive = False
                    break
            if alive:
                nxt.append((it, w))
        its = nxt


def rand_stream(kind, n):
    for k in range(n):
        yield {"gen": kind, "k": k}


def cases(tier, seed):
    if tier == "quick":
        yield from small_cases(1, 2) + small_cases(2, 2) + small_cases(2, 3) + small_cases(3, 2)
        exh = small_cases(4, 2)
        yield from interleave((exh, 3), (rand_stream("walk", 120000), 8), rand_stream("manysets", 16),
                              rand_stream("wide", 160), rand_stream("errors", 1500),
                              rand_stream("boundary", 300))
    else:
        yield from small_cases(1, 2) + small_cases(2, 2) + small_cases(2, 3) + small_cases(3, 2)
        exh = small_cases(4, 2) + small_cases(3, 3) + small_cases(4, 3) + small_cases(5, 2)
        yield from interleave((exh, 20), (rand_stream("walk", 6000000), 60), rand_stream("manysets", 600),
                              rand_stream("wide", 20000), rand_stream("errors", 30000),
                              rand_stream("boundary", 5000))


# --------------------------------------------------------------------------- reference


def requested_pairs(m, within, between):
    if between is not None:
        sid = {}
        for j, s in enumerate(between):
            for u in s:
                sid[int(u)] = j
        nodes = sorted(sid)
        if len(nodes) > 2000:
            # a node that no edge mentions has no ancestor but itself and no descendant: it cannot be in any segment
            touched = {e[2] for e in m.edges} | {e[3] for e in m.edges}
            nodes = [u for u in nodes if u in touched]
        return [(a, b) for a, b in itertools.combinations(nodes, 2) if sid[a] != sid[b]]
    nodes = sorted(int(u) for u in within) if within is not None else m.samples()
    return list(itertools.combinations(nodes, 2))


def ref_runs(m, pairs, per_row):
    """{pair: [(left, right, mrca), ...]} maximal runs of equal path signatures, unfiltered."""
    bps = m.breakpoints()
    nodes = sorted({u for p in pairs for u in p})
    out = {p: [] for p in pairs}
    cur = {p: None for p in pairs}  # (sig, left, mrca)
    for i in range(len(bps) - 1):
        l, r = bps[i], bps[i + 1]
        x = (l + r) / 2
        fr = forest(m, x)
        eid = m.edge_ids_at(x) if per_row else None
        paths = {u: fr.path_up(u) for u in nodes}
        for p in pairs:
            a, b = p
            pa, pb = paths[a], paths[b]
            spb = set(pb)
            sig = None
            w = NULL
            for ia, v in enumerate(pa):
                if v in spb:
                    w = v
                    ib = pb.index(v)
                    if per_row:
                        sig = (w, tuple(eid[c] for c in pa[:ia]), tuple(eid[c] for c in pb[:ib]))
                    else:
                        sig = (tuple(pa[:ia + 1]), tuple(pb[:ib + 1]))
                    break
            c = cur[p]
            if c is not None and c[0] != sig:
                out[p].append((c[1], l, c[2]))
                c = None
            if c is None and sig is not None:
                c = (sig, l, w)
            cur[p] = c
    L = bps[-1]
    for p in pairs:
        if cur[p] is not None:
            out[p].append((cur[p][1], L, cur[p][2]))
    return out


def apply_filters(m, runs, min_span, max_time):
    out = {}
    for p, segs in runs.items():
        keep = [s for s in segs
                if (min_span is None or s[1] - s[0] > min_span)
                and (max_time is None or m.time(s[2]) < max_time)]
        if keep:
            out[p] = sorted(keep)
    return out


def has_unsquashed(m):
    seen = {}
    for l, r, p, c, _ in m.edges:
        seen.setdefault((p, c), []).append((l, r))
    for ivs in seen.values():
        ivs.sort()
        for (l0, r0), (l1, r1) in zip(ivs, ivs[1:]):
            if r0 == l1:
                return True
    return False


def summary(ref):
    nseg = sum(len(v) for v in ref.values())
    span = sum(s[1] - s[0] for v in ref.values() for s in v)
    return nseg, span, len(ref)


# --------------------------------------------------------------------------- observing the real result

STORE = [(False, False), (True, False), (False, True), (True, True)]


def must_raise(ctx, f, key, msg, detail):
    ctx.count("oracle:must-raise")
    try:
        r = f()
    except Exception:
        return True
    report(ctx, key, f"{msg}: returned {r!r}", detail)
    return False


def observe(ctx, res, sp, ss, witness):
    """Read everything the documented interface offers for this store choice into plain data."""
    o = {"num_segments": int(res.num_segments), "total_span": float(res.total_span)}
    stored_pairs = sp or ss
    if not stored_pairs:
        must_raise(ctx, lambda: res.num_pairs, "ibd/pairs-not-stored-but-accessible", "num_pairs", witness)
        must_raise(ctx, lambda: res.pairs, "ibd/pairs-not-stored-but-accessible", "pairs", witness)
        must_raise(ctx, lambda: list(res), "ibd/pairs-not-stored-but-accessible", "iteration", witness)
        must_raise(ctx, lambda: res[(0, 1)], "ibd/pairs-not-stored-but-accessible", "result[(0,1)]", witness)
        return o
    o["num_pairs"] = int(res.num_pairs)
    o["len"] = len(res)
    pa = np.asarray(res.pairs)
    o["pairs_shape"] = tuple(pa.shape)
    o["pairs"] = sorted((int(a), int(b)) for a, b in pa.reshape(-1, 2))
    o["keys"] = sorted((int(a), int(b)) for a, b in res)
    per = {}
    for a, b in o["keys"]:
        sl = res[(a, b)]
        d = {"n": len(sl), "span": float(sl.total_span)}
        rev = res[(b, a)]
        d["rev"] = (len(rev), float(rev.total_span))
        if ss:
            left, right, node = np.asarray(sl.left), np.asarray(sl.right), np.asarray(sl.node)
            d["arrays"] = sorted(zip(left.tolist(), right.tolist(), node.tolist()))
            d["dtypes"] = (left.dtype == np.float64, right.dtype == np.float64, node.dtype == np.int32)
            d["objs"] = sorted((s.left, s.right, s.node) for s in sl)
            d["obj_span"] = sum(s.span for s in sl)
        elif len(per) < 4:
            must_raise(ctx, lambda: sl.left, "ibd/segments-not-stored-but-accessible", "left", witness)
            must_raise(ctx, lambda: sl.node, "ibd/segments-not-stored-but-accessible", "node", witness)
            must_raise(ctx, lambda: list(sl), "ibd/segments-not-stored-but-accessible", "iteration", witness)
        per[(a, b)] = d
    o["per"] = per
    return o


def matches(o, ref, sp, ss):
    """First difference between the observation and one reference reading, or None."""
    nseg, span, npairs = summary(ref)
    if o["num_segments"] != nseg:
        return f"num_segments={o['num_segments']} expected {nseg}"
    if o["total_span"] != span:
        return f"total_span={o['total_span']} expected {span}"
    if not (sp or ss):
        return None
    if o["num_pairs"] != npairs or o["len"] != npairs:
        return f"num_pairs={o['num_pairs']} len={o['len']} expected {npairs}"
    exp_keys = sorted(ref)
    if o["keys"] != exp_keys:
        return f"keys={o['keys']} expected {exp_keys}"
    if o["pairs"] != exp_keys or o["pairs_shape"] != (npairs, 2):
        return f"pairs array {o['pairs']} shape {o['pairs_shape']} expected {exp_keys}"
    for p in exp_keys:
        d = o["per"][p]
        e = ref[p]
        es = sum(s[1] - s[0] for s in e)
        if d["n"] != len(e) or d["span"] != es:
            return f"pair {p}: num_segments={d['n']} total_span={d['span']} expected {len(e)}, {es}"
        if d["rev"] != (len(e), es):
            return f"pair {p} accessed as {(p[1], p[0])}: {d['rev']} expected {(len(e), es)}"
        if ss:
            if d["arrays"] != e:
                return f"pair {p}: segments {d['arrays']} expected {e}"
            if d["objs"] != e or d["obj_span"] != es:
                return f"pair {p}: IdentitySegment objects {d['objs']} expected {e}"
            if d["dtypes"] != (True, True, True):
                return f"pair {p}: left/right/node arrays are not float64/float64/int32"
    return None


def jsonable_args(args):
    def conv(x):
        if isinstance(x, (list, tuple)) and len(x) > 2000:
            return f"<{len(x)} entries, first {conv(list(x[:3]))}>"
        if isinstance(x, np.ndarray):
            return x.tolist()
        if isinstance(x, (list, tuple)):
            return [conv(y) for y in x]
        if isinstance(x, (np.integer,)):
            return int(x)
        return x
    return {k: conv(v) for k, v in args.items()}


def check_call(ctx, m, objs, within, between, min_span, max_time, rng, refcache, gated=True):
    """One argument set, all four store options, possibly alternating the entry point."""
    pairs = requested_pairs(m, within, between)
    key = tuple(pairs)
    if key not in refcache:
        link = ref_runs(m, pairs, per_row=False)
        row = ref_runs(m, pairs, per_row=True) if refcache["unsquashed"] else link
        refcache[key] = (link, row)
    link, row = refcache[key]
    ref_link = apply_filters(m, link, min_span, max_time)
    ref_row = apply_filters(m, row, min_span, max_time) if row is not link else ref_link
    args = {}
    if within is not None:
        args["within"] = within
    if between is not None:
        args["between"] = between
    if min_span is not None:
        args["min_span"] = min_span
    if max_time is not None:
        args["max_time"] = max_time
    witness = {"model": m.to_json(), "args": jsonable_args(args)}
    readings = []
    obs = []
    for sp, ss in STORE:
        kw = dict(args)
        # exercise None and explicit False alike
        if sp or rng.random() < 0.5:
            kw["store_pairs"] = sp
        if ss or rng.random() < 0.5:
            kw["store_segments"] = ss
        obj = objs[rng.randrange(len(objs))]
        try:
            res = obj.ibd_segments(**kw)
        except Exception as e:
            ctx.count("ibd:call")
            report(ctx, "ibd/valid-call-raises", f"{type(e).__name__}: {e}; args={witness['args']} "
                   f"store_pairs={sp} store_segments={ss} model={witness['model']}", witness)
            return
        ctx.count("ibd:call")
        try:
            o = observe(ctx, res, sp, ss, witness)
        except Exception as e:
            report(ctx, "ibd/documented-accessor-raises", f"{type(e).__name__}: {e} while reading the result of "
                   f"store_pairs={sp} store_segments={ss} args={witness['args']}; model={witness['model']}", witness)
            readings.append(None)
            continue
        obs.append(o)
        d_row = matches(o, ref_row, sp, ss)
        d_link = matches(o, ref_link, sp, ss) if ref_link is not ref_row else d_row
        ctx.count("oracle:segments-equal-reference" if ss else
                  ("oracle:pair-summaries-equal-reference" if sp else "oracle:totals-equal-reference"))
        if d_row is not None and d_link is not None:
            if gated:
                k = "ibd/segments-differ-from-definition"
                if min_span is not None and max_time is None:
                    k += "/min_span"
                elif max_time is not None and min_span is None:
                    k += "/max_time"
                elif max_time is not None:
                    k += "/min_span+max_time"
                report(ctx, k, f"store_pairs={sp} store_segments={ss} args={witness['args']}: {d_row}"
                       + (f" (per-link reading: {d_link})" if d_link != d_row else "")
                       + f"; model={witness['model']}", witness)
            readings.append(None)
            continue
        readings.append("row" if d_row is None else "link")
        if ref_link is not ref_row and summary(ref_link) != summary(ref_row):
            ctx.feature("unsquashed-reading:" + readings[-1])
        # no filters: disjoint and covering exactly where the pair has an MRCA
        if ss and min_span is None and max_time is None:
            ctx.count("oracle:disjoint-and-covering")
            for p, d in o["per"].items():
                segs = d["arrays"]
                if any(s0[1] > s1[0] for s0, s1 in zip(segs, segs[1:])):
                    report(ctx, "ibd/overlapping-segments", f"pair {p}: {segs}; args={witness['args']} "
                           f"model={witness['model']}", witness)
    if not gated:
        return obs
    # consistency across store options (same reading, same numbers)
    ctx.count("oracle:store-options-consistent")
    if len(obs) == 4 and None not in readings:
        base = obs[0]
        for o, (sp, ss) in zip(obs[1:], STORE[1:]):
            if (o["num_segments"], o["total_span"]) != (base["num_segments"], base["total_span"]):
                report(ctx, "ibd/store-options-disagree", f"totals differ between store options: "
                       f"{(base['num_segments'], base['total_span'])} vs {(o['num_segments'], o['total_span'])} "
                       f"(store_pairs={sp}, store_segments={ss}); args={witness['args']} "
                       f"model={witness['model']}", witness)
        ps = [o for o in obs if "per" in o]
        for o in ps[1:]:
            a = {p: (d["n"], d["span"]) for p, d in ps[0]["per"].items()}
            b = {p: (d["n"], d["span"]) for p, d in o["per"].items()}
            if a != b:
                report(ctx, "ibd/store-options-disagree", f"per-pair summaries differ: {a} vs {b}; "
                       f"args={witness['args']} model={witness['model']}", witness)
        if obs[2]["per"] != obs[3]["per"]:
            report(ctx, "ibd/store-options-disagree", "segments differ between store_segments with and "
                   f"without store_pairs; args={witness['args']} model={witness['model']}", witness)
    return obs


# --------------------------------------------------------------------------- argument generators


def time_cuts(m):
    """Values strictly between distinct node times (and beyond both ends), non-negative."""
    ts_ = sorted({m.time(u) for u in range(m.num_nodes)})
    cuts = [(a + b) / 2 for a, b in zip(ts_, ts_[1:])]
    if ts_:
        cuts.append(ts_[-1] + 1.0)
        cuts.append(ts_[0] - 0.5)
    return [c for c in cuts if c >= 0 and c not in ts_]


def as_container(rng, ids):
    r = rng.random()
    if r < 0.5:
        return list(ids)
    if r < 0.75:
        return np.array(ids, dtype=np.int32)
    if r < 0.9:
        return np.array(ids, dtype=np.int64)
    return tuple(ids)


def draw_sets(rng, m, maxn=None):
    """(within, between): default / within any nodes / between partitions."""
    n = m.num_nodes
    r = rng.random()
    if r < 0.25 or n == 0:
        return None, None
    allnodes = list(range(n))
    if r < 0.6:
        k = rng.choice([0, 1, 2, 2, 3, 4, n, n, rng.randint(0, n), rng.randint(2, max(2, n))])
        ids = rng.sample(allnodes, min(k, n, maxn or n))
        if rng.random() < 0.3:
            ids = [u for u in ids if m.is_sample(u)] or ids
        return as_container(rng, ids), None
    pool = rng.sample(allnodes, rng.randint(0, min(n, maxn or n)))
    nsets = rng.choice([1, 2, 2, 2, 3, 4])
    sets = [[] for _ in range(nsets)]
    for u in pool:
        sets[rng.randrange(nsets)].append(u)
    if rng.random() < 0.5:
        return None, [as_container(rng, s) if len(s) else [] for s in sets]
    return None, sets


def span_choices(m, runs):
    spans = sorted({s[1] - s[0] for v in runs.values() for s in v})
    out = [0, 0.0, m.L, m.L / 2, m.L * 2, m.L / 16]
    out += spans  # exactly a span: "greater than" excludes it
    out += [s / 2 for s in spans[:3]]
    return out


# --------------------------------------------------------------------------- case runners


def build_small(case):
    n = case["n"]
    pms = [parent_maps(n)[i] for i in case["pms"]]
    return n, pms


def small_model(n, pms, mask, squash):
    m = RowModel(float(len(pms)))
    m.nodes = [(NODE_IS_SAMPLE if (mask >> u) & 1 else 0, float(u), NULL, NULL, b"") for u in range(n)]
    edges = []
    for c in range(n):
        start = None
        for i in range(len(pms) + 1):
            p = pms[i][c] if i < len(pms) else NULL
            prev = pms[i - 1][c] if i > 0 else NULL
            if i > 0 and prev != NULL and (p != prev or not squash):
                edges.append((float(start), float(i), prev, c, b""))
                start = None
            if p != NULL and start is None:
                start = i
    m.edges = sorted(edges, key=lambda e: (m.time(e[2]), e[2], e[3], e[0]))
    return m


def objects(rng, m):
    tc = to_tables(m)
    ts = tc.tree_sequence()
    return ts, tc, [ts, ts, tc]


def run_model(ctx, rng, m, ncalls, maxn=None, small=False, wide=False):
    ts, tc, objs = objects(rng, m)
    refcache = {"unsquashed": has_unsquashed(m)}
    if refcache["unsquashed"]:
        ctx.feature("unsquashed-edges")
    cuts = time_cuts(m)
    for j in range(ncalls):
        if small and j == 0:
            within, between = list(range(m.num_nodes)), None
        elif small and j == 1:
            within, between = None, None
        elif wide:
            ids = rng.sample(range(m.num_nodes), rng.randint(64, min(maxn, m.num_nodes)))
            if rng.random() < 0.6:
                within, between = as_container(rng, ids), None
            else:
                within, between = None, [ids[0::3], ids[1::3], ids[2::3]]
            ctx.feature("wide:>=64 requested nodes under one edge")
        else:
            within, between = draw_sets(rng, m, maxn)
        pairs = requested_pairs(m, within, between)
        ctx.feature("sets:" + ("between" if between is not None else "within" if within is not None else "default"))
        if any(forest_is_ancestor(m, a, b) for a, b in pairs[:30]):
            ctx.feature("ancestor-descendant-pair")
        # unfiltered call first, then filter grids on the same sets
        obs = check_call(ctx, m, objs, within, between, None, None, rng, refcache)
        link = refcache[tuple(pairs)][0]
        if not any(link.values()):
            ctx.feature("no-segments")
            if rng.random() < 0.7:
                continue
        sc = span_choices(m, link)
        r = rng.random()
        nf = 3 if small else 2
        for _ in range(nf):
            ms = rng.choice(sc) if rng.random() < 0.7 else None
            mt = rng.choice(cuts) if cuts and rng.random() < 0.6 else None
            if rng.random() < 0.05:
                mt = float("inf")
            if ms is None and mt is None:
                ms = rng.choice(sc)
            if ms is not None:
                ctx.feature("min_span")
            if mt is not None:
                ctx.feature("max_time")
            check_call(ctx, m, objs, within, between, ms, mt, rng, refcache)


SET_INDEXES = [0, 1, 127, 128, 255, 256, 32767, 32768, 65535, 65536, 65537, 65536 + 127, 65536 + 255, 65536 + 256]


def run_manysets(ctx, rng):
    """A `between` partition with more than 2^16 sets (one singleton per node of a large node table): the nodes of a small
    embedded genealogy sit at set indexes around the 8/15/16-bit limits, in particular at 65535 and at pairs j, j + 65536.
    All other nodes are isolated, so the reference is the small model's."""
    n = rng.randint(3, 8)
    m = gen.gen_topology(rng, n=n, max_bp=rng.choice([0, 1, 3]), sample_mode=rng.choice(["all", "any", "young"]))
    ctx.sig(("manysets", m.signature()), nontrivial=len(m.edges) > 0)
    N = 65536 + 300 + rng.randrange(300)
    tc = to_tables(m)
    extra = N - m.num_nodes
    tc.nodes.append_columns(flags=np.zeros(extra, dtype=np.uint32), time=np.zeros(extra),
                            population=np.full(extra, -1, dtype=np.int32), individual=np.full(extra, -1, dtype=np.int32),
                            metadata=np.zeros(0, dtype=np.int8), metadata_offset=np.zeros(extra + 1, dtype=np.uint64))
    ts = tc.tree_sequence()
    # set index -> node of the small model; always 65535 and one pair (j, j + 65536)
    j = rng.choice([0, 1, 127, 255, 256])
    want = [65535, j, j + 65536] + rng.sample([x for x in SET_INDEXES if x not in (65535, j, j + 65536)], len(SET_INDEXES) - 3)
    small = list(range(m.num_nodes))
    rng.shuffle(small)
    place = dict(zip(want, small))
    rest = iter(range(m.num_nodes, N))
    form = rng.randrange(3)
    between = []
    for k in range(N):
        u = place[k] if k in place else next(rest)
        between.append([u] if form == 0 else (u,) if form == 1 else np.array([u], dtype=np.int32))
    ctx.count("manysets:calls")
    ctx.feature("manysets:>65536 singleton sets")
    refcache = {"unsquashed": has_unsquashed(m)}
    objs = [ts, tc]
    check_call(ctx, m, objs, None, between, None, None, rng, refcache)
    cuts = time_cuts(m)
    if cuts and rng.random() < 0.5:
        check_call(ctx, m, objs, None, between, None, rng.choice(cuts), rng, refcache)
    # fewer sets than nodes: the same embedding with the isolated nodes grouped 3 by 3 (about 22000 sets)
    if rng.random() < 0.3:
        grouped, cur = [], []
        for k in range(N):
            u = int(between[k][0])
            if u < m.num_nodes:
                grouped.append([u])
            else:
                cur.append(u)
                if len(cur) == 3:
                    grouped.append(cur)
                    cur = []
        if cur:
            grouped.append(cur)
        ctx.feature("manysets:grouped")
        check_call(ctx, m, objs, None, grouped, None, None, rng, refcache)


def wide_model(rng):
    """40-100 nodes under a two-node unary 'stem' so that one edge carries the ancestry of every
    requested node (the finder's segment queue starts with room for 63 segments), 1-3 intervals with
    partly different random recursive trees."""
    n = rng.randint(66, 100)
    k = rng.choice([1, 2, 3])
    m = RowModel(float(k))
    tmode = rng.choice(["id", "ties"])
    times = [float(u) if tmode == "id" else float(u // 4) for u in range(n)]
    top = times[-1] + 1.0
    times += [top, top + 1.0]
    smode = rng.choice(["all", "half", "young"])
    flags = []
    for u in range(n):
        s = smode == "all" or (smode == "half" and rng.random() < 0.5) or (smode == "young" and times[u] < 2)
        flags.append(NODE_IS_SAMPLE if s else 0)
    flags += [0, 0]
    m.nodes = [(flags[u], times[u], NULL, NULL, b"") for u in range(n + 2)]

    def older(u):
        c = [v for v in range(u + 1, n) if times[v] > times[u]]
        return rng.choice(c) if c and rng.random() < 0.9 else n

    par = [older(u) for u in range(n)]
    pms = []
    for i in range(k):
        if i > 0:
            par = list(par)
            for _ in range(rng.randint(1, 6)):
                u = rng.randrange(n)
                par[u] = older(u)
        pms.append(par + [n + 1, NULL])
    unsq = rng.random() < 0.2
    edges = []
    for c in range(n + 1):
        start = 0
        for i in range(1, k + 1):
            if i == k or pms[i][c] != pms[i - 1][c] or (unsq and rng.random() < 0.3):
                edges.append((float(start), float(i), pms[i - 1][c], c, b""))
                start = i
    m.edges = sorted(edges, key=lambda e: (m.time(e[2]), e[2], e[3], e[0]))
    return m


def forest_is_ancestor(m, a, b):
    for l, r, p, c, _ in m.edges:
        if (p == a and c == b) or (p == b and c == a):
            return True
    return False


def run_errors(ctx, rng, m):
    ts, tc, objs = objects(rng, m)
    n = m.num_nodes
    if n < 2:
        return
    obj = rng.choice(objs)
    w = {"model": m.to_json()}
    ids = rng.sample(range(n), rng.randint(1, n))
    d = ids + [rng.choice(ids)]
    rng.shuffle(d)
    must_raise(ctx, lambda: obj.ibd_segments(within=d, store_segments=True), "ibd/duplicate-node-accepted",
               f"within={d} model={w['model']}", w)
    ctx.feature("error:duplicate-within")
    sets = [[], []]
    for u in ids:
        sets[rng.randrange(2)].append(u)
    dup = rng.choice(ids)
    sets[rng.randrange(2)].append(dup)
    must_raise(ctx, lambda: obj.ibd_segments(between=sets, store_pairs=True), "ibd/duplicate-node-accepted",
               f"between={sets} model={w['model']}", w)
    ctx.feature("error:duplicate-between")
    must_raise(ctx, lambda: obj.ibd_segments(within=[0], between=[[0], [1]]), "ibd/within-and-between-accepted",
               f"within=[0], between=[[0],[1]] model={w['model']}", w)
    ctx.feature("error:within-and-between")
    neg = ids[:2] + [-1]
    must_raise(ctx, lambda: obj.ibd_segments(within=neg), "ibd/negative-node-accepted",
               f"within={neg} model={w['model']}", w)
    must_raise(ctx, lambda: obj.ibd_segments(between=[ids[:1], [-1]]), "ibd/negative-node-accepted",
               f"between={[ids[:1], [-1]]} model={w['model']}", w)
    ctx.feature("error:negative-id")
    # a pair without segments is not a key
    res = obj.ibd_segments(within=ids, store_segments=True)
    keys = {(int(a), int(b)) for a, b in res}
    for a, b in itertools.combinations(sorted(ids), 2):
        if (a, b) not in keys:
            ctx.count("oracle:absent-pair-keyerror")
            try:
                r = res[(a, b)]
            except KeyError:
                pass
            except Exception as e:
                report(ctx, "ibd/absent-pair-not-keyerror", f"result[{(a, b)}] raised {type(e).__name__}: {e}; "
                       f"within={ids} model={w['model']}", w)
            else:
                report(ctx, "ibd/absent-pair-not-keyerror", f"result[{(a, b)}] returned {r!r} for a pair with no "
                       f"segments; within={ids} model={w['model']}", w)
            break


def run_boundary(ctx, rng, m):
    """max_time equal to a node time: recorded, never gated (EITHER zone)."""
    ts, tc, objs = objects(rng, m)
    pairs = requested_pairs(m, None, None)
    if not pairs:
        return
    runs = ref_runs(m, pairs, per_row=True)
    times = sorted({m.time(s[2]) for v in runs.values() for s in v if m.time(s[2]) >= 0})
    if not times:
        return
    t = rng.choice(times)
    res = ts.ibd_segments(max_time=t, store_segments=True)
    strict = apply_filters(m, runs, None, t)
    incl = {p: sorted(s for s in v if m.time(s[2]) <= t) for p, v in runs.items()}
    incl = {p: v for p, v in incl.items() if v}
    got = {(int(a), int(b)): sorted(zip(res[(a, b)].left.tolist(), res[(a, b)].right.tolist(),
                                       res[(a, b)].node.tolist())) for a, b in res}
    ctx.count("boundary-calls(not gated)")
    if got == incl and got != strict:
        ctx.feature("boundary:time==max_time kept (inclusive)")
    elif got == strict and got != incl:
        ctx.feature("boundary:time==max_time dropped (strict)")
    elif got == strict:
        ctx.feature("boundary:indistinguishable")
    else:
        ctx.feature("boundary:neither")


def run_case(case, ctx):
    rng = case_rng(case)
    g = case["gen"]
    if g == "small":
        n, pms = build_small(case)
        mask = rng.randrange(1 << n) if rng.random() < 0.7 else (1 << n) - 1
        squash = rng.random() < 0.7
        m = small_model(n, pms, mask, squash)
        ctx.sig(("small", n, tuple(case["pms"]), squash), nontrivial=len(m.edges) > 0)
        ctx.count("exhaustive-small-forests")
        run_model(ctx, rng, m, 3, small=True)
        return
    if g == "manysets":
        run_manysets(ctx, rng)
        return
    if g == "wide":
        m = wide_model(rng)
        ctx.sig(("wide", m.signature()), nontrivial=len(m.edges) > 0)
        ctx.feature("wide")
        run_model(ctx, rng, m, 1, maxn=90, wide=True)
        return
    big = rng.random() < 0.15
    if rng.random() < 0.1:
        m = gen.gen_full(rng, max_nodes=10, max_bp=5)
    else:
        m = gen.gen_topology(rng, n=rng.randint(2, 20 if big else rng.choice([4, 6, 9, 12])),
                             max_bp=10 if big else rng.choice([1, 3, 6]),
                             unsquashed=rng.random() < 0.3,
                             sample_mode=rng.choice(["young"] * 4 + ["any"] * 4 + ["all"] * 3 + ["few"] * 2 + ["none"]))
    for t in gen.topo_tags(m):
        ctx.feature(t)
    if g == "errors":
        ctx.sig(("errors", m.signature()), nontrivial=m.num_nodes >= 2)
        run_errors(ctx, rng, m)
        return
    if g == "boundary":
        ctx.sig(("boundary", m.signature()), nontrivial=len(m.edges) > 0)
        run_boundary(ctx, rng, m)
        return
    ctx.sig(m.signature(), nontrivial=len(m.edges) > 0)
    if case["k"] < 2:
        ctx.sample({"case": case, "model": m.to_json()})
    run_model(ctx, rng, m, 3)
