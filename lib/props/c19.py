"""C19 — IBD segments are exactly the maximal shared-path intervals of each requested node pair.

Reference (docs/ibd.md "Definition", TreeSequence.ibd_segments / TableCollection.ibd_segments docstrings;
no edge sweep, no ancestry segment lists - nothing shared with tsk_ibd_finder_*):
  for every elementary interval between consecutive breakpoints of the edge table and every requested
  pair (a, b), signature = (node path a -> MRCA, node path b -> MRCA) read from the {child: parent} map
  at that position (None when the pair has no common ancestor there; when one node is an ancestor of the
  other the MRCA is that node and its own path is just itself - such pairs DO have segments).  Maximal
  runs of equal signatures over adjacent intervals are the segments, labelled with the MRCA.
  Filters: span > min_span ("greater than this value"), time[MRCA] < max_time ("more recent than").
  Requested pairs: all unordered pairs of the `within` list (default: all sample nodes); for `between`
  the pairs whose nodes lie in different sets.

EITHER zones
 * time[MRCA] == max_time: the docstring says "more recent than", the code keeps them.  Both candidates
   (strict and inclusive) are computed for every call; where they differ (max_time exactly on the time of an
   MRCA) the result must equal ONE of them, the same one under all four store choices (feature boundary:*
   records which); everywhere else (between distinct node times, next double above / below a node time, 0,
   inf, DBL_MAX) the two coincide and the call is gated at full strength.
 * Adjacent edge rows with equal parent and child ("unsquashed"): "the same genealogical path" can be
   read per link (node path) or per edge row (TableCollection.ibd_segments documents that such IBD
   intervals "will also be split").  Both readings are computed (the per-row signature also carries the
   edge row ids) and a result is accepted when it equals either one, consistently over the four
   store_pairs/store_segments variants of one call.
 * Order of pairs and of segments within a pair is arbitrary (documented) - compared as sorted lists.
 * The exception class of refusals (duplicates, within+between, negative / out-of-range id, summaries not stored).
 * Negative min_span / max_time: this version refuses them (TSK_ERR_BAD_PARAM_VALUE), the docstrings are silent.
   Accepted: an exception, or the result the definition gives for that value.
 * Argument containers beyond list / tuple / range / numpy integer arrays are not fed.  A TypeError for one of the
   fed forms would be a violation (every one of them is converted by util.safe_np_int_cast today).

Audit (lib/AUDIT-BRIEF.md, gap list in AUDIT-C19.md): helpers for the extreme instances, the incremental
reference used for them and the argument forms live in c19_ext.py.
"""
import itertools
import math
import pickle

import numpy as np
import tskit

from lib import gen
from lib.harness import case_rng
from lib.model import NODE_IS_SAMPLE, NULL, RowModel, forest
from lib.props import c19_ext as X
from lib.tsk import to_tables

ID = "C19"

_SEEN = {}
MAX_PER_KEY = 25


def report(ctx, key, msg, detail):
    _SEEN[key] = _SEEN.get(key, 0) + 1
    if _SEEN[key] <= MAX_PER_KEY:
        ctx.violation(key, msg, detail)
    else:
        ctx.count("violations-not-recorded-individually")


# --------------------------------------------------------------------------- case streams


def parent_maps(n):
    choices = [[NULL] + list(range(u + 1, n)) for u in range(n)]
    return list(itertools.product(*choices))


def small_cases(n, k):
    """All sequences of k forests on n nodes (time = id)."""
    npm = len(parent_maps(n))
    return [{"gen": "small", "n": n, "pms": list(c)} for c in itertools.product(range(npm), repeat=k)]


def interleave(*streams):
    """Round robin; a stream given as (iterable, w) contributes w items per round."""
    its = [(iter(s[0]), s[1]) if isinstance(s, tuple) else (iter(s), 1) for s in streams]
    while its:
        nxt = []
        for it, w in its:
            alive = True
            for _ in range(w):
                try:
                    yield next(it)
                except StopIteration:
                    alive = False
                    break
            if alive:
                nxt.append((it, w))
        its = nxt


def rand_stream(kind, n):
    for k in range(n):
        yield {"gen": kind, "k": k}


def cases(tier, seed):
    # `aux` alternates the two expensive families (wide: ~0.3 s, ext: ~0.15 s per case) so that one round costs what
    # it cost before the audit; every family is reached within the first 16 cases after the tiny exhaustive ones.
    if tier == "quick":
        yield from small_cases(1, 2) + small_cases(2, 2) + small_cases(2, 3) + small_cases(3, 2)
        exh = small_cases(4, 2)
        aux = interleave(rand_stream("ext", 2400), rand_stream("wide", 160))
        yield from interleave((exh, 3), (rand_stream("walk", 120000), 8), rand_stream("manysets", 16),
                              aux, rand_stream("errors", 1500), rand_stream("boundary", 600))
    else:
        yield from small_cases(1, 2) + small_cases(2, 2) + small_cases(2, 3) + small_cases(3, 2)
        exh = small_cases(4, 2) + small_cases(3, 3) + small_cases(4, 3) + small_cases(5, 2)
        aux = interleave(rand_stream("ext", 40000), rand_stream("wide", 20000))
        yield from interleave((exh, 20), (rand_stream("walk", 6000000), 60), rand_stream("manysets", 600),
                              (aux, 2), rand_stream("errors", 30000), rand_stream("boundary", 10000))


# --------------------------------------------------------------------------- reference


def requested_pairs(m, within, between):
    if between is not None:
        sid = {}
        for j, s in enumerate(between):
            for u in s:
                sid[int(u)] = j
        nodes = sorted(sid)
        if len(nodes) > 2000:
            # a node that no edge mentions has no ancestor but itself and no descendant: it cannot be in any segment
            touched = {e[2] for e in m.edges} | {e[3] for e in m.edges}
            nodes = [u for u in nodes if u in touched]
        groups = {}
        for u in nodes:
            groups.setdefault(sid[u], []).append(u)
        if len(groups) <= 8:
            # few sets: the cross products (the same list as below, cheaper when one set is large)
            out = []
            for i, j in itertools.combinations(sorted(groups), 2):
                out += [(a, b) if a < b else (b, a) for a in groups[i] for b in groups[j]]
            return sorted(out)
        return [(a, b) for a, b in itertools.combinations(nodes, 2) if sid[a] != sid[b]]
    nodes = sorted(int(u) for u in within) if within is not None else m.samples()
    return list(itertools.combinations(nodes, 2))


def ref_runs(m, pairs, per_row):
    """{pair: [(left, right, mrca), ...]} maximal runs of equal path signatures, unfiltered."""
    bps = m.breakpoints()
    nodes = sorted({u for p in pairs for u in p})
    out = {p: [] for p in pairs}
    cur = {p: None for p in pairs}  # (sig, left, mrca)
    for i in range(len(bps) - 1):
        l, r = bps[i], bps[i + 1]
        x = (l + r) / 2
        fr = forest(m, x)
        eid = m.edge_ids_at(x) if per_row else None
        paths = {u: fr.path_up(u) for u in nodes}
        for p in pairs:
            a, b = p
            pa, pb = paths[a], paths[b]
            spb = set(pb)
            sig = None
            w = NULL
            for ia, v in enumerate(pa):
                if v in spb:
                    w = v
                    ib = pb.index(v)
                    if per_row:
                        sig = (w, tuple(eid[c] for c in pa[:ia]), tuple(eid[c] for c in pb[:ib]))
                    else:
                        sig = (tuple(pa[:ia + 1]), tuple(pb[:ib + 1]))
                    break
            c = cur[p]
            if c is not None and c[0] != sig:
                out[p].append((c[1], l, c[2]))
                c = None
            if c is None and sig is not None:
                c = (sig, l, w)
            cur[p] = c
    L = bps[-1]
    for p in pairs:
        if cur[p] is not None:
            out[p].append((cur[p][1], L, cur[p][2]))
    return out


def apply_filters(m, runs, min_span, max_time, inclusive=False):
    """span > min_span; time[MRCA] < max_time (docstring) or <= max_time (`inclusive`: what the code does)."""
    out = {}
    for p, segs in runs.items():
        keep = [s for s in segs
                if (min_span is None or s[1] - s[0] > min_span)
                and (max_time is None or m.time(s[2]) < max_time or (inclusive and m.time(s[2]) == max_time))]
        if keep:
            out[p] = sorted(keep)
    return out


def has_unsquashed(m):
    seen = {}
    for l, r, p, c, _ in m.edges:
        seen.setdefault((p, c), []).append((l, r))
    for ivs in seen.values():
        ivs.sort()
        for (l0, r0), (l1, r1) in zip(ivs, ivs[1:]):
            if r0 == l1:
                return True
    return False


def summary(ref):
    nseg = sum(len(v) for v in ref.values())
    span = sum(s[1] - s[0] for v in ref.values() for s in v)
    return nseg, span, len(ref)


# --------------------------------------------------------------------------- entry points

STORE = [(False, False), (True, False), (False, True), (True, True)]


class Entry:
    """One tree sequence reached through every public route to the IBD finder: TreeSequence / TableCollection
    methods, copies, table views, pickles, a collection without indexes, and the low-level module called with
    keywords, positionally and with its own defaults (max_time defaults to DBL_MAX there, not to inf)."""

    ROUTES = [("ts", 28), ("tc", 22), ("tc.copy", 5), ("ts.dump_tables", 5), ("ts.tables", 5), ("unpickled-ts", 3),
              ("unpickled-tc", 3), ("tc-no-index", 5), ("ll-kw", 8), ("ll-pos", 8), ("ll-defaults", 8)]

    def __init__(self, ts, tc, routes=None):
        self.ts, self.tc = ts, tc
        self.cache = {}
        rts = [(r, w) for r, w in self.ROUTES if routes is None or r in routes]
        self.names = [r for r, _ in rts]
        self.weights = [w for _, w in rts]

    def pick(self, rng):
        return rng.choices(self.names, self.weights)[0]

    def receiver(self, route):
        if route in ("ts", "tc"):
            return getattr(self, route)
        if route not in self.cache:
            if route == "tc.copy":
                o = self.tc.copy()
            elif route == "ts.dump_tables":
                o = self.ts.dump_tables()
            elif route == "ts.tables":
                o = self.ts.tables
            elif route == "unpickled-ts":
                o = pickle.loads(pickle.dumps(self.ts))
            elif route == "unpickled-tc":
                o = pickle.loads(pickle.dumps(self.tc))
            elif route == "tc-no-index":
                o = self.tc.copy()
                o.drop_index()
            else:
                o = self.tc
            self.cache[route] = o
        return self.cache[route]

    def call(self, route, kw, raw):
        """kw: keyword arguments in the chosen container / number forms; raw: the same call as plain lists
        (what the low-level routes are given)."""
        if not route.startswith("ll-"):
            return self.receiver(route).ibd_segments(**kw)
        return ll_call(self.tc, route, raw)


def ll_call(tc, style, raw):
    ll = tc._ll_tables
    within, between = raw.get("within"), raw.get("between")
    ms, mt = raw.get("min_span"), raw.get("max_time")
    sp, ss = bool(raw.get("store_pairs")), bool(raw.get("store_segments"))
    if between is not None:
        sizes = np.array([len(s) for s in between], dtype=np.uint64)
        flat = np.array([int(u) for s in between for u in s], dtype=np.int32)
        f, names, lead = ll.ibd_segments_between, ["sample_set_sizes", "sample_sets"], [sizes, flat]
    else:
        samples = None if within is None else np.array([int(u) for u in within], dtype=np.int32)
        f, names, lead = ll.ibd_segments_within, ["samples"], [samples]
    if style == "ll-pos":
        r = f(*lead, 0.0 if ms is None else ms, math.inf if mt is None else mt, int(sp), int(ss))
    elif style == "ll-kw":
        kw = {"store_segments": ss, "store_pairs": int(sp), "max_time": X.DBL_MAX if mt is None else mt,
              "min_span": 0 if ms is None else ms}
        kw.update(zip(names, lead))
        r = f(**kw)
    else:
        kw = {}
        if ms is not None:
            kw["min_span"] = ms
        if mt is not None:
            kw["max_time"] = mt
        if sp:
            kw["store_pairs"] = True
        if ss:
            kw["store_segments"] = True
        if between is not None:
            r = f(*lead, **kw)
        elif within is not None:
            r = f(lead[0], **kw)
        else:
            r = f(**kw)
    # the documented result class is a thin view of the low-level object
    return tskit.IdentitySegments(r, max_time=math.inf if mt is None else mt, min_span=0 if ms is None else ms,
                                  store_segments=ss, store_pairs=sp)


# --------------------------------------------------------------------------- observing the real result


def must_raise(ctx, f, key, msg, detail):
    ctx.count("oracle:must-raise")
    try:
        r = f()
    except Exception:
        return True
    report(ctx, key, f"{msg}: returned {r!r}", detail)
    return False


def seg_tuples(sl):
    left, right, node = np.asarray(sl.left), np.asarray(sl.right), np.asarray(sl.node)
    return sorted(zip(left.tolist(), right.tolist(), node.tolist())), (left.dtype == np.float64,
                                                                      right.dtype == np.float64,
                                                                      node.dtype == np.int32)


def key_form(rng, a, b):
    r = rng.random()
    if r < 0.6:
        return (a, b)
    if r < 0.8:
        return (np.int32(a), np.int32(b))
    return (np.int64(a), int(b))


def observe(ctx, res, sp, ss, witness, rng, sampled=False):
    """Read everything the documented interface offers for this store choice into plain data.  The pair keys are
    read through one of four equivalent routes (iteration, keys(), items(), the pairs array), the lists through
    __getitem__ with python / numpy integer keys or from items()/values()."""
    o = {"num_segments": int(res.num_segments), "total_span": float(res.total_span)}
    stored_pairs = sp or ss
    if not stored_pairs:
        must_raise(ctx, lambda: res.num_pairs, "ibd/pairs-not-stored-but-accessible", "num_pairs", witness)
        must_raise(ctx, lambda: res.pairs, "ibd/pairs-not-stored-but-accessible", "pairs", witness)
        must_raise(ctx, lambda: list(res), "ibd/pairs-not-stored-but-accessible", "iteration", witness)
        must_raise(ctx, lambda: res[(0, 1)], "ibd/pairs-not-stored-but-accessible", "result[(0,1)]", witness)
        must_raise(ctx, lambda: len(res), "ibd/pairs-not-stored-but-accessible", "len()", witness)
        must_raise(ctx, lambda: list(res.items()), "ibd/pairs-not-stored-but-accessible", "items()", witness)
        if rng.random() < 0.1:
            o["str"] = str(res)
        return o
    o["num_pairs"] = int(res.num_pairs)
    o["len"] = len(res)
    pa = np.asarray(res.pairs)
    o["pairs_shape"] = tuple(pa.shape)
    o["pairs_dtype"] = str(pa.dtype)
    o["pairs"] = sorted((int(a), int(b)) for a, b in pa.reshape(-1, 2).tolist())
    how = rng.choice(["iter", "iter", "keys", "items", "values", "pairs-array"])
    ctx.feature("result-read-through:" + how)
    lists = {}
    if how == "iter":
        keys = [(int(a), int(b)) for a, b in res]
    elif how == "keys":
        keys = [(int(a), int(b)) for a, b in res.keys()]
    elif how == "items":
        keys = []
        for (a, b), sl in res.items():
            keys.append((int(a), int(b)))
            lists[keys[-1]] = sl
    elif how == "values":
        keys = [(int(a), int(b)) for a, b in res]
        vals = list(res.values())
        if len(vals) == len(keys):
            lists = dict(zip(keys, vals))
        else:
            o["values_len"] = len(vals)
    else:
        keys = list(o["pairs"])
    o["keys"] = sorted(keys)
    full = set(range(len(o["keys"]))) if not sampled else set(
        list(range(min(40, len(keys)))) + list(range(max(0, len(keys) - 40), len(keys)))
        + [rng.randrange(len(keys)) for _ in range(120 if keys else 0)])
    per = {}
    for i, (a, b) in enumerate(o["keys"]):
        sl = lists[(a, b)] if (a, b) in lists else res[key_form(rng, a, b)]
        d = {"n": len(sl), "span": float(sl.total_span)}
        if i in full:
            rev = res[(b, a)]
            d["rev"] = (len(rev), float(rev.total_span))
            if i < 3:
                d["in"] = ((a, b) in res, (b, a) in res, res.get((a, b)) is not None)
            if ss:
                d["arrays"], d["dtypes"] = seg_tuples(sl)
                segs = list(sl)
                d["objs"] = sorted((s.left, s.right, s.node) for s in segs)
                d["obj_span"] = sum(s.span for s in segs)
                d["obj_types"] = all(type(s.left) is float and type(s.right) is float and type(s.node) is int
                                     for s in segs)
            elif len(per) < 4:
                must_raise(ctx, lambda: sl.left, "ibd/segments-not-stored-but-accessible", "left", witness)
                must_raise(ctx, lambda: sl.right, "ibd/segments-not-stored-but-accessible", "right", witness)
                must_raise(ctx, lambda: sl.node, "ibd/segments-not-stored-but-accessible", "node", witness)
                must_raise(ctx, lambda: list(sl), "ibd/segments-not-stored-but-accessible", "iteration", witness)
        per[(a, b)] = d
    o["per"] = per
    if rng.random() < 0.1:
        o["str"] = str(res)
        if len(keys) <= 12 and o["num_segments"] <= 200:
            o["repr"] = repr(res)
            if per:
                k0 = o["keys"][0]
                o["list_str"] = (str(res[k0]), per[k0]["n"], per[k0]["span"])
    return o


def matches(o, ref, sp, ss):
    """First difference between the observation and one reference reading, or None."""
    nseg, span, npairs = summary(ref)
    if o["num_segments"] != nseg:
        return f"num_segments={o['num_segments']} expected {nseg}"
    if o["total_span"] != span:
        return f"total_span={o['total_span']} expected {span}"
    if "str" in o:
        # the printed summary shows the same totals (the table layout itself is not asserted)
        if str(nseg) not in o["str"] or str(float(span)) not in o["str"]:
            return f"str(result) does not show num_segments={nseg} and total_span={float(span)}: {o['str']!r}"
    if not (sp or ss):
        return None
    if o["num_pairs"] != npairs or o["len"] != npairs:
        return f"num_pairs={o['num_pairs']} len={o['len']} expected {npairs}"
    if o.get("values_len", npairs) != npairs:
        return f"len(values())={o['values_len']} expected {npairs}"
    exp_keys = sorted(ref)
    if o["keys"] != exp_keys:
        return f"keys={_short(o['keys'])} expected {_short(exp_keys)}"
    if o["pairs"] != exp_keys or o["pairs_shape"] != (npairs, 2):
        return f"pairs array {_short(o['pairs'])} shape {o['pairs_shape']} expected {_short(exp_keys)}"
    if o["pairs_dtype"] != "int32":
        return f"pairs array has dtype {o['pairs_dtype']}, documented int32"
    for p in exp_keys:
        d = o["per"][p]
        e = ref[p]
        es = sum(s[1] - s[0] for s in e)
        if d["n"] != len(e) or d["span"] != es:
            return f"pair {p}: num_segments={d['n']} total_span={d['span']} expected {len(e)}, {es}"
        if "rev" in d and d["rev"] != (len(e), es):
            return f"pair {p} accessed as {(p[1], p[0])}: {d['rev']} expected {(len(e), es)}"
        if "in" in d and d["in"] != (True, True, True):
            return f"pair {p}: ((a,b) in result, (b,a) in result, result.get((a,b)) is not None) = {d['in']}"
        if ss and "arrays" in d:
            if d["arrays"] != e:
                return f"pair {p}: segments {_short(d['arrays'])} expected {_short(e)}"
            if d["objs"] != e or d["obj_span"] != es or not d["obj_types"]:
                return f"pair {p}: IdentitySegment objects {_short(d['objs'])} expected {_short(e)}"
            if d["dtypes"] != (True, True, True):
                return f"pair {p}: left/right/node arrays are not float64/float64/int32"
    if "list_str" in o:
        s_, n_, sp_ = o["list_str"]
        if str(n_) not in s_ or str(sp_) not in s_:
            return f"str(segment list) {s_!r} does not show num_segments={n_} total_span={sp_}"
    return None


def _short(x):
    return x if len(x) <= 40 else f"<{len(x)} entries: {x[:6]} ... {x[-3:]}>"


def witness_model(m):
    return getattr(m, "desc", None) or m.to_json()


def check_call(ctx, m, ent, within, between, min_span, max_time, rng, refcache, *, ref_sets=None, relabel=None,
               sampled=False, forms=True):
    """One argument set under all four store options; every call picks its own entry point, container forms and
    number forms.  `within` / `between` are plain id lists in the ids of the tables; when the tables embed the
    model under other ids, `ref_sets` are the same sets in model ids and `relabel` maps model ids to table ids."""
    rw, rb = ref_sets if ref_sets is not None else (within, between)
    pairs = requested_pairs(m, rw, rb)
    key = tuple(pairs) if len(pairs) < 3000 else ("many", len(pairs), hash(tuple(pairs)))
    if key not in refcache:
        rr = refcache.get("ref", ref_runs)
        link = rr(m, pairs, False)
        row = rr(m, pairs, True) if refcache["unsquashed"] else link
        refcache[key] = (link, row)
    link, row = refcache[key]
    cands = []
    for reading, runs in ((("row", row), ("link", link)) if row is not link else (("row", row),)):
        for rule in ("strict", "inclusive"):
            if rule == "inclusive" and max_time is None:
                continue
            ref = apply_filters(m, runs, min_span, max_time, inclusive=rule == "inclusive")
            if relabel is not None:
                ref = X.relabel_ref(ref, relabel)
            same = [c for c in cands if c[2] == ref]
            if same:
                same[0][3].add((reading, rule))
            else:
                cands.append((reading, rule, ref, {(reading, rule)}))
    # the strict and the inclusive reading differ for this call: max_time sits exactly on the time of an MRCA
    on_boundary = any({lab[1] for lab in c[3]} != {"strict", "inclusive"} for c in cands) and max_time is not None
    if on_boundary:
        ctx.feature("max_time:exactly-the-time-of-an-MRCA(two candidates)")
    may_raise = (min_span is not None and min_span < 0) or (max_time is not None and max_time < 0)
    raw = {}
    if within is not None:
        raw["within"] = within
    if between is not None:
        raw["between"] = between
    if min_span is not None:
        raw["min_span"] = min_span
    if max_time is not None:
        raw["max_time"] = max_time
    witness = {"model": witness_model(m), "args": {k: X.plain(v) for k, v in raw.items()}}
    ok_sets = []
    obs = []
    prev = None
    for sp, ss in STORE:
        kw = {}
        fm = []
        if within is not None:
            if forms:
                f, kw["within"] = X.id_container(rng, within)
                fm.append("within-as:" + f)
            else:
                kw["within"] = within
        if between is not None:
            if forms:
                f, kw["between"] = X.between_container(rng, between)
                fm.append("between-as:" + f)
            else:
                kw["between"] = between
        if min_span is not None:
            kw["min_span"] = X.num_form(rng, min_span) if forms else min_span
            fm.append("number-as:" + type(kw["min_span"]).__name__)
        if max_time is not None:
            kw["max_time"] = X.num_form(rng, max_time) if forms else max_time
            fm.append("number-as:" + type(kw["max_time"]).__name__)
        # exercise None, explicit False and the integers 0 / 1 alike
        if sp or rng.random() < 0.5:
            kw["store_pairs"] = sp if rng.random() < 0.85 else int(sp)
        if ss or rng.random() < 0.5:
            kw["store_segments"] = ss if rng.random() < 0.85 else int(ss)
        if rng.random() < 0.15:
            for k in ("within", "between", "min_span", "max_time", "store_pairs", "store_segments"):
                kw.setdefault(k, None)  # None is the documented default of every argument
            fm.append("explicit-None-defaults")
        route = ent.pick(rng)
        rawc = dict(raw, store_pairs=sp, store_segments=ss)
        how = f"route={route} forms={fm} store_pairs={kw.get('store_pairs', '<omitted>')!r} " \
              f"store_segments={kw.get('store_segments', '<omitted>')!r}"
        try:
            res = ent.call(route, kw, rawc)
        except Exception as e:
            ctx.count("ibd:call")
            if may_raise:
                ctx.feature("negative-filter:refused")
                return None
            report(ctx, "ibd/valid-call-raises", f"{type(e).__name__}: {e}; args={witness['args']} {how} "
                   f"model={witness['model']}", witness)
            return None
        ctx.count("ibd:call")
        ctx.feature("route:" + route)
        for f in fm:
            ctx.feature(f)
        if may_raise:
            ctx.feature("negative-filter:accepted")
        try:
            o = observe(ctx, res, sp, ss, witness, rng, sampled)
        except Exception as e:
            report(ctx, "ibd/documented-accessor-raises", f"{type(e).__name__}: {e} while reading the result of "
                   f"{how} args={witness['args']}; model={witness['model']}", witness)
            ok_sets.append(None)
            continue
        obs.append(o)
        diffs = [matches(o, c[2], sp, ss) for c in cands]
        ctx.count("oracle:segments-equal-reference" if ss else
                  ("oracle:pair-summaries-equal-reference" if sp else "oracle:totals-equal-reference"))
        ok = {i for i, d in enumerate(diffs) if d is None}
        ok_sets.append(ok)
        if not ok:
            k = "ibd/segments-differ-from-definition"
            if min_span is not None and max_time is None:
                k += "/min_span"
            elif max_time is not None and min_span is None:
                k += "/max_time"
            elif max_time is not None:
                k += "/min_span+max_time"
            others = "".join(f" ({c[0]}/{c[1]} reading: {d})" for c, d in zip(cands[1:], diffs[1:]) if d != diffs[0])
            report(ctx, k, f"{how} args={witness['args']}: {diffs[0]}{others}; model={witness['model']}", witness)
            continue
        ok_read = {lab[0] for i in ok for lab in cands[i][3]}
        if len(ok_read) == 1 and row is not link:
            ctx.feature("unsquashed-reading:" + min(ok_read))
        # no filters: disjoint and covering exactly where the pair has an MRCA
        if ss and min_span is None and max_time is None:
            ctx.count("oracle:disjoint-and-covering")
            for p, d in o["per"].items():
                segs = d.get("arrays", ())
                if any(s0[1] > s1[0] for s0, s1 in zip(segs, segs[1:])):
                    report(ctx, "ibd/overlapping-segments", f"pair {p}: {_short(segs)}; args={witness['args']} "
                           f"model={witness['model']}", witness)
        # an earlier result is a value: a later call on the same tables must not change it
        if prev is not None and rng.random() < 0.3:
            ctx.count("oracle:earlier-result-unchanged")
            pres, po = prev
            now = (int(pres.num_segments), float(pres.total_span))
            if now != (po["num_segments"], po["total_span"]):
                report(ctx, "ibd/earlier-result-changed-by-later-call", f"totals were "
                       f"{(po['num_segments'], po['total_span'])}, are {now} after {how}; args={witness['args']} "
                       f"model={witness['model']}", witness)
        prev = (res, o)
        if ss and not sampled and o["keys"]:
            r = rng.random()
            k0 = o["keys"][rng.randrange(len(o["keys"]))]
            if r < 0.08:
                # the same call again (another route): equal as mappings, list by list
                ctx.count("oracle:same-call-equal-result")
                try:
                    res2 = ent.call(ent.pick(rng), kw, rawc)
                    eq = (res == res2, res2 == res)
                    eq = (eq[0], k0 in res2 and res[k0] == res2[k0], eq[1])
                except Exception as e:
                    report(ctx, "ibd/documented-accessor-raises", f"{type(e).__name__}: {e} while comparing two "
                           f"results of {how} args={witness['args']}; model={witness['model']}", witness)
                else:
                    if eq != (True, True, True):
                        report(ctx, "ibd/same-call-unequal-results", f"(res == res2, res[{k0}] == res2[{k0}], "
                               f"res2 == res) = {eq} for {how} args={witness['args']}; "
                               f"model={witness['model']}", witness)
            elif r < 0.16:
                # a segment list outlives the result object it came from
                ctx.count("oracle:list-outlives-result")
                sl = res[k0]
                prev = None
                del res
                try:
                    got = (seg_tuples(sl)[0], len(sl), float(sl.total_span))
                except Exception as e:
                    report(ctx, "ibd/documented-accessor-raises", f"{type(e).__name__}: {e} reading a segment list "
                           f"after its result was dropped; {how} args={witness['args']}", witness)
                else:
                    d = o["per"][k0]
                    if got != (d["arrays"], d["n"], d["span"]):
                        report(ctx, "ibd/segment-list-changed-after-result-dropped", f"pair {k0}: {_short(got[0])}, "
                               f"{got[1:]} expected {_short(d['arrays'])}, {(d['n'], d['span'])}; {how} "
                               f"args={witness['args']} model={witness['model']}", witness)
    # consistency across store options: ONE reading (per-row / per-link, strict / inclusive) fits all four
    ctx.count("oracle:store-options-consistent")
    if len(ok_sets) == 4 and all(ok_sets):
        common = set.intersection(*ok_sets)
        if not common:
            report(ctx, "ibd/store-options-disagree", "no single reading fits all four store options: "
                   f"{[sorted(lab for i in s for lab in cands[i][3]) for s in ok_sets]} (order {STORE}); "
                   f"args={witness['args']} model={witness['model']}", witness)
        elif on_boundary:
            rules = {lab[1] for i in common for lab in cands[i][3]}
            ctx.feature("boundary:time==max_time " + ("kept (inclusive)" if rules == {"inclusive"} else
                                                     "dropped (strict)" if rules == {"strict"} else "undecided"))
        base = obs[0]
        for o, (sp, ss) in zip(obs[1:], STORE[1:]):
            if (o["num_segments"], o["total_span"]) != (base["num_segments"], base["total_span"]):
                report(ctx, "ibd/store-options-disagree", f"totals differ between store options: "
                       f"{(base['num_segments'], base['total_span'])} vs {(o['num_segments'], o['total_span'])} "
                       f"(store_pairs={sp}, store_segments={ss}); args={witness['args']} "
                       f"model={witness['model']}", witness)
        ps = [o for o in obs if "per" in o]
        a = {p: (d["n"], d["span"]) for p, d in ps[0]["per"].items()}
        for o in ps[1:]:
            b = {p: (d["n"], d["span"]) for p, d in o["per"].items()}
            if a != b:
                report(ctx, "ibd/store-options-disagree", f"per-pair summaries differ: {_short(sorted(a.items()))} vs "
                       f"{_short(sorted(b.items()))}; args={witness['args']} model={witness['model']}", witness)
        sa = {p: d["arrays"] for p, d in obs[2]["per"].items() if "arrays" in d}
        sb = {p: d["arrays"] for p, d in obs[3]["per"].items() if "arrays" in d}
        if any(sa[p] != sb[p] for p in sa if p in sb):
            report(ctx, "ibd/store-options-disagree", "segments differ between store_segments with and "
                   f"without store_pairs; args={witness['args']} model={witness['model']}", witness)
    return obs


# --------------------------------------------------------------------------- argument generators


def time_cuts(m):
    """Values strictly between distinct node times (and beyond both ends), non-negative."""
    ts_ = sorted({m.time(u) for u in range(m.num_nodes)})
    cuts = [(a + b) / 2 for a, b in zip(ts_, ts_[1:])]
    if ts_:
        cuts.append(ts_[-1] + 1.0)
        cuts.append(ts_[0] - 0.5)
    return [c for c in cuts if c >= 0 and c not in ts_]


def draw_sets(rng, m, maxn=None):
    """(within, between) as plain id lists: default / within any nodes / between partitions."""
    n = m.num_nodes
    r = rng.random()
    if r < 0.25 or n == 0:
        return None, None
    allnodes = list(range(n))
    if r < 0.6:
        k = rng.choice([0, 1, 2, 2, 3, 4, n, n, rng.randint(0, n), rng.randint(2, max(2, n))])
        ids = rng.sample(allnodes, min(k, n, maxn or n))
        if rng.random() < 0.3:
            ids = [u for u in ids if m.is_sample(u)] or ids
        if rng.random() < 0.15:
            ids = sorted(ids)  # the `range` and strided forms need an ordered list now and then
        if rng.random() < 0.05 and n >= 2:
            a = rng.randrange(n - 1)
            ids = list(range(a, rng.randint(a + 1, n)))
        return ids, None
    pool = rng.sample(allnodes, rng.randint(0, min(n, maxn or n)))
    r = rng.random()
    if r < 0.04:
        return None, []  # no sets at all: no pair is requested
    if r < 0.14:
        return None, [[u] for u in pool]  # one singleton set per node: every pair is requested
    if r < 0.22 and len(pool) >= 2:
        h = len(pool) // 2
        return None, [pool[:h], pool[h:2 * h]]  # equal sizes: also fed as ONE 2-d array
    nsets = rng.choice([1, 2, 2, 2, 3, 4, 7])
    sets = [[] for _ in range(nsets)]
    for u in pool:
        sets[rng.randrange(nsets)].append(u)
    if rng.random() < 0.1:
        sets = [[]] + sets + [[]]
    return None, sets


def draw_filters(ctx, rng, m, spans, mtimes, cuts):
    """(min_span, max_time): grids, EXACT spans / MRCA times and the doubles next to them, zero and negative
    zero, inf / DBL_MAX, now and then a negative value (EITHER: refused or as defined)."""
    L = m.L
    r = rng.random()
    if r < 0.25:
        ms = None
    elif r < 0.42 or not spans:
        ms = rng.choice([0, 0.0, -0.0, L, L / 2, L * 2, L / 16])
        ctx.feature("min_span:grid")
    elif r < 0.68:
        ms = rng.choice(spans)
        ctx.feature("min_span:exactly-a-segment-span")
    elif r < 0.80:
        s = rng.choice(spans)
        ms = rng.choice([X.next_up(s), X.next_down(s)])
        ctx.feature("min_span:next-double-to-a-span")
    elif r < 0.96:
        ms = rng.choice(spans[:3]) / 2
        ctx.feature("min_span:half-a-span")
    else:
        ms = rng.choice([-1.0, -0.5, -L])
        ctx.feature("min_span:negative")
    r = rng.random()
    if r < 0.34:
        mt = None
    elif r < 0.58 and cuts:
        mt = rng.choice(cuts)
        ctx.feature("max_time:between-node-times")
    elif r < 0.70 and mtimes:
        mt = rng.choice(mtimes)
        ctx.feature("max_time:exactly-an-MRCA-time")
    elif r < 0.82 and mtimes:
        t = rng.choice(mtimes)
        mt = rng.choice([X.next_up(t), X.next_down(t)])
        ctx.feature("max_time:next-double-to-an-MRCA-time")
    elif r < 0.89:
        mt = rng.choice([0, 0.0, -0.0])
        ctx.feature("max_time:zero")
    elif r < 0.96:
        mt = rng.choice([math.inf, X.DBL_MAX])
        ctx.feature("max_time:inf-or-DBL_MAX")
    else:
        mt = rng.choice([-1.0, -0.25])
        ctx.feature("max_time:negative")
    if ms is None and mt is None:
        ms = rng.choice(spans) if spans else 0.0
    if ms is not None:
        ctx.feature("min_span")
    if mt is not None:
        ctx.feature("max_time")
    return ms, mt


# --------------------------------------------------------------------------- case runners


def build_small(case):
    n = case["n"]
    pms = [parent_maps(n)[i] for i in case["pms"]]
    return n, pms


def small_model(n, pms, mask, squash):
    m = RowModel(float(len(pms)))
    m.nodes = [(NODE_IS_SAMPLE if (mask >> u) & 1 else 0, float(u), NULL, NULL, b"") for u in range(n)]
    edges = []
    for c in range(n):
        start = None
        for i in range(len(pms) + 1):
            p = pms[i][c] if i < len(pms) else NULL
            prev = pms[i - 1][c] if i > 0 else NULL
            if i > 0 and prev != NULL and (p != prev or not squash):
                edges.append((float(start), float(i), prev, c, b""))
                start = None
            if p != NULL and start is None:
                start = i
    m.edges = sorted(edges, key=lambda e: (m.time(e[2]), e[2], e[3], e[0]))
    return m


def objects(rng, m, fast=False, routes=None):
    tc = X.fast_tables(m) if fast else to_tables(m)
    ts = tc.tree_sequence()
    return Entry(ts, tc, routes)


def filter_inputs(m, link):
    spans = sorted({s[1] - s[0] for v in link.values() for s in v})
    mtimes = sorted({m.time(s[2]) for v in link.values() for s in v})
    return spans, mtimes


def run_model(ctx, rng, m, ncalls, maxn=None, small=False, wide=False):
    ent = objects(rng, m)
    refcache = {"unsquashed": has_unsquashed(m)}
    if refcache["unsquashed"]:
        ctx.feature("unsquashed-edges")
    cuts = time_cuts(m)
    for j in range(ncalls):
        if small and j == 0:
            within, between = list(range(m.num_nodes)), None
        elif small and j == 1:
            within, between = None, None
        elif wide:
            ids = rng.sample(range(m.num_nodes), rng.randint(64, min(maxn, m.num_nodes)))
            if rng.random() < 0.6:
                within, between = ids, None
            else:
                within, between = None, [ids[0::3], ids[1::3], ids[2::3]]
            ctx.feature("wide:>=64 requested nodes under one edge")
        else:
            within, between = draw_sets(rng, m, maxn)
        pairs = requested_pairs(m, within, between)
        ctx.feature("sets:" + ("between" if between is not None else "within" if within is not None else "default"))
        if between is not None:
            ctx.feature("between:%s sets" % (len(between) if len(between) < 5 else ">=5"))
        if any(forest_is_ancestor(m, a, b) for a, b in pairs[:30]):
            ctx.feature("ancestor-descendant-pair")
        # unfiltered call first, then filter grids on the same sets
        check_call(ctx, m, ent, within, between, None, None, rng, refcache)
        link = refcache[tuple(pairs) if len(pairs) < 3000 else ("many", len(pairs), hash(tuple(pairs)))][0]
        if not any(link.values()):
            ctx.feature("no-segments")
            if rng.random() < 0.7:
                continue
        spans, mtimes = filter_inputs(m, link)
        for _ in range(3 if small else 2):
            ms, mt = draw_filters(ctx, rng, m, spans, mtimes, cuts)
            check_call(ctx, m, ent, within, between, ms, mt, rng, refcache)


SET_INDEXES = [0, 1, 127, 128, 255, 256, 32767, 32768, 65535, 65536, 65537, 65536 + 127, 65536 + 255, 65536 + 256]


def run_manysets(ctx, rng):
    """A `between` partition with more than 2^16 sets (one singleton per node of a large node table): the nodes of a small
    embedded genealogy sit at set indexes around the 8/15/16-bit limits, in particular at 65535 and at pairs j, j + 65536.
    All other nodes are isolated, so the reference is the small model's."""
    n = rng.randint(3, 8)
    m = gen.gen_topology(rng, n=n, max_bp=rng.choice([0, 1, 3]), sample_mode=rng.choice(["all", "any", "young"]))
    ctx.sig(("manysets", m.signature()), nontrivial=len(m.edges) > 0)
    N = 65536 + 300 + rng.randrange(300)
    tc = to_tables(m)
    extra = N - m.num_nodes
    tc.nodes.append_columns(flags=np.zeros(extra, dtype=np.uint32), time=np.zeros(extra),
                            population=np.full(extra, -1, dtype=np.int32), individual=np.full(extra, -1, dtype=np.int32),
                            metadata=np.zeros(0, dtype=np.int8), metadata_offset=np.zeros(extra + 1, dtype=np.uint64))
    ts = tc.tree_sequence()
    # set index -> node of the small model; always 65535 and one pair (j, j + 65536)
    j = rng.choice([0, 1, 127, 255, 256])
    want = [65535, j, j + 65536] + rng.sample([x for x in SET_INDEXES if x not in (65535, j, j + 65536)], len(SET_INDEXES) - 3)
    small = list(range(m.num_nodes))
    rng.shuffle(small)
    place = dict(zip(want, small))
    rest = iter(range(m.num_nodes, N))
    form = rng.randrange(3)
    between = []
    for k in range(N):
        u = place[k] if k in place else next(rest)
        between.append([u] if form == 0 else (u,) if form == 1 else np.array([u], dtype=np.int32))
    ctx.count("manysets:calls")
    ctx.feature("manysets:>65536 singleton sets")
    refcache = {"unsquashed": has_unsquashed(m)}
    ent = Entry(ts, tc, routes=("ts", "tc", "ll-pos", "ll-kw"))
    check_call(ctx, m, ent, None, between, None, None, rng, refcache, forms=False)
    cuts = time_cuts(m)
    if cuts and rng.random() < 0.5:
        check_call(ctx, m, ent, None, between, None, rng.choice(cuts), rng, refcache, forms=False)
    # fewer sets than nodes: the same embedding with the isolated nodes grouped 3 by 3 (about 22000 sets)
    if rng.random() < 0.3:
        grouped, cur = [], []
        for k in range(N):
            u = int(between[k][0])
            if u < m.num_nodes:
                grouped.append([u])
            else:
                cur.append(u)
                if len(cur) == 3:
                    grouped.append(cur)
                    cur = []
        if cur:
            grouped.append(cur)
        ctx.feature("manysets:grouped")
        check_call(ctx, m, ent, None, grouped, None, None, rng, refcache, forms=False)


def wide_model(rng):
    """40-100 nodes under a two-node unary 'stem' so that one edge carries the ancestry of every
    requested node (the finder's segment queue starts with room for 63 segments), 1-3 intervals with
    partly different random recursive trees."""
    n = rng.randint(66, 100)
    k = rng.choice([1, 2, 3])
    m = RowModel(float(k))
    tmode = rng.choice(["id", "ties"])
    times = [float(u) if tmode == "id" else float(u // 4) for u in range(n)]
    top = times[-1] + 1.0
    times += [top, top + 1.0]
    smode = rng.choice(["all", "half", "young"])
    flags = []
    for u in range(n):
        s = smode == "all" or (smode == "half" and rng.random() < 0.5) or (smode == "young" and times[u] < 2)
        flags.append(NODE_IS_SAMPLE if s else 0)
    flags += [0, 0]
    m.nodes = [(flags[u], times[u], NULL, NULL, b"") for u in range(n + 2)]

    def older(u):
        c = [v for v in range(u + 1, n) if times[v] > times[u]]
        return rng.choice(c) if c and rng.random() < 0.9 else n

    par = [older(u) for u in range(n)]
    pms = []
    for i in range(k):
        if i > 0:
            par = list(par)
            for _ in range(rng.randint(1, 6)):
                u = rng.randrange(n)
                par[u] = older(u)
        pms.append(par + [n + 1, NULL])
    unsq = rng.random() < 0.2
    edges = []
    for c in range(n + 1):
        start = 0
        for i in range(1, k + 1):
            if i == k or pms[i][c] != pms[i - 1][c] or (unsq and rng.random() < 0.3):
                edges.append((float(start), float(i), pms[i - 1][c], c, b""))
                start = i
    m.edges = sorted(edges, key=lambda e: (m.time(e[2]), e[2], e[3], e[0]))
    return m


def forest_is_ancestor(m, a, b):
    for l, r, p, c, _ in m.edges:
        if (p == a and c == b) or (p == b and c == a):
            return True
    return False


def run_errors(ctx, rng, m):
    ent = objects(rng, m)
    ts, tc = ent.ts, ent.tc
    n = m.num_nodes
    if n < 2:
        return
    obj = rng.choice([ts, ts, tc])
    w = {"model": m.to_json()}
    ids = rng.sample(range(n), rng.randint(1, n))
    d = ids + [rng.choice(ids)]
    rng.shuffle(d)
    must_raise(ctx, lambda: obj.ibd_segments(within=d, store_segments=True), "ibd/duplicate-node-accepted",
               f"within={d} model={w['model']}", w)
    ctx.feature("error:duplicate-within")
    sets = [[], []]
    for u in ids:
        sets[rng.randrange(2)].append(u)
    dup = rng.choice(ids)
    sets[rng.randrange(2)].append(dup)
    must_raise(ctx, lambda: obj.ibd_segments(between=sets, store_pairs=True), "ibd/duplicate-node-accepted",
               f"between={sets} model={w['model']}", w)
    ctx.feature("error:duplicate-between")
    for o in (ts, tc):
        must_raise(ctx, lambda: o.ibd_segments(within=[0], between=[[0], [1]]), "ibd/within-and-between-accepted",
                   f"within=[0], between=[[0],[1]] model={w['model']}", w)
    ctx.feature("error:within-and-between")
    neg = ids[:2] + [-1]
    must_raise(ctx, lambda: obj.ibd_segments(within=neg), "ibd/negative-node-accepted",
               f"within={neg} model={w['model']}", w)
    must_raise(ctx, lambda: obj.ibd_segments(between=[ids[:1], [-1]]), "ibd/negative-node-accepted",
               f"between={[ids[:1], [-1]]} model={w['model']}", w)
    ctx.feature("error:negative-id")
    # ids that are not nodes: exactly num_nodes, beyond, INT32_MAX, and values a wrapping cast would turn into node 0 / n-1
    bad = rng.choice([n, n, n + 1, 2 ** 31 - 1, 2 ** 31, 2 ** 32, 2 ** 32 + n - 1, -2, -2 ** 31, -2 ** 32])
    others = [u for u in ids if u != 0 and u != n - 1][:2]
    lst = others + [bad]
    rng.shuffle(lst)
    form = rng.choice(["list", "int64", "tuple"])
    arg = lst if form == "list" else tuple(lst) if form == "tuple" else np.array(lst, dtype=np.int64)
    must_raise(ctx, lambda: obj.ibd_segments(within=arg, store_pairs=True), "ibd/out-of-range-node-accepted",
               f"within={lst} (as {form}), num_nodes={n} model={w['model']}", w)
    must_raise(ctx, lambda: obj.ibd_segments(between=[others, [bad]], store_segments=True),
               "ibd/out-of-range-node-accepted", f"between={[others, [bad]]}, num_nodes={n} model={w['model']}", w)
    ctx.feature("error:id-not-a-node:" + ("num_nodes" if bad == n else "other"))
    # the low-level module refuses set sizes that do not add up to the id array
    if len(ids) >= 2:
        sizes = [len(ids) - 1, rng.choice([0, 2, 3])]
        must_raise(ctx, lambda: tc._ll_tables.ibd_segments_between(np.array(sizes, dtype=np.uint64),
                                                                   np.array(ids, dtype=np.int32)),
                   "ibd/ll-set-sizes-not-matching-accepted", f"sample_set_sizes={sizes} for {len(ids)} ids", w)
        ctx.feature("error:ll-set-sizes")
    # a pair without segments is not a key; (a, a), ids that are not nodes and non-pairs are refused
    res = obj.ibd_segments(within=ids, store_segments=True)
    keys = {(int(a), int(b)) for a, b in res}
    for a, b in itertools.combinations(sorted(ids), 2):
        if (a, b) not in keys:
            ctx.count("oracle:absent-pair-keyerror")
            ctx.count("oracle:must-raise")
            try:
                r = res[(a, b)]
            except KeyError:
                pass
            except Exception as e:
                report(ctx, "ibd/absent-pair-not-keyerror", f"result[{(a, b)}] raised {type(e).__name__}: {e}; "
                       f"within={ids} model={w['model']}", w)
            else:
                report(ctx, "ibd/absent-pair-not-keyerror", f"result[{(a, b)}] returned {r!r} for a pair with no "
                       f"segments; within={ids} model={w['model']}", w)
            # Mapping protocol on an absent key: not contained, get() gives the default
            try:
                got = ((a, b) in res, (b, a) in res, res.get((a, b), "dflt"))
            except Exception as e:
                report(ctx, "ibd/absent-pair-not-keyerror", f"'in' / get() for absent {(a, b)} raised "
                       f"{type(e).__name__}: {e}; within={ids} model={w['model']}", w)
            else:
                if got != (False, False, "dflt"):
                    report(ctx, "ibd/absent-pair-not-keyerror", f"((a,b) in res, (b,a) in res, res.get((a,b), 'dflt')) = "
                           f"{got} for absent {(a, b)}; within={ids} model={w['model']}", w)
            break
    a = ids[0]
    for k in ((a, a), (a, n), (n, a), (-1, a), (a, 2 ** 31), (a,), (a, a + 1 if a + 1 < n else 0, a)):
        must_raise(ctx, lambda: res[k], "ibd/bad-key-accepted", f"result[{k}] with num_nodes={n}, within={ids} "
                   f"model={w['model']}", w)
    ctx.feature("error:bad-keys")


def run_boundary(ctx, rng, m):
    """max_time EXACTLY on the time of an MRCA (alone, and together with min_span exactly on a span): the result
    must be the strict or the inclusive reading (EITHER zone), one and the same under all four store options."""
    ent = objects(rng, m)
    refcache = {"unsquashed": has_unsquashed(m)}
    within, between = draw_sets(rng, m) if rng.random() < 0.6 else (None, None)
    pairs = requested_pairs(m, within, between)
    if not pairs or len(pairs) >= 3000:
        return
    check_call(ctx, m, ent, within, between, None, None, rng, refcache)
    link = refcache[tuple(pairs)][0]
    spans, mtimes = filter_inputs(m, link)
    mtimes = [t for t in mtimes if t >= 0]
    if not mtimes:
        return
    t = rng.choice(mtimes)
    ctx.count("boundary-calls(two-candidate gate)")
    check_call(ctx, m, ent, within, between, None, t, rng, refcache)
    check_call(ctx, m, ent, within, between, rng.choice(spans), t, rng, refcache)


EXT_MODES = ["high-top", "ladder", "bigstar-between", "high-slots", "deep", "manymrca", "high-mixed", None]
# the eighth slot carries the expensive instances (1.5 - 3.5 s each): each of them once per 80 cases, the first ones at
# k = 7, 15, 23 (within the first 50 rounds of the quick tier, i.e. also on a heavily loaded machine)
EXT_HEAVY = {7: "manymrca-65k", 15: "bigstar-within", 23: "manypairs-65k", 31: "ladder", 39: "deep",
             47: "bigstar-between", 55: "manymrca", 63: "high-top", 71: "high-slots", 79: "ladder"}


def ext_mode(k, tier):
    if tier == "thorough" and k % 400 == 39:
        return "queue-65k"
    return EXT_MODES[k % 8] or EXT_HEAVY[k % 80]


def cross_checked(m, pairs, per_row):
    """Both reference implementations (rebuilt map per interval / incrementally updated map) must agree;
    a disagreement is an error of this check, never a verdict."""
    a = ref_runs(m, pairs, per_row)
    b = X.ref_runs_sweep(m, pairs, per_row)
    if a != b:
        raise AssertionError("c19.ref_runs and c19_ext.ref_runs_sweep disagree")
    return a


def run_ext(ctx, rng, case):
    k = case["k"]
    mode = ext_mode(k, case["tier"])
    ctx.feature("ext:" + mode)
    ctx.count("ext:cases")
    if mode.startswith("high-"):
        m = gen.gen_topology(rng, n=rng.randint(3, 9), max_bp=rng.choice([0, 1, 3]),
                             sample_mode=rng.choice(["all", "any", "young"]), unsquashed=rng.random() < 0.2)
        N = rng.choice([46342, 46400, 65537, 65600, 70001, 100003]) + rng.randrange(50)
        tc, idmap = X.embed_tables(m, rng, N, mode[5:])
        ts = tc.tree_sequence()
        ctx.sig(("ext", mode, N, tuple(sorted(idmap.items())), m.signature()), nontrivial=len(m.edges) > 0)
        ent = Entry(ts, tc)
        refcache = {"unsquashed": has_unsquashed(m)}
        m.desc = {"small_model": m.to_json(), "embedded_in_num_nodes": N, "idmap(small->table)": idmap}
        cuts = time_cuts(m)
        hi = sorted(idmap.values())
        if hi[-1] * N + hi[-1] >= 2 ** 32:
            ctx.feature("ext:pair key a*N+b >= 2^32")
        elif hi[-1] * N >= 2 ** 31:
            ctx.feature("ext:pair key a*N+b >= 2^31")
        for j in range(3):
            if j == 0:
                rw, rb = None, None
            elif j == 1:
                rw, rb = list(range(m.num_nodes)), None
                rng.shuffle(rw)
            else:
                rw, rb = draw_sets(rng, m)
            within = None if rw is None else [idmap[u] for u in rw]
            between = None if rb is None else [[idmap[u] for u in s] for s in rb]
            check_call(ctx, m, ent, within, between, None, None, rng, refcache, ref_sets=(rw, rb), relabel=idmap)
            pairs = requested_pairs(m, rw, rb)
            spans, mtimes = filter_inputs(m, refcache[tuple(pairs)][0])
            if spans:
                ms, mt = draw_filters(ctx, rng, m, spans, mtimes, cuts)
                check_call(ctx, m, ent, within, between, ms, mt, rng, refcache, ref_sets=(rw, rb), relabel=idmap)
        return
    if mode == "ladder":
        kk = rng.choice([257, 300, 513])
        m = X.ladder_model(rng, kk, rng.choice(["low", "high"]))
        ctx.sig(("ext", mode, kk, m.desc["variant"]))
        ent = objects(rng, m, fast=True)
        refcache = {"unsquashed": has_unsquashed(m), "ref": cross_checked}
        ctx.count("ext:reference-cross-check")
        ctx.feature("ext:pair with > 255 segments")
        top = m.num_nodes - 1
        for within, between in ((None, None), ([0, 1], None), ([0, 3, top, 1], None), (None, [[0], [1, 2]])):
            check_call(ctx, m, ent, within, between, None, None, rng, refcache)
            ms = rng.choice([1, 1.0, X.next_down(1.0), X.next_up(1.0), 0.5, None])
            mt = rng.choice([None, 0.5, 1.5, 2.5, 1.0, 2.0])
            if ms is not None or mt is not None:
                check_call(ctx, m, ent, within, between, ms, mt, rng, refcache)
        return
    if mode in ("manymrca", "manymrca-65k"):
        kk = rng.choice([256, 257, 300]) if mode == "manymrca" else 65536 + rng.randrange(1, 400)
        m = X.manymrca_model(rng, kk, third=True)
        ctx.sig(("ext", mode, kk))
        ent = objects(rng, m, fast=True, routes=None if kk < 1000 else ("ts", "tc", "ll-pos", "ll-kw", "ll-defaults"))
        refcache = {"unsquashed": has_unsquashed(m), "ref": cross_checked if kk < 1000 else X.ref_runs_sweep}
        ctx.feature("ext:pair with > 65535 segments" if kk > 65535 else "ext:pair with > 255 segments")
        check_call(ctx, m, ent, None, None, None, None, rng, refcache)
        check_call(ctx, m, ent, [1, 0] if rng.random() < 0.5 else None, None,
                   rng.choice([None, 1, X.next_down(1.0), 0.5]), rng.choice([1.5, 3.5, 4.0, 7.0, 7.5]), rng, refcache)
        return
    if mode in ("bigstar-between", "bigstar-within", "manypairs-65k"):
        if mode == "bigstar-between":
            kk = rng.choice([130, 260, 260, 300, 300, 520, 520, 1030])
        elif mode == "bigstar-within":
            kk = rng.choice([258, 270, 300])
        else:
            kk = rng.choice([366, 380, 420])
        m = X.star_stem_model(rng, kk, stem=rng.choice([1, 2, 3]), side=3, two=rng.random() < 0.5,
                              sample_leaves=rng.random() < 0.7)
        lay = m.layout
        ctx.sig(("ext", mode, tuple(sorted(m.desc.items(), key=str))))
        ent = objects(rng, m, fast=True)
        refcache = {"unsquashed": has_unsquashed(m)}
        ctx.feature("ext:segment queue grows to > %d" % (128 if kk < 256 else 256 if kk < 512 else 512 if kk < 1024 else 1024))
        if mode == "bigstar-between":
            leaves = list(lay["leaves"])
            rng.shuffle(leaves)
            for between in ([leaves, lay["sides"]], [leaves + [lay["hub"]], [lay["top"]], lay["sides"][:1]],
                            [leaves[:kk - 2], lay["sides"], leaves[kk - 2:] + [lay["stems"][0]]])[:rng.choice([2, 3])]:
                check_call(ctx, m, ent, None, between, None, None, rng, refcache)
                check_call(ctx, m, ent, None, between, rng.choice([None, 1, 1.0, 0.5, 2, X.next_down(1.0)]),
                           rng.choice([None, 1.5, 2.5, 2.0, 100.0]), rng, refcache)
            return
        within = lay["leaves"] + lay["sides"] + ([lay["hub"]] if rng.random() < 0.5 else [])
        rng.shuffle(within)
        npairs = len(within) * (len(within) - 1) // 2
        ctx.feature("ext:> 65535 pairs in one result" if npairs > 65535 else "ext:> 30000 pairs in one result")
        if m.desc["sample_leaves"] and rng.random() < 0.5:
            within = None  # the default: all samples = leaves + sides
        check_call(ctx, m, ent, within, None, None, None, rng, refcache, sampled=True)
        if mode == "bigstar-within":
            check_call(ctx, m, ent, within, None, rng.choice([None, 1, 1.0, 0.5]), rng.choice([1.5, 1.0, 2.0, 2.5]),
                       rng, refcache, sampled=True)
        return
    if mode == "deep":
        depth = rng.choice([300, 1000, 1000, 1500])
        m = X.deep_chain_model(rng, depth, rng.choice([1, 2, 3]))
        ctx.sig(("ext", mode, tuple(m.edges[-8:]), depth))
        ent = objects(rng, m, fast=True)
        refcache = {"unsquashed": has_unsquashed(m), "ref": cross_checked}
        ctx.count("ext:reference-cross-check")
        ctx.feature("ext:chain of >= %d unary links" % (1000 if depth >= 1000 else 300))
        if refcache["unsquashed"]:
            # the bottom sample re-attached to the SAME chain node in adjacent intervals: adjacent edge rows with equal
            # parent and child, i.e. the documented per-link / per-row EITHER zone applies here as in every other family
            ctx.feature("ext:deep chain with unsquashed bottom edges")
        lay = m.layout
        picks = [0, lay["top"], depth // 2] + lay["sides"]
        for within, between in ((None, None), (picks, None), (None, [[0, lay["sides"][0]], [lay["top"], 1],
                                                                      lay["sides"][1:]])):
            check_call(ctx, m, ent, within, between, None, None, rng, refcache)
        check_call(ctx, m, ent, picks, None, rng.choice([None, 1, 0.5]), rng.choice([depth / 2 + 0.5, float(depth), 1.5]),
                   rng, refcache)
        return
    if mode == "queue-65k":
        # thorough tier only: > 65535 segments queued under ONE edge (about 2 * 10^9 cheap comparisons in the C code);
        # expectation by construction: every leaf shares the whole genome with the side sample, MRCA = top
        kk = 65536 + rng.randrange(1, 200)
        m = X.star_stem_model(rng, kk, stem=1, side=1, two=False, sample_leaves=False)
        lay = m.layout
        ctx.sig(("ext", mode, kk))
        tc = X.fast_tables(m)
        res = tc.ibd_segments(between=[np.array(lay["leaves"], dtype=np.int32), lay["sides"]], store_pairs=True)
        ctx.count("oracle:pair-summaries-equal-reference")
        got = (int(res.num_segments), float(res.total_span), int(res.num_pairs))
        side = lay["sides"][0]
        sl = res[(kk - 1, side)]
        if got != (kk, float(kk), kk) or (len(sl), float(sl.total_span)) != (1, 1.0):
            report(ctx, "ibd/segments-differ-from-definition", f"star of {kk} leaves under a unary stem, between="
                   f"[leaves, [{side}]]: (num_segments, total_span, num_pairs)={got} expected {(kk, float(kk), kk)}; "
                   f"pair {(kk - 1, side)}: {(len(sl), float(sl.total_span))} expected (1, 1.0)", {"model": m.desc})
        return
    raise AssertionError(mode)


def run_case(case, ctx):
    rng = case_rng(case)
    g = case["gen"]
    if g == "small":
        n, pms = build_small(case)
        mask = rng.randrange(1 << n) if rng.random() < 0.7 else (1 << n) - 1
        squash = rng.random() < 0.7
        m = small_model(n, pms, mask, squash)
        ctx.sig(("small", n, tuple(case["pms"]), squash), nontrivial=len(m.edges) > 0)
        ctx.count("exhaustive-small-forests")
        run_model(ctx, rng, m, 3, small=True)
        return
    if g == "manysets":
        run_manysets(ctx, rng)
        return
    if g == "ext":
        run_ext(ctx, rng, case)
        return
    if g == "wide":
        m = wide_model(rng)
        ctx.sig(("wide", m.signature()), nontrivial=len(m.edges) > 0)
        ctx.feature("wide")
        run_model(ctx, rng, m, 1, maxn=90, wide=True)
        return
    big = rng.random() < 0.15
    if rng.random() < 0.1:
        m = gen.gen_full(rng, max_nodes=10, max_bp=5)
    else:
        m = gen.gen_topology(rng, n=rng.randint(2, 20 if big else rng.choice([4, 6, 9, 12])),
                             max_bp=10 if big else rng.choice([1, 3, 6]),
                             unsquashed=rng.random() < 0.3,
                             sample_mode=rng.choice(["young"] * 4 + ["any"] * 4 + ["all"] * 3 + ["few"] * 2 + ["none"]))
    if g == "walk" and case["k"] % 10 == 3:
        # coordinates that need more than 24 significant bits (an exact rescaling of the whole genome)
        st = case["k"] % 20 == 3
        m = X.scaled_copy(m, 2 ** 26 + 1, times=st)
        ctx.feature("scaled-coordinates(> 24 significant bits)" + (" and times" if st else ""))
    for t in gen.topo_tags(m):
        ctx.feature(t)
    if g == "errors":
        ctx.sig(("errors", m.signature()), nontrivial=m.num_nodes >= 2)
        run_errors(ctx, rng, m)
        return
    if g == "boundary":
        ctx.sig(("boundary", m.signature()), nontrivial=len(m.edges) > 0)
        run_boundary(ctx, rng, m)
        return
    ctx.sig(m.signature(), nontrivial=len(m.edges) > 0)
    if case["k"] < 2:
        ctx.sample({"case": case, "model": m.to_json()})
    run_model(ctx, rng, m, 3)
