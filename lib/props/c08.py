"""C08 - statistics equal their definitions, are additive over windows, and threaded results equal the
single-threaded ones.

Every case builds a small generated tree sequence (dyadic coordinates/times), a pure-Python reference
(lib/props/c08_ref.py) and compares families of statistic calls of the real code against
  (1) the documented summary-function engine evaluated naively,
  (2) first-principles tuple/pair/MRCA definitions,
  (3) window-refinement laws,
  (4) threaded executions (num_threads fan-out, concurrent Python threads, ThreadSanitizer build).
Audit families (lib/props/c08_wide.py, gap list in lib/props/AUDIT-C08.md): "forms" (other argument forms, defaults
left out, positional arguments, deprecated aliases), "big" (> 256 windows / columns / samples / children, one sample),
"coal" (pair coalescence quantiles and rates, time windows starting at the sample time).

Mechanism keys of the genuine defects this check found on the pinned tree (fixes/ has one patch each):
  afs/branch/stale-last-update                         D16  branch AFS flushes a node that regains a parent over
                                                            its whole parentless stretch (also refinement/allele_frequency_spectrum)
  genetic_relatedness/proportion-denominator-reshape   DNEW genetic_relatedness(proportion=True) with a single
                                                            index tuple and > 1 window (or node mode) raises ValueError
  genetic_relatedness_vector/span-normalise-ignored    DNEW span_normalise has no effect (also refinement/genetic_relatedness_vector)
  pair_coalescence_counts/missing-span-normalisation   DNEW a window boundary inside an edgeless tree makes the
                                                            non-missing span too small (sign error)
  LdCalculator/r2/stale-tracked-count-after-seek       D13  (owned by C06) seen through LdCalculator.r2

EITHER zones (what the documentation leaves open; the oracle accepts both):
  E1  "empty" windows (docs/stats.md: do not rely on 0 versus nan): when a statistic's summary function is
      nan for every argument (diversity of a singleton, Y1 of < 3 samples, f2/f3 with a singleton first
      set ...) a window in which no allele/branch enters the sum may be 0 or nan.
  E2  folded joint AFS: only "lower triangular in a similar way" is documented, so for >= 2 sample sets a
      value may sit in a cell or in its complementary cell (sum of the two compared; cells whose
      coordinate sum exceeds half the total must be empty).  The 1-D fold is documented and strict.
  E3  windows="sites": the first window starts at 0 (docs' literal list would start at the first site).
  E4  mean_descendants: the docstring normalises by the span over which the node is ancestral to any
      *sample*; the code by the span over which it is ancestral to any *reference* node.  Both accepted
      when the two differ.
  E5  divergence_matrix diagonal of a singleton set (undocumented): 0 or nan.
  E6  ill-conditioned ratios (Tajimas_D, Fst, genetic_relatedness(proportion=True), trait_correlation,
      trait_linear_model): compared only when the reference denominator is > 1e-6 in magnitude.  Narrowed (audit):
      in site and node mode a denominator that is EXACTLY zero / nan in the reference (sums of non-negative terms
      that are all zero) must give nan (Tajimas_D, Fst) or nan/inf (proportion).  Not in branch mode, where the
      running sums of the incremental algorithm keep a rounding residue in stretches without branches (the real
      code returns e.g. Fst = 1.0 or Tajimas_D = inf there).
  E10 genetic_relatedness_weighted: the docstring says polarised "Defaults to True", the signature says False; the
      default of that parameter is not asserted (lib/props/c08_wide.py passes it explicitly).
  E11 pair_coalescence_quantiles: a quantile within 1e-12 of a step of the empirical cdf may resolve to either
      neighbouring time, unless every operation on that step is exact in binary64 (then the inverted-cdf value is
      demanded); quantile 0 is not generated; windows in which no pair coalesces are not compared.
  E7  errors: which exception type is raised for an invalid argument is not checked, only that one is.
  E9  kc_distance with internal samples: the contribution of a pair (internal sample, descendant) is not
      documented; KC distances are checked on trees whose samples are all tips (rf_distance on all).
  E8  pair_coalescence_counts: whether a pair of samples one of which is an ancestor of the other
      "coalesces" (in the ancestor) is not documented; counted or not counted are both accepted (the whole
      result must follow one convention).
"""
import itertools
import math
import os

import numpy as np
import tskit

from lib import gen
from lib.harness import case_rng
from lib.model import NODE_IS_SAMPLE, NULL, RowModel
from lib.props import c08_ref as R
from lib.tsk import to_ts

ID = "C08"

RTOL = 1e-9
ATOL = 1e-12

# "forms" (argument forms / defaults / aliases), "coal" (pair coalescence quantiles, rates, time-window boundaries) and
# "big" (> 256 windows / columns / samples / children, one sample) are the audit families of lib/props/c08_wide.py;
# together they cost about a tenth of one rotation
FAMILIES = ["general", "named", "afs", "forms", "matrix", "trait", "topo", "ld", "coal", "meta", "threads", "named",
            "forms", "dist", "big"]


def cases(tier, seed):
    n = 6000 if tier == "quick" else 600000
    yield {"fam": "d16-witness", "k": 0}
    tsan_every = 90 if tier == "quick" else 220
    for k in range(n):
        yield {"fam": FAMILIES[k % len(FAMILIES)], "k": k // len(FAMILIES)}
        if k % tsan_every == 7:
            yield {"fam": "tsan", "k": k // tsan_every}
        if k % 40 == 11:
            yield {"fam": "msprime", "k": k // 40}


# ---------------------------------------------------------------------------------------- inputs


def gen_model(rng, min_samples=2, max_nodes=9, max_bp=5, max_sites=6, simple_alleles=False):
    """gen_full instance with at least `min_samples` samples (stats need samples)."""
    for attempt in range(20):
        kw = {}
        r = rng.random()
        if r < 0.35:
            kw["gaps"] = True
        if attempt > 3:
            kw["sample_mode"] = "all"
        m = gen.gen_full(rng, max_nodes=max_nodes, max_bp=max_bp, max_sites=max_sites, meta=False,
                         pops=False, n=rng.randint(max(2, min_samples), max_nodes), **kw)
        if len(m.samples()) >= min_samples:
            return m
    raise RuntimeError("generator failed to produce samples")


def model_tags(m, ref):
    """Feature tags required by the design: gaps, isolated stretches, nodes that lose and regain a parent."""
    tags = set(gen.topo_tags(m))
    has_parent = [[u in t.fr.parent for t in ref.trees] for u in range(ref.N)]
    for u in range(ref.N):
        seq = has_parent[u]
        # parent, then none, then parent again (or none then parent after having had one)
        seen_parent = False
        lost = False
        for hp in seq:
            if hp and lost:
                tags.add("regain-parent")
            if hp:
                seen_parent = True
            elif seen_parent:
                lost = True
        if (not seq[0]) and any(seq):
            tags.add("parentless-then-parent")
    for s in ref.sites:
        if len(s["alleles"]) > 2:
            tags.add("multiallelic-site")
        if s["nmut"] > 1:
            tags.add("recurrent-site")
    return tags


def rand_windows(rng, ref, allow_special=True):
    """None | 'trees' | 'sites' | explicit lists (cutting trees, equal to breakpoints, single tree, at sites)."""
    L = ref.L
    r = rng.random()
    if allow_special:
        if r < 0.12:
            return None
        if r < 0.22:
            return "trees"
        if r < 0.30:
            return "sites"
    kind = rng.choice(["grid", "grid", "bps", "sites", "mixed", "one", "fine"])
    grid = [k * L / 32 for k in range(1, 32)]
    inner_bps = ref.bps[1:-1]
    spos = [s["pos"] for s in ref.sites if 0 < s["pos"] < L]
    if kind == "grid":
        pts = rng.sample(grid, rng.randint(0, 4))
    elif kind == "bps":
        pts = rng.sample(inner_bps, rng.randint(0, len(inner_bps))) if inner_bps else []
    elif kind == "sites":
        pts = rng.sample(spos, rng.randint(0, len(spos))) if spos else []
    elif kind == "mixed":
        pool = grid + inner_bps + spos
        pts = rng.sample(pool, rng.randint(1, min(6, len(pool))))
    elif kind == "one":
        pts = []
    else:
        pts = [k * L / 64 for k in rng.sample(range(1, 64), rng.randint(4, 10))]
    return sorted(set([0.0, L] + pts))


def rand_sample_sets(rng, samples, k=None, disjoint=False, max_size=None):
    """Sample sets: overlapping / singleton / all / unequal sizes (no repeats inside a set)."""
    n = len(samples)
    if k is None:
        k = rng.choice([1, 1, 2, 2, 3, 4])
    sets = []
    if disjoint:
        k = min(k, n)
        perm = list(samples)
        rng.shuffle(perm)
        cuts = sorted(rng.sample(range(1, n), k - 1)) if k > 1 else []
        parts = [perm[a:b] for a, b in zip([0] + cuts, cuts + [n])]
        for p in parts:
            if max_size:
                p = p[:max_size]
            if rng.random() < 0.3 and len(p) > 1:
                p = p[:rng.randint(1, len(p))]
            sets.append(p)
        return sets
    for _ in range(k):
        r = rng.random()
        if r < 0.2:
            s = list(samples)
        elif r < 0.4:
            s = [rng.choice(samples)]
        else:
            s = rng.sample(samples, rng.randint(1, n))
        if max_size:
            s = s[:max_size]
        if rng.random() < 0.5:
            s = sorted(s)
        sets.append(s)
    return sets


def rand_indexes(rng, ns, k, maxn=8):
    alltup = list(itertools.product(range(ns), repeat=k))
    if len(alltup) <= maxn:
        rng.shuffle(alltup)
        return alltup
    return rng.sample(alltup, maxn)


def rand_weights(rng, n, k, kind=None):
    """Small dyadic/integer weights (exact sums)."""
    kind = kind or rng.choice(["int", "dyadic", "signed", "sparse"])
    W = np.zeros((n, k))
    for i in range(n):
        for j in range(k):
            if kind == "int":
                W[i, j] = rng.randint(0, 3)
            elif kind == "dyadic":
                W[i, j] = rng.randint(0, 16) / 8
            elif kind == "signed":
                W[i, j] = rng.randint(-8, 8) / 4
            else:
                W[i, j] = rng.choice([0, 0, 0, 1, 2.5])
    return W


# ---------------------------------------------------------------------------------------- comparison


def _fmt(a):
    return np.array2string(np.asarray(a), precision=12, threshold=600, max_line_width=200)


def mismatch(got, exp, tol):
    """Index of the first entry where got differs from exp beyond tol (nan/inf patterns exact), or None."""
    got = np.asarray(got, dtype=float)
    exp = np.asarray(exp, dtype=float)
    tol = np.broadcast_to(np.asarray(tol, dtype=float), exp.shape)
    if got.shape != exp.shape:
        return "shape"
    with np.errstate(all="ignore"):
        gn, en = np.isnan(got), np.isnan(exp)
        bad = gn != en
        gi, ei = np.isinf(got), np.isinf(exp)
        bad |= (gi | ei) & ~(got == exp) & ~(gn | en)
        fin = ~(gn | en | gi | ei)
        diff = np.where(fin, np.abs(np.where(fin, got, 0) - np.where(fin, exp, 0)), 0)
        bad |= fin & (diff > tol)
    if bad.any():
        return tuple(int(x) for x in np.argwhere(bad)[0])
    return None


class Case:
    """One generated input with its tree sequence and reference."""

    def __init__(self, m, ctx):
        self.m = m
        self.ctx = ctx
        self.ts = to_ts(m)
        self.ref = R.Ref(m)
        self.tags = model_tags(m, self.ref)
        for t in self.tags:
            ctx.feature(t)

    def detail(self):
        return {"model": self.m.to_json()}

    def check(self, monitor, key, got, exp, tol, what):
        """Count one oracle evaluation and record a violation on mismatch."""
        self.ctx.count(monitor)
        bad = mismatch(got, exp, tol)
        if bad is not None:
            self.ctx.violation(key, f"{what}: got {_fmt(got)} expected {_fmt(exp)} (first mismatch at {bad})",
                               self.detail())
            return False
        return True


def tol_from(mag, peak=None, span=None):
    t = RTOL * np.asarray(mag) + ATOL
    if peak is not None:
        t = t + 1e-10 * np.asarray(peak) * (1.0 if span is None else span)
    return t


def call(ctx, fn, *a, **kw):
    """Call the real code; returns (ok, value-or-exception)."""
    try:
        with np.errstate(all="ignore"):
            return True, fn(*a, **kw)
    except Exception as e:  # decided by the caller
        return False, e


def unexpected_error(cs, key, what, exc):
    cs.ctx.violation(key + "/unexpected-error", f"{what} raised {type(exc).__name__}: {exc}", cs.detail())


# ---------------------------------------------------------------------------------------- family: general


def poly_f(rng, k, d):
    """Random polynomial summary function with small dyadic coefficients; returns (f, strict_ok_for)"""
    terms = []
    for _ in range(d):
        mon = []
        for _ in range(rng.randint(1, 3)):
            mon.append((rng.randint(-4, 4) / 2, [rng.randint(0, 2) for _ in range(k)]))
        terms.append((rng.randint(-2, 2) / 2 if rng.random() < 0.3 else 0.0, mon))

    def f(x):
        out = []
        for c0, mon in terms:
            v = c0
            for c, pw in mon:
                t = c
                for xi, p in zip(x, pw):
                    t = t * xi ** p
                v += t
            out.append(v)
        return np.array(out, dtype=float)

    return f


def strictify(f, total):
    """g(x) = f(x) * prod-free correction so that g(0) = g(total) = 0 exactly: subtract the linear
    interpolation between f(0) and f(total) along the first coordinate with non-zero total."""
    total = np.asarray(total, dtype=float)
    f0 = f(total * 0.0)
    f1 = f(total)
    nz = [i for i, t in enumerate(total) if t != 0]
    if not nz:
        return None
    i = nz[0]

    def g(x):
        lam = x[i] / total[i]
        return f(x) - f0 - lam * (f1 - f0)

    return g


def negative_arguments(cs, rng):
    """Documented preconditions: sample sets hold sample nodes only; windows are increasing, start at 0 and
    end at the sequence length.  A value returned for such arguments has no definition (E7: any exception)."""
    ts, ref, ctx = cs.ts, cs.ref, cs.ctx
    L = ref.L
    nons = [u for u in range(ref.N) if u not in ref.sidx]
    mode = rng.choice(["site", "branch", "node"])
    trials = []
    if nons:
        bad = [rng.choice(nons)] + rng.sample(ref.samples, rng.randint(0, min(2, ref.n)))
        rng.shuffle(bad)
        trials.append(("non-sample-node", f"diversity(sample_sets=[{bad}], mode={mode})",
                       lambda: ts.diversity([bad], mode=mode)))
        trials.append(("non-sample-node", f"divergence(sample_sets=[{bad}, {ref.samples[:1]}], mode={mode})",
                       lambda: ts.divergence([bad, ref.samples[:1]], mode=mode)))
        trials.append(("non-sample-node", f"allele_frequency_spectrum(sample_sets=[{bad}])",
                       lambda: ts.allele_frequency_spectrum([bad])))
        trials.append(("non-sample-node", f"divergence_matrix(sample_sets=[{bad}])",
                       lambda: ts.divergence_matrix([bad])))
    for w in ([L / 4, L], [0.0, L / 2], [0.0, L / 2, L / 4, L], [0.0, L / 2, L / 2, L], [0.0, L, 2 * L], [0.0]):
        trials.append(("bad-windows", f"diversity(windows={w}, mode={mode})",
                       lambda w=w: ts.diversity(windows=w, mode=mode)))
    # documented (docs/stats.md, multi-way methods): index tuples hold integers between 0 and len(sample_sets) - 1;
    # indexes=None needs exactly k sample sets
    ns = rng.randint(2, 3)
    isets = rand_sample_sets(rng, ref.samples, k=ns)
    stat2 = rng.choice(["divergence", "Y2", "f2", "Fst", "genetic_relatedness"])
    for bad_idx in ([(0, ns)], [(ns, 0)], [(0, 1), (1, ns + 5)], [(-1, 0)], (0, ns)):
        trials.append(("index-out-of-range", f"{stat2}(sample_sets={isets}, indexes={bad_idx}, mode={mode})",
                       lambda bad_idx=bad_idx: getattr(ts, stat2)(isets, indexes=bad_idx, mode=mode)))
    stat3 = rng.choice(["Y3", "f3", "f4"]) if ns == 2 else "f4"
    trials.append(("default-indexes-with-wrong-number-of-sets",
                   f"{stat3}(sample_sets={isets}, indexes=None, mode={mode})",
                   lambda: getattr(ts, stat3)(isets, mode=mode)))
    if ns == 3:
        trials.append(("default-indexes-with-wrong-number-of-sets",
                       f"{stat2}(sample_sets={isets}, indexes=None, mode={mode})",
                       lambda: getattr(ts, stat2)(isets, mode=mode)))
    name, what, thunk = rng.choice(trials)
    ok, got = call(ctx, thunk)
    ctx.count("negative-arguments")
    ctx.feature(f"negative:{name}")
    if ok:
        ctx.violation(f"arguments/{name}-accepted", f"{what} returned {_fmt(got)} instead of raising", cs.detail())


def fam_general(cs, rng):
    ts, ref, ctx = cs.ts, cs.ref, cs.ctx
    n = ref.n
    negative_arguments(cs, rng)
    for rep in range(4):
        mode = rng.choice(["site", "branch", "node"])
        polarised = rng.random() < 0.5
        span_normalise = rng.random() < 0.5
        windows = rand_windows(rng, ref)
        use_counts = rng.random() < 0.4
        d = rng.randint(1, 3)
        if use_counts:
            sets = rand_sample_sets(rng, ref.samples)
            W = ref.indicator_weights(sets)
            k = len(sets)
        else:
            k = rng.randint(1, 3)
            W = rand_weights(rng, n, k)
        kind = rng.choice(["poly", "poly", "indicator", "const-tail"])
        if kind == "const-tail":
            # f(0) is zero in its FIRST component only: the later outputs are constants (so every branch, also one above a
            # node without samples below it, contributes constant x length x span), the first is linear
            d = rng.randint(2, 3)
            consts = [rng.choice([1.0, 0.5, -2.0, 3.0]) for _ in range(d - 1)]
            a = rng.choice([1.0, -1.0, 0.5])
            mode = rng.choice(["branch", "branch", "branch", "site", "node"])
            polarised = rng.random() < 0.7

            def f(x, consts=consts, a=a):
                return np.array([a * x[0]] + consts)
            ctx.feature(f"general:f(0)-zero-in-first-output-only:{mode}")
        elif kind == "poly":
            f = poly_f(rng, k, d)
        else:
            thr = [rng.randint(0, 2) for _ in range(k)]
            d = 2

            def f(x, thr=thr):
                return np.array([float(all(xi >= t for xi, t in zip(x, thr))), float(sum(x) == sum(thr))])
        total = W.sum(axis=0)
        strict = rng.random() < (0.15 if kind == "const-tail" else 0.5)
        zero_ok = bool(np.allclose(f(total * 0.0), 0) and np.allclose(f(total), 0))
        if strict and not zero_ok and rng.random() < 0.85:
            g = strictify(f, total) if kind == "poly" else None
            if g is not None:
                f = g
                zero_ok = bool(np.allclose(f(total * 0.0), 0) and np.allclose(f(total), 0))
            else:
                strict = False
        what = (f"{'sample_count_stat' if use_counts else 'general_stat'}(mode={mode}, polarised={polarised}, "
                f"span_normalise={span_normalise}, strict={strict}, windows={windows}, W={W.tolist()})")
        if use_counts:
            ok, got = call(ctx, ts.sample_count_stat, sets, f, d, windows=windows, polarised=polarised, mode=mode,
                           span_normalise=span_normalise, strict=strict)
        else:
            ok, got = call(ctx, ts.general_stat, W, f, d, windows=windows, polarised=polarised, mode=mode,
                           span_normalise=span_normalise, strict=strict)
        if strict and not zero_ok:
            # documented: strict=True "throws an error" when f(0) or f(total) is non-zero
            ctx.count("general:strict-rejects")
            if ok:
                ctx.violation("general/strict-not-enforced", f"{what} accepted f with f(0)={f(total*0)} f(total)={f(total)}",
                              cs.detail())
            elif not isinstance(got, ValueError):
                unexpected_error(cs, "general/strict", what, got)
            continue
        if not ok:
            unexpected_error(cs, "general", what, got)
            continue
        exp, mag, nterms = ref.general(W, f, windows, mode, polarised, span_normalise)
        if windows is None:
            exp, mag = exp[0], mag[0]
        peak = float(np.max(mag)) if mag.size else 0.0
        ctx.feature(f"general:{mode}")
        ctx.feature("general:windows=" + (windows if isinstance(windows, str) else "None" if windows is None else "list"))
        cs.check(f"general:{mode}", f"general-stat/{mode}/{'polarised' if polarised else 'unpolarised'}",
                 got, exp, tol_from(mag, peak), what)


# ---------------------------------------------------------------------------------------- family: named


def apply_e1(got, exp, nterms, degenerate_cols, node_mode):
    """EITHER E1: degenerate (always-nan) statistic in a window where nothing enters the sum."""
    got = np.asarray(got, dtype=float)
    exp = np.array(exp, dtype=float)
    if node_mode or got.shape != exp.shape:
        return exp
    for w, nt in enumerate(nterms):
        if nt == 0:
            for c in degenerate_cols:
                if np.isnan(got[w, c]) or got[w, c] == 0:
                    exp[w, c] = got[w, c]
    return exp


def drop_dims(a, drop_windows, drop_last):
    if drop_last:
        a = a.reshape(a.shape[:-1])
    if drop_windows:
        a = a[0]
    return a


def tuples_for(stat, sets, idx):
    """Sample tuples the docstrings average over, and the predicate on carry/below flags."""
    S = [sets[i] for i in idx]
    if stat in ("diversity", "divergence"):
        if stat == "diversity" or idx[0] == idx[1]:
            A = sets[idx[0]]
            tup = [(1.0, p) for p in itertools.permutations(A, 2)]
        else:
            tup = [(1.0, p) for p in itertools.product(S[0], S[1])]
        return tup, (lambda f: 1.0 if (f[0] and not f[1]) else 0.0)
    if stat == "Y3":
        return [(1.0, p) for p in itertools.product(*S)], (lambda f: 1.0 if (f[0] and not f[1] and not f[2]) else 0.0)
    if stat == "Y2":
        tup = [(1.0, (a, b1, b2)) for a in S[0] for b1, b2 in itertools.permutations(S[1], 2)]
        return tup, (lambda f: 1.0 if (f[0] and not f[1] and not f[2]) else 0.0)
    if stat == "Y1":
        return [(1.0, p) for p in itertools.permutations(S[0], 3)], \
            (lambda f: 1.0 if (f[0] and not f[1] and not f[2]) else 0.0)

    def f4pred(f):  # (a, b; c, d)
        return (1.0 if (f[0] and f[2] and not f[1] and not f[3]) else 0.0) - \
            (1.0 if (f[0] and f[3] and not f[1] and not f[2]) else 0.0)
    if stat == "f4":
        return [(1.0, p) for p in itertools.product(*S)], f4pred
    if stat == "f3":  # (a1, b; a2, c)
        tup = [(1.0, (a1, b, a2, c)) for a1, a2 in itertools.permutations(S[0], 2) for b in S[1] for c in S[2]]
        return tup, f4pred
    if stat == "f2":  # (a1, b1; a2, b2)
        tup = [(1.0, (a1, b1, a2, b2)) for a1, a2 in itertools.permutations(S[0], 2)
               for b1, b2 in itertools.permutations(S[1], 2)]
        return tup, f4pred
    raise KeyError(stat)


def first_principles_columns(cs, rng, stat, sets, idx_list, windows, mode, span_normalise, got_full, mag_full,
                             peak, budget=400):
    """Route (2) for a few index tuples: average over sample tuples of the documented event."""
    ref = cs.ref
    cols = list(range(len(idx_list)))
    rng.shuffle(cols)
    for c in cols[:2]:
        idx = idx_list[c]
        tup, pred = tuples_for(stat, sets, idx)
        if len(tup) > budget:
            continue
        exp = ref.tuple_stat(tup, pred, len(idx), windows, mode, False, span_normalise)
        g = got_full[..., c]
        m = mag_full[..., c]
        if not tup:
            # no tuple to average over (e.g. diversity of one sample): documented NaN; E1 in empty windows
            cs.ctx.count(f"named-tuples:{mode}")
            ok = np.all(np.isnan(g) | (g == 0))
            if not ok:
                cs.ctx.violation(f"{stat}/{mode}/degenerate-not-nan",
                                 f"{stat}(sets={sets}, index={idx}, mode={mode}) has no sample tuple to average "
                                 f"over but returned {_fmt(g)}", cs.detail())
            continue
        cs.check(f"named-tuples:{mode}", f"{stat}/{mode}/pairwise-definition", g, exp, tol_from(m, peak),
                 f"{stat}(sets={sets}, index={idx}, windows={windows}, mode={mode}, span_normalise={span_normalise}) "
                 f"vs average over sample tuples")


ONE_WAY = ["diversity", "segregating_sites", "Y1"]
K_WAY = {"divergence": 2, "Y2": 2, "f2": 2, "Y3": 3, "f3": 3, "f4": 4}


def ref_sample_count_stat(ref, stat, sets, idx_list, windows, mode, span_normalise, polarised=False):
    n = [len(A) for A in sets]
    f = R.SUMMARY[stat][1](n, idx_list)
    W = ref.indicator_weights(sets)
    exp, mag, nterms = ref.general(W, f, windows, mode, polarised, span_normalise)
    with np.errstate(all="ignore"):
        z = np.asarray(f(np.zeros(len(sets))), dtype=float)
    degenerate = [c for c in range(len(idx_list)) if np.isnan(z[c])]
    return exp, mag, nterms, degenerate


def ref_tajimas_d(ref, sets, windows, mode):
    """Tajimas_D from its documented composition.  Returns (exp, compare-mask, must-be-nan mask, tol), full shape.
    E6: entries whose reference denominator is below 1e-6 are not compared, EXCEPT that (site and node mode) an
    entry with no segregating allele / node at all (S == 0 exactly: a sum of non-negative terms that are all zero)
    is (0 - 0/h) / sqrt(0) = nan in any evaluation order and must be nan."""
    idx_list = [(i,) for i in range(len(sets))]
    T, Tm, nt, _ = ref_sample_count_stat(ref, "diversity", sets, idx_list, windows, mode, False)
    S, Sm, _, _ = ref_sample_count_stat(ref, "segregating_sites", sets, idx_list, windows, mode, False)
    exp = np.zeros_like(T)
    cmpmask = np.zeros(T.shape, dtype=bool)
    tol = np.zeros_like(T)
    for c, A in enumerate(sets):
        h, a, b, cc = R.tajd_constants(len(A))
        with np.errstate(all="ignore"):
            num = T[..., c] - S[..., c] / h
            den2 = a * S[..., c] + (b / cc) * S[..., c] * (S[..., c] - 1)
            den = np.sqrt(den2)
            exp[..., c] = num / den
            good = np.isfinite(den) & (np.abs(den) > 1e-6) & np.isfinite(num) & (den2 > 1e-6)
            cmpmask[..., c] = good
            tol[..., c] = np.where(good, (1e-8 * (Tm[..., c] + Sm[..., c] + 1)) / np.where(good, den, 1) *
                                   (1 + np.abs(np.where(good, exp[..., c], 0))) + 1e-9, 0)
    must_nan = (S == 0) & ~cmpmask
    if mode == "branch":
        # the branch algorithm keeps a running sum that is added to and subtracted from as edges come and go: in a
        # stretch without branches it may hold a rounding residue instead of 0, so 0/0 is not guaranteed there
        must_nan[...] = False
    return exp, cmpmask, must_nan, tol


def check_tajimas_d(cs, sets, windows, mode, drop_last, got, what):
    ctx = cs.ctx
    exp, cmpmask, must_nan, tol = ref_tajimas_d(cs.ref, sets, windows, mode)
    gfull = np.asarray(got, dtype=float)
    e = drop_dims(exp, windows is None, drop_last)
    mk = drop_dims(cmpmask, windows is None, drop_last)
    mn = drop_dims(must_nan, windows is None, drop_last)
    tl = drop_dims(tol, windows is None, drop_last)
    ctx.count("tajimas_d:entries-compared", int(mk.sum()))
    ctx.count("tajimas_d:entries-must-be-nan", int(mn.sum()))
    ctx.count("tajimas_d:entries-ill-conditioned", int((~mk & ~mn).sum()))
    if gfull.shape != e.shape:
        ctx.count(f"named:{mode}")
        ctx.violation(f"Tajimas_D/{mode}/shape", f"{what}: shape {gfull.shape} expected {e.shape}", cs.detail())
        return
    e2 = np.where(mk, e, np.where(mn, np.nan, gfull))  # E6
    cs.check(f"named:{mode}", f"Tajimas_D/{mode}/composition", gfull, e2, tl, what)


def ref_fst(ref, sets, idx_list, windows, mode, span_normalise):
    """Fst = 1 - 2 (d(X) + d(Y)) / (d(X) + 2 d(X,Y) + d(Y)).  Returns (exp, compare-mask, must-be-nan mask, tol).
    E6 as for Tajimas_D: a denominator that is nan (a singleton set has no diversity) or exactly zero (three sums
    of non-negative terms that are all zero, so the numerator is zero too) gives nan in any evaluation order."""
    oneidx = [(i,) for i in range(len(sets))]
    dv, dvm, _, _ = ref_sample_count_stat(ref, "diversity", sets, oneidx, windows, mode, span_normalise)
    dg, dgm, _, _ = ref_sample_count_stat(ref, "divergence", sets, idx_list, windows, mode, span_normalise)
    exp = np.zeros_like(dg)
    mk = np.zeros(dg.shape, dtype=bool)
    mn = np.zeros(dg.shape, dtype=bool)
    tol = np.zeros_like(dg)
    for c, (i, j) in enumerate(idx_list):
        with np.errstate(all="ignore"):
            den = dv[..., i] + dv[..., j] + 2 * dg[..., c]
            num = 2 * (dv[..., i] + dv[..., j])
            exp[..., c] = 1 - num / den
            good = np.isfinite(den) & (np.abs(den) > 1e-6) & np.isfinite(num)
            mk[..., c] = good
            if mode != "branch":  # (branch mode: running sums may hold a rounding residue where the true value is 0)
                mn[..., c] = np.isnan(den) | (den == 0)
            scale = dvm[..., i] + dvm[..., j] + dgm[..., c]
            tol[..., c] = np.where(good, 1e-8 * scale / np.abs(np.where(good, den, 1)) *
                                   (1 + np.abs(np.where(good, num / np.where(good, den, 1), 0))) + 1e-9, 0)
    return exp, mk, mn, tol


def check_fst(cs, sets, idx_list, windows, mode, span_normalise, drop_last, got, what):
    ctx = cs.ctx
    gfull = np.asarray(got, dtype=float)
    exp, mk, mn, tol = ref_fst(cs.ref, sets, idx_list, windows, mode, span_normalise)
    e = drop_dims(exp, windows is None, drop_last)
    if gfull.shape != e.shape:
        ctx.count(f"named:{mode}")
        ctx.violation(f"Fst/{mode}/shape", f"{what}: shape {gfull.shape} expected {e.shape}", cs.detail())
        return
    g_full = gfull.reshape(exp.shape)
    ctx.count("fst:entries-compared", int(mk.sum()))
    ctx.count("fst:entries-must-be-nan", int(mn.sum()))
    ctx.count("fst:entries-ill-conditioned", int((~mk & ~mn).sum()))
    cs.check(f"named:{mode}", f"Fst/{mode}/composition", g_full,
             np.where(mk, exp, np.where(mn, np.nan, g_full)), tol, what)


def check_named_values(cs, stat, sets, idx_list, windows, mode, span_normalise, drop_last, got, what):
    """Compare the value of a sum-type named statistic with its documented summary function (route 1).
    Returns (g_full, mag, peak) when the shapes agree, else None."""
    ref, ctx = cs.ref, cs.ctx
    exp, mag, nterms, degenerate = ref_sample_count_stat(ref, stat, sets, idx_list, windows, mode, span_normalise)
    peak = float(np.max(mag)) if mag.size else 0.0
    gfull = np.asarray(got, dtype=float)
    e = drop_dims(exp, windows is None, drop_last)
    if gfull.shape != e.shape:
        ctx.count(f"named:{mode}")
        ctx.violation(f"{stat}/{mode}/shape", f"{what}: shape {gfull.shape} expected {e.shape}", cs.detail())
        return None
    g_full = gfull.reshape(exp.shape)
    exp = apply_e1(g_full, exp, nterms, degenerate, mode == "node")
    cs.check(f"named:{mode}", f"{stat}/{mode}/summary-function", g_full, exp, tol_from(mag, peak), what)
    return g_full, mag, peak


def fam_named(cs, rng):
    ts, ref, ctx = cs.ts, cs.ref, cs.ctx
    stats = ONE_WAY + list(K_WAY) + ["Tajimas_D", "Fst", "genetic_relatedness", "genetic_relatedness"]
    for rep in range(6):
        stat = rng.choice(stats)
        mode = rng.choice(["site", "branch", "node"])
        span_normalise = rng.random() < 0.5
        windows = rand_windows(rng, ref)
        ctx.feature(f"named:{stat}")
        if stat in ONE_WAY or stat == "Tajimas_D":
            one_way(cs, rng, stat, mode, windows, span_normalise)
        elif stat in K_WAY or stat == "Fst":
            k_way(cs, rng, stat, mode, windows, span_normalise)
        else:
            relatedness(cs, rng, mode, windows, span_normalise)


def one_way(cs, rng, stat, mode, windows, span_normalise):
    ts, ref, ctx = cs.ts, cs.ref, cs.ctx
    r = rng.random()
    if r < 0.2 and stat != "Y1":
        arg, sets, drop_last = None, [list(ref.samples)], True
    elif r < 0.45:
        sets = rand_sample_sets(rng, ref.samples, k=1)
        arg, drop_last = sets[0], True
    else:
        sets = rand_sample_sets(rng, ref.samples)
        arg, drop_last = sets, False
    idx_list = [(i,) for i in range(len(sets))]
    kw = {"windows": windows, "mode": mode}
    what = f"{stat}(sample_sets={arg}, windows={windows}, mode={mode}"
    if stat == "Tajimas_D":
        what += ")"
        ok, got = call(ctx, ts.Tajimas_D, arg, **kw)
    else:
        kw["span_normalise"] = span_normalise
        what += f", span_normalise={span_normalise})"
        if stat == "Y1":
            ok, got = call(ctx, ts.Y1, arg, **kw)
        else:
            ok, got = call(ctx, getattr(ts, stat), arg, **kw)
    if not ok:
        unexpected_error(cs, f"{stat}/{mode}", what, got)
        return
    node = mode == "node"
    if stat == "Tajimas_D":
        check_tajimas_d(cs, sets, windows, mode, drop_last, got, what)
        return
    res = check_named_values(cs, stat, sets, idx_list, windows, mode, span_normalise, drop_last, got, what)
    if res is None:
        return
    g_full, mag, peak = res
    if stat in ("diversity", "Y1"):
        first_principles_columns(cs, rng, stat, sets, idx_list, windows, mode, span_normalise, g_full, mag, peak)
    elif stat == "segregating_sites":
        seg_sites_first_principles(cs, rng, sets, windows, mode, span_normalise, g_full, mag, peak)


def seg_sites_first_principles(cs, rng, sets, windows, mode, span_normalise, g_full, mag, peak):
    """site: number of distinct alleles found in A at each site minus one; branch/node: branches/nodes
    ancestral to some but not all of A (docstring of segregating_sites)."""
    ref = cs.ref
    c = rng.randrange(len(sets))
    A = sets[c]
    w = ref.parse_windows(windows)
    nw = len(w) - 1
    exp = np.zeros((nw, ref.N)) if mode == "node" else np.zeros(nw)
    if mode == "site":
        for s in ref.sites:
            for i in range(nw):
                if w[i] <= s["pos"] < w[i + 1]:
                    exp[i] += len(set(s["node_allele"][u] for u in A)) - 1
    else:
        for t in ref.trees:
            for i in range(nw):
                lo, hi = max(t.left, w[i]), min(t.right, w[i + 1])
                if hi <= lo:
                    continue
                for u in range(ref.N):
                    kk = sum(1 for a in A if a in t.below_nodes[u])
                    if 0 < kk < len(A):
                        if mode == "branch":
                            if t.blen[u] is not None:
                                exp[i] += t.blen[u] * (hi - lo)
                        else:
                            exp[i, u] += hi - lo
    if span_normalise:
        for i in range(nw):
            exp[i] /= w[i + 1] - w[i]
    cs.check(f"named-tuples:{mode}", f"segregating_sites/{mode}/allele-count-definition", g_full[..., c], exp,
             tol_from(mag[..., c], peak),
             f"segregating_sites(A={A}, windows={windows}, mode={mode}, span_normalise={span_normalise}) vs counting")


def k_way(cs, rng, stat, mode, windows, span_normalise):
    ts, ref, ctx = cs.ts, cs.ref, cs.ctx
    k = 2 if stat == "Fst" else K_WAY[stat]
    r = rng.random()
    small = 3 if k >= 3 else 4
    if r < 0.25:
        sets = rand_sample_sets(rng, ref.samples, k=k, max_size=small)
        idx_arg, idx_list, drop_last = None, [tuple(range(k))], True
    elif r < 0.45:
        sets = rand_sample_sets(rng, ref.samples, k=rng.randint(k, 4), max_size=small)
        idx_list = [tuple(rng.randrange(len(sets)) for _ in range(k))]
        idx_arg, drop_last = idx_list[0], True
    else:
        # (fewer than k sample sets is refused by the library even with explicit indexes: not generated)
        sets = rand_sample_sets(rng, ref.samples, k=rng.randint(k, 4), max_size=small)
        idx_list = rand_indexes(rng, len(sets), k)
        idx_arg, drop_last = idx_list, False
    what = (f"{stat}(sample_sets={sets}, indexes={idx_arg}, windows={windows}, mode={mode}, "
            f"span_normalise={span_normalise})")
    ok, got = call(ctx, getattr(ts, stat), sets, indexes=idx_arg, windows=windows, mode=mode,
                   span_normalise=span_normalise)
    if not ok:
        unexpected_error(cs, f"{stat}/{mode}", what, got)
        return
    node = mode == "node"
    gfull = np.asarray(got, dtype=float)
    if stat == "Fst":
        check_fst(cs, sets, idx_list, windows, mode, span_normalise, drop_last, got, what)
        return
    res = check_named_values(cs, stat, sets, idx_list, windows, mode, span_normalise, drop_last, got, what)
    if res is None:
        return
    g_full, mag, peak = res
    first_principles_columns(cs, rng, stat, sets, idx_list, windows, mode, span_normalise, g_full, mag, peak)


def ref_relatedness(ref, sets, idx_list, windows, mode, span_normalise, polarised, centre, proportion):
    n = [len(A) for A in sets]
    f = R.sf_relatedness(n, idx_list, centre)
    W = ref.indicator_weights(sets)
    exp, mag, nterms = ref.general(W, f, windows, mode, polarised, span_normalise)
    mk = np.ones(exp.shape, dtype=bool)
    if proportion:
        allsamp = sorted(set(u for A in sets for u in A))
        den, denm, _, _ = ref_sample_count_stat(ref, "segregating_sites", [allsamp], [(0,)], windows, mode,
                                                span_normalise)
        with np.errstate(all="ignore"):
            good = np.abs(den) > 1e-6
            exp = exp / den
            mag = np.where(good, mag / np.where(good, np.abs(den), 1), 0) * 10 + 1e-3 * good
            mk = np.broadcast_to(good, exp.shape).copy()
            # E6 narrowed: a denominator that is exactly zero (a sum of non-negative terms, all zero) divides the
            # numerator into nan or +-inf, never into a finite number
            ref.last_zero_denominator = np.broadcast_to((den == 0) & (mode != "branch"), exp.shape).copy()
    else:
        ref.last_zero_denominator = np.zeros(exp.shape, dtype=bool)
    return exp, mag, nterms, mk


def check_relatedness_values(cs, sets, idx_list, windows, mode, span_normalise, polarised, centre, proportion,
                             drop_last, got, what):
    """genetic_relatedness against its documented summary function (and the quotient by segregating_sites).
    Returns (g_full, mag, peak) when the shapes agree, else None."""
    ref, ctx = cs.ref, cs.ctx
    gfull = np.asarray(got, dtype=float)
    exp, mag, nterms, mk = ref_relatedness(ref, sets, idx_list, windows, mode, span_normalise, polarised, centre,
                                           proportion)
    e = drop_dims(exp, windows is None, drop_last)
    if gfull.shape != e.shape:
        ctx.count(f"named:{mode}")
        ctx.violation(f"genetic_relatedness/{mode}/shape", f"{what}: shape {gfull.shape} expected {e.shape}",
                      cs.detail())
        return None
    g_full = gfull.reshape(exp.shape)
    peak = None if proportion else (float(np.max(mag)) if mag.size else 0.0)
    ctx.feature(f"relatedness:pol={int(polarised)},centre={int(centre)},prop={int(proportion)}")
    if proportion:
        ctx.count("relatedness:entries-compared", int(mk.sum()))
        ctx.count("relatedness:entries-ill-conditioned", int((~mk).sum()))
    cs.check(f"named:{mode}", f"genetic_relatedness/{mode}/summary-function", g_full, np.where(mk, exp, g_full),
             tol_from(mag, peak), what)
    if proportion:
        zd = ref.last_zero_denominator
        ctx.count("relatedness:entries-zero-denominator", int(zd.sum()))
        if np.any(np.isfinite(g_full[zd])):
            ctx.violation(f"genetic_relatedness/{mode}/proportion-zero-denominator-finite",
                          f"{what}: segregating_sites of all samples in the sets is exactly 0 in some entries, where "
                          f"the quotient must be nan or inf, but got {_fmt(got)}", cs.detail())
    return g_full, mag, peak


def relatedness(cs, rng, mode, windows, span_normalise):
    ts, ref, ctx = cs.ts, cs.ref, cs.ctx
    polarised = rng.random() < 0.6
    centre = rng.random() < 0.6
    proportion = rng.random() < 0.4
    r = rng.random()
    if r < 0.25:
        sets = rand_sample_sets(rng, ref.samples, k=2, max_size=4)
        idx_arg, idx_list, drop_last = None, [(0, 1)], True
    elif r < 0.4:
        sets = rand_sample_sets(rng, ref.samples, k=rng.randint(2, 4), max_size=4)
        idx_list = [tuple(rng.randrange(len(sets)) for _ in range(2))]
        idx_arg, drop_last = idx_list[0], True
    else:
        sets = rand_sample_sets(rng, ref.samples, k=rng.randint(2, 4), max_size=4)
        idx_list = rand_indexes(rng, len(sets), 2)
        idx_arg, drop_last = idx_list, False
    what = (f"genetic_relatedness(sample_sets={sets}, indexes={idx_arg}, windows={windows}, mode={mode}, "
            f"span_normalise={span_normalise}, polarised={polarised}, proportion={proportion}, centre={centre})")
    ok, got = call(ctx, ts.genetic_relatedness, sets, indexes=idx_arg, windows=windows, mode=mode,
                   span_normalise=span_normalise, polarised=polarised, proportion=proportion, centre=centre)
    if not ok:
        if proportion and isinstance(got, ValueError) and "reshape" in str(got):
            # the division by segregating_sites mis-shapes the denominator
            ctx.count(f"named:{mode}")
            ctx.violation("genetic_relatedness/proportion-denominator-reshape",
                          f"{what} raised {type(got).__name__}: {got}", cs.detail())
            return
        unexpected_error(cs, f"genetic_relatedness/{mode}", what, got)
        return
    res = check_relatedness_values(cs, sets, idx_list, windows, mode, span_normalise, polarised, centre, proportion,
                                   drop_last, got, what)
    if res is None or proportion:
        return
    g_full, mag, peak = res
    # first principles: E[m(I,J) - m(I,S) - m(J,T) + m(S,T)] with m the average number of shared alleles /
    # area of shared branches over pairs of members (docstring)
    ns = len(sets)
    if sum(len(A) for A in sets) ** 2 > 150:
        return
    cache = {}

    def shared(a, b):
        key = (min(a, b), max(a, b))
        if key not in cache:
            cache[key] = ref.shared(a, b, windows, mode, polarised, span_normalise)
        return cache[key]

    M = {}
    for i in range(ns):
        for j in range(ns):
            M[i, j] = sum(shared(a, b) for a in sets[i] for b in sets[j]) / (len(sets[i]) * len(sets[j]))
    c = rng.randrange(len(idx_list))
    i, j = idx_list[c]
    val = M[i, j]
    if centre:
        val = val - sum(M[i, s] for s in range(ns)) / ns - sum(M[j, t] for t in range(ns)) / ns \
            + sum(M[s, t] for s in range(ns) for t in range(ns)) / ns ** 2
    cs.check(f"named-tuples:{mode}", f"genetic_relatedness/{mode}/shared-allele-definition", g_full[..., c], val,
             tol_from(mag[..., c], peak) + 1e-9 * sum(np.abs(v) for v in M.values()),
             what + f" column {c} vs E[m(I,J)-m(I,S)-m(J,T)+m(S,T)]")


# ---------------------------------------------------------------------------------------- family: afs


def fold_1d(a):
    """Documented 1-D fold along the last axis: counts j and n - j share entry min(j, n - j)."""
    n = a.shape[-1] - 1
    out = np.zeros_like(a)
    for j in range(n + 1):
        out[..., min(j, n - j)] += a[..., j]
    return out


def symmetrise(a):
    """a[idx] + a[complement(idx)] over the sample-set axes (all but the first)."""
    flipped = a
    for ax in range(1, a.ndim):
        flipped = np.flip(flipped, axis=ax)
    return a + flipped


def check_afs(cs, sets, arg, windows, mode, polarised, span_normalise, tag="", caller=None):
    """caller: optional (thunk, description) making the call in another argument form (lib/props/c08_wide.py)."""
    ts, ref, ctx = cs.ts, cs.ref, cs.ctx
    what = (f"allele_frequency_spectrum(sample_sets={arg}, windows={windows}, mode={mode}, "
            f"span_normalise={span_normalise}, polarised={polarised})")
    if caller is not None:
        what = caller[1]
        ok, got = call(ctx, caller[0])
    else:
        ok, got = call(ctx, ts.allele_frequency_spectrum, arg, windows=windows, mode=mode,
                       span_normalise=span_normalise, polarised=polarised)
    if not ok:
        unexpected_error(cs, f"afs/{mode}", what, got)
        return
    got = np.asarray(got, dtype=float)
    exp = ref.afs(sets, windows, mode, polarised, span_normalise)
    mag = np.abs(exp).sum() + 1.0
    if windows is None:
        exp = exp[0]
    if got.shape != exp.shape:
        ctx.count(f"afs:{mode}")
        ctx.violation(f"afs/{mode}/shape", f"{what}: shape {got.shape} expected {exp.shape}", cs.detail())
        return
    g = got if windows is not None else got[np.newaxis]
    e = exp if windows is not None else exp[np.newaxis]
    ctx.feature(f"afs:{mode},pol={int(polarised)},dims={len(sets)}")
    tol = 1e-9 * mag

    def key_for(gg, ee):
        # D16 mechanism: a node that was parentless over a stretch is flushed with its new branch
        # length over the whole stretch when it regains a parent -> over-count only
        if mode == "branch" and ({"regain-parent", "parentless-then-parent"} & cs.tags) and np.all(gg - ee > -tol):
            return "afs/branch/stale-last-update"
        return f"afs/{mode}/direct-count"

    if polarised:
        cs.check(f"afs:{mode}", key_for(g, e), g, e, tol, what)
        return
    if len(sets) == 1:
        cs.check(f"afs:{mode}", key_for(g, fold_1d(e)), g, fold_1d(e), tol, what + " (folded)")
        return
    # E2: joint folded spectrum - a cell and its complement are interchangeable
    ok1 = cs.check(f"afs:{mode}", key_for(symmetrise(g), symmetrise(e)), symmetrise(g), symmetrise(e), tol,
                   what + " (cell + complementary cell)")
    total = sum(len(A) for A in sets)
    upper = np.zeros(g.shape[1:], dtype=bool)
    for idx in itertools.product(*[range(len(A) + 1) for A in sets]):
        if 2 * sum(idx) > total:
            upper[idx] = True
    ctx.count("afs:fold-lower-triangular")
    if ok1 and np.any(np.abs(g[:, upper]) > tol):
        ctx.violation(f"afs/{mode}/fold-not-lower-triangular",
                      f"{what}: entries whose coordinate sum exceeds half the total are not empty: {_fmt(g)}",
                      cs.detail())


def fam_afs(cs, rng):
    ts, ref, ctx = cs.ts, cs.ref, cs.ctx
    for rep in range(5):
        mode = rng.choice(["site", "branch", "branch"])
        polarised = rng.random() < 0.5
        span_normalise = rng.random() < 0.5
        windows = rand_windows(rng, ref)
        r = rng.random()
        if r < 0.25:
            sets, arg = [list(ref.samples)], None
        else:
            sets = rand_sample_sets(rng, ref.samples, k=rng.choice([1, 1, 2, 2, 3]), max_size=5,
                                    disjoint=rng.random() < 0.5)
            arg = sets
        check_afs(cs, sets, arg, windows, mode, polarised, span_normalise)
    if rng.random() < 0.2:
        ok, got = call(ctx, ts.allele_frequency_spectrum, None, mode="node")
        ctx.count("afs:node-mode-refused")
        if ok:  # documented: "Not supported for this method (raises a ValueError)"
            ctx.violation("afs/node-mode-accepted", f"allele_frequency_spectrum(mode='node') returned {_fmt(got)}",
                          cs.detail())


def fam_d16(case, ctx, rng):
    """The design-phase witness of D16 and small variations of it (deterministic)."""
    variants = [
        ((0.0, 0.0, 0.5), [(4.0, 5.0, 2, 0), (0.0, 8.0, 2, 1)], 8.0),
        ((0.0, 0.0, 1.0), [(2.0, 8.0, 2, 0), (0.0, 8.0, 2, 1)], 8.0),
        ((0.0, 0.0, 0.5, 1.0), [(0.0, 2.0, 2, 0), (4.0, 8.0, 3, 0), (0.0, 8.0, 2, 1), (0.0, 8.0, 3, 2)], 8.0),
    ]
    for times, edges, L in variants:
        m = RowModel(L)
        m.nodes = [(NODE_IS_SAMPLE, t, NULL, NULL, b"") for t in times]
        m.edges = sorted([(l, r, p, c, b"") for l, r, p, c in edges], key=lambda e: (times[e[2]], e[2], e[3], e[0]))
        cs = Case(m, ctx)
        ctx.sig(("C08", "d16", m.signature()))
        for polarised in (True, False):
            for sn in (False, True):
                for windows in (None, [0.0, 4.0, L], "trees"):
                    check_afs(cs, [list(cs.ref.samples)], None, windows, "branch", polarised, sn)


fam_d16.own_input = True

# ---------------------------------------------------------------------------------------- family: matrix


def rand_matrix_sets(rng, ref):
    """(argument, list-of-lists) for divergence_matrix-style methods: None | 1-D ids | disjoint lists."""
    r = rng.random()
    if r < 0.25:
        return None, [[u] for u in ref.samples]
    if r < 0.5:
        ids = rng.sample(ref.samples, rng.randint(1, ref.n))
        return ids, [[u] for u in ids]
    sets = rand_sample_sets(rng, ref.samples, k=rng.randint(1, 4), disjoint=True)
    return sets, sets


def rand_partial_windows(rng, ref):
    """Windows that need not span the sequence (divergence_matrix / relatedness_vector accept them)."""
    L = ref.L
    pool = sorted(set([k * L / 32 for k in range(0, 33)] + ref.bps + [s["pos"] for s in ref.sites]))
    pts = sorted(rng.sample(pool, rng.randint(2, min(5, len(pool)))))
    inner = [x for x in ref.bps if 0 < x < L]
    if inner and rng.random() < 0.6:
        # the first window starts exactly ON an internal tree breakpoint (edges ending there must not be part of the
        # first tree) and, half of the time, the last one ends exactly on one
        a = rng.choice(inner)
        rest = [x for x in pool if x > a]
        pts = [a] + sorted(rng.sample(rest, rng.randint(1, min(4, len(rest)))))
        if rng.random() < 0.5:
            later = [x for x in inner if x > a]
            if later:
                b = rng.choice(later)
                pts = [x for x in pts if x < b] + [b]
    return pts


def ref_grm_from_divergence(D, sizes):
    """The documented construction (genetic_relatedness_matrix docstring)."""
    n = np.asarray(sizes, dtype=float)
    out = np.zeros_like(D)
    for w in range(D.shape[0]):
        B = D[w].copy()
        if len(B) == 0:
            continue
        np.fill_diagonal(B, np.diag(B) * (n - 1) / n)
        y = B.mean(axis=0)
        out[w] = (B + B.mean() - y[:, None] - y[None, :]) / -2
    return out


def fam_matrix(cs, rng):
    ts, ref, ctx = cs.ts, cs.ref, cs.ctx
    for rep in range(3):
        mode = rng.choice(["site", "branch"])
        span_normalise = rng.random() < 0.5
        partial = rng.random() < 0.2
        windows = rand_partial_windows(rng, ref) if partial else rand_windows(rng, ref)
        arg, sets = rand_matrix_sets(rng, ref)
        what = (f"divergence_matrix(sample_sets={arg}, windows={windows}, mode={mode}, "
                f"span_normalise={span_normalise})")
        ok, got = call(ctx, ts.divergence_matrix, arg, windows=windows, mode=mode, span_normalise=span_normalise)
        if not ok:
            unexpected_error(cs, f"divergence_matrix/{mode}", what, got)
            continue
        got = np.asarray(got, dtype=float)
        exp = ref.divergence_matrix(sets, windows, mode, span_normalise)
        if windows is None:
            exp = exp[0]
        if got.shape != exp.shape:
            ctx.count(f"divmat:{mode}")
            ctx.violation(f"divergence_matrix/{mode}/shape", f"{what}: shape {got.shape} expected {exp.shape}",
                          cs.detail())
            continue
        e = exp.copy()
        for i, A in enumerate(sets):  # E5
            if len(A) == 1:
                gi = got[..., i, i]
                e[..., i, i] = np.where(np.isnan(gi), gi, e[..., i, i])
        ctx.feature(f"divmat:{mode},partial={int(partial)}")
        cs.check(f"divmat:{mode}", f"divergence_matrix/{mode}/pairwise-definition", got, e,
                 1e-9 * (np.nanmax(np.abs(e)) if e.size else 0) + ATOL, what)
        # relatedness matrix on the same arguments (documented for None / list of lists, full-span windows)
        if partial or (arg is not None and not isinstance(arg[0], list)):
            continue
        ok, grm = call(ctx, ts.genetic_relatedness_matrix, arg, windows=windows, mode=mode,
                       span_normalise=span_normalise)
        what2 = what.replace("divergence_matrix", "genetic_relatedness_matrix")
        if not ok:
            unexpected_error(cs, f"genetic_relatedness_matrix/{mode}", what2, grm)
            continue
        grm = np.asarray(grm, dtype=float)
        Dfull = ref.divergence_matrix(sets, windows, mode, span_normalise)
        eg = ref_grm_from_divergence(Dfull, [len(A) for A in sets])
        scale = (np.nanmax(np.abs(Dfull)) if Dfull.size else 0)
        if windows is None:
            eg = eg[0]
        if grm.shape != eg.shape:
            ctx.count(f"grm:{mode}")
            ctx.violation(f"genetic_relatedness_matrix/{mode}/shape",
                          f"{what2}: shape {grm.shape} expected {eg.shape}", cs.detail())
            continue
        cs.check(f"grm:{mode}", f"genetic_relatedness_matrix/{mode}/documented-construction", grm, eg,
                 1e-9 * scale + ATOL, what2)
        # documented equivalence with genetic_relatedness(centre=True, proportion=False) [polarised default]
        if mode == "branch" or all(sx["nmut"] <= 1 for sx in ref.sites):
            ns = len(sets)
            idx_list = [(i, j) for i in range(ns) for j in range(ns)]
            er, mag, _, _ = ref_relatedness(ref, sets, idx_list, windows, mode, span_normalise, True, True, False)
            er = er.reshape((er.shape[0], ns, ns))
            mg = mag.reshape((mag.shape[0], ns, ns))
            if windows is None:
                er, mg = er[0], mg[0]
            cs.check(f"grm-vs-relatedness:{mode}", f"genetic_relatedness_matrix/{mode}/equals-genetic_relatedness",
                     grm, er, 1e-9 * (mg + scale) + ATOL, what2 + " vs genetic_relatedness definition")
    # ---- weighted relatedness and relatedness-vector
    n = ref.n
    for rep in range(2):
        mode = rng.choice(["site", "branch", "node"])
        span_normalise = rng.random() < 0.5
        polarised = rng.random() < 0.5
        centre = rng.random() < 0.5
        windows = rand_windows(rng, ref)
        k = rng.randint(1, 3)
        W = rand_weights(rng, n, k)
        r = rng.random()
        if r < 0.2 and k >= 2:
            W = W[:, :2]
            k = 2
            idx_arg, idx_list, drop_last = None, [(0, 1)], True
        elif r < 0.4:
            idx_list = [(rng.randrange(k), rng.randrange(k))]
            idx_arg, drop_last = idx_list[0], True
        else:
            idx_list = rand_indexes(rng, k, 2, maxn=5)
            idx_arg, drop_last = idx_list, False
        what = (f"genetic_relatedness_weighted(W={W.tolist()}, indexes={idx_arg}, windows={windows}, mode={mode}, "
                f"span_normalise={span_normalise}, polarised={polarised}, centre={centre})")
        ok, got = call(ctx, ts.genetic_relatedness_weighted, W, indexes=idx_arg, windows=windows, mode=mode,
                       span_normalise=span_normalise, polarised=polarised, centre=centre)
        if not ok:
            unexpected_error(cs, f"genetic_relatedness_weighted/{mode}", what, got)
            continue
        got = np.asarray(got, dtype=float)
        wsum = W.sum(axis=0)
        # documented summary function; p = proportion of all samples below the node
        Wx = np.column_stack([W, np.full(n, 1.0 / n)])

        def f(x, idx_list=idx_list, wsum=wsum, centre=centre, k=k):
            p = x[k]
            if centre:
                return [(x[i] - wsum[i] * p) * (x[j] - wsum[j] * p) for i, j in idx_list]
            return [x[i] * x[j] for i, j in idx_list]

        exp, mag, nterms = ref.general(Wx, f, windows, mode, polarised, span_normalise)
        peak = float(np.max(mag)) if mag.size else 0.0
        e = drop_dims(exp, windows is None, drop_last)
        if got.shape != e.shape:
            ctx.count(f"weighted:{mode}")
            ctx.violation(f"genetic_relatedness_weighted/{mode}/shape", f"{what}: shape {got.shape} expected {e.shape}",
                          cs.detail())
            continue
        g_full = got.reshape(exp.shape)
        # 1/n is not dyadic: the propagated proportion carries rounding noise that f multiplies by the weights
        noise = 1e-9 * (np.abs(W).sum() + 1) ** 2 * (ref.L if not span_normalise else 1.0) * \
            (max(abs(ref.m.time(u)) for u in range(ref.N)) * 2 + 1 if mode == "branch" else 1.0)
        cs.check(f"weighted:{mode}", f"genetic_relatedness_weighted/{mode}/summary-function", g_full, exp,
                 tol_from(mag, peak) + noise, what)
        # docstring: sum_ab W_ai W_bj C_ab with C the genetic_relatedness between samples a and b
        if n <= 6:
            singles = [[u] for u in ref.samples]
            allidx = [(a, b) for a in range(n) for b in range(n)]
            C, Cm, _, _ = ref_relatedness(ref, singles, allidx, windows, mode, span_normalise, polarised, centre,
                                          False)
            C = C.reshape(C.shape[:-1] + (n, n))
            c = rng.randrange(len(idx_list))
            i, j = idx_list[c]
            val = np.einsum("a,...ab,b->...", W[:, i], C, W[:, j])
            valm = np.einsum("a,...ab,b->...", np.abs(W[:, i]), Cm.reshape(Cm.shape[:-1] + (n, n)), np.abs(W[:, j]))
            cs.check(f"weighted-vs-matrix:{mode}", f"genetic_relatedness_weighted/{mode}/bilinear-form-definition",
                     g_full[..., c], val, tol_from(valm, peak) + noise, what + f" column {c} vs sum_ab W_ai W_bj C_ab")
    for rep in range(2):
        mode = "branch" if rng.random() < 0.9 else "site"
        span_normalise = rng.random() < 0.5
        partial = rng.random() < 0.4
        windows = rand_partial_windows(rng, ref) if partial else rand_windows(rng, ref)
        k = rng.randint(1, 2)
        W = rand_weights(rng, n, k)
        Warg = W[:, 0] if (k == 1 and rng.random() < 0.5) else W
        use_nodes = rng.random() < 0.4
        centre = False if use_nodes else rng.random() < 0.6
        nodes = [rng.randrange(ref.N) for _ in range(rng.randint(1, 4))] if use_nodes else None
        what = (f"genetic_relatedness_vector(W={np.asarray(Warg).tolist()}, windows={windows}, mode={mode}, "
                f"span_normalise={span_normalise}, centre={centre}, nodes={nodes})")
        ok, got = call(ctx, ts.genetic_relatedness_vector, Warg, windows=windows, mode=mode,
                       span_normalise=span_normalise, centre=centre, nodes=nodes)
        if not ok:
            if mode == "site":
                ctx.count("relatedness-vector:site-mode-refused")  # only branch mode is implemented (E7)
                continue
            unexpected_error(cs, "genetic_relatedness_vector", what, got)
            continue
        got = np.asarray(got, dtype=float)
        focal = nodes if use_nodes else list(ref.samples)
        wl = ref.parse_windows(windows)
        nw = len(wl) - 1
        C = np.zeros((nw, len(focal), n))
        for a, u in enumerate(focal):
            for b, v in enumerate(ref.samples):
                C[:, a, b] = ref.shared(u, v, wl, mode, True, span_normalise)
        if centre:
            # centred relatedness between samples: C_ab - mean_s C_as - mean_t C_tb + mean_st C_st
            C = C - C.mean(axis=2, keepdims=True) - C.mean(axis=1, keepdims=True) + \
                C.mean(axis=(1, 2), keepdims=True)
        exp = np.einsum("wab,bj->waj", C, W)
        mg = np.einsum("wab,bj->waj", np.abs(C), np.abs(W)) + np.abs(C).sum() * np.abs(W).sum() / max(1, n)
        if windows is None:
            exp, mg = exp[0], mg[0]
        ctx.feature(f"relatedness-vector:centre={int(centre)},nodes={int(use_nodes)},partial={int(partial)}")
        if partial and windows[0] > 0 and windows[0] in ref.bps:
            ctx.feature("relatedness-vector:first-window-starts-on-a-breakpoint")
        key = "genetic_relatedness_vector/matrix-vector-definition"
        if span_normalise and got.shape == exp.shape:
            spans = np.array([wl[i + 1] - wl[i] for i in range(nw)]).reshape((-1, 1, 1))
            unnorm = (exp if windows is not None else exp[np.newaxis]) * spans
            if mismatch(got if windows is not None else got[np.newaxis], unnorm, 1e-9 * mg * spans + ATOL) is None:
                key = "genetic_relatedness_vector/span-normalise-ignored"
        cs.check("relatedness-vector", key, got, exp, 1e-9 * mg + ATOL, what)


# ---------------------------------------------------------------------------------------- family: trait


def fam_trait(cs, rng):
    """trait_covariance / trait_correlation / trait_linear_model.
    Route (1): documented summary functions on centred / standardised weights.
    Route (2): first principles on the 0/1 inheritance vector g of every allele / branch / node:
    numpy sample covariance, numpy correlation coefficient, numpy least squares (w ~ 1 + g + Z)."""
    ts, ref, ctx = cs.ts, cs.ref, cs.ctx
    n = ref.n
    eye = np.eye(n)
    for rep in range(5):
        stat = rng.choice(["trait_covariance", "trait_correlation", "trait_linear_model"])
        mode = rng.choice(["site", "branch", "node"])
        span_normalise = rng.random() < 0.5
        windows = rand_windows(rng, ref)
        k = rng.randint(1, 2)
        W = rand_weights(rng, n, k, kind=rng.choice(["int", "dyadic", "signed"]))
        kw = {"windows": windows, "mode": mode, "span_normalise": span_normalise}
        what = f"{stat}(W={W.tolist()}, windows={windows}, mode={mode}, span_normalise={span_normalise}"
        Z = None
        if stat == "trait_correlation":
            if np.any(np.std(W, axis=0) == 0):
                ok, got = call(ctx, ts.trait_correlation, W, **kw)
                ctx.count("trait:zero-variance-refused")
                if ok:  # documented: each column must have positive standard deviation
                    ctx.violation("trait_correlation/zero-variance-accepted", what + f") returned {_fmt(got)}",
                                  cs.detail())
                continue
        if stat == "trait_linear_model" and rng.random() < 0.7 and n >= 4:
            kz = rng.randint(1, min(2, n - 3))
            for _ in range(10):
                Zc = np.array([[float(rng.randint(-2, 2)) for _ in range(kz)] for _ in range(n)])
                if np.linalg.matrix_rank(np.column_stack([Zc, np.ones(n)])) == kz + 1:
                    Z = Zc
                    break
        if stat == "trait_linear_model":
            what += f", Z={None if Z is None else Z.tolist()}"
            ok, got = call(ctx, ts.trait_linear_model, W, Z, **kw)
        else:
            ok, got = call(ctx, getattr(ts, stat), W, **kw)
        what += ")"
        if not ok:
            unexpected_error(cs, f"{stat}/{mode}", what, got)
            continue
        check_trait_values(cs, stat, W, Z, windows, mode, span_normalise, got, what)


def trait_expected(ref, stat, W, Z, windows, mode, span_normalise):
    """(e1, m1, e2, m2, illcond): route (1) documented summary function on centred / standardised weights (None
    for trait_linear_model), route (2) numpy cov / corrcoef / least squares on the 0/1 inheritance vector."""
    n = ref.n
    k = W.shape[1]
    eye = np.eye(n)
    Wc = W - W.mean(axis=0)
    illcond = []
    e1 = m1 = None
    if stat == "trait_covariance":
        def f1(x):
            return x * x / (2 * (n - 1) ** 2)
        e1, m1, _ = ref.general(Wc, f1, windows, mode, False, span_normalise)

        def f2(g):
            return np.array([np.cov(g, W[:, j])[0, 1] ** 2 / 2 for j in range(k)])
    elif stat == "trait_correlation":
        sd = np.sqrt(((Wc ** 2).sum(axis=0)) / (n - 1))
        Ws = np.column_stack([Wc / sd, np.ones(n)])

        def f1(x):
            c = x[k]
            if 0 < c < n:
                return x[:k] ** 2 / (2 * c * (1 - c / n) * (n - 1))
            return np.zeros(k)
        e1, m1, _ = ref.general(Ws, f1, windows, mode, False, span_normalise)

        def f2(g):
            if g.sum() in (0, n):
                return np.zeros(k)
            return np.array([np.corrcoef(g, W[:, j])[0, 1] ** 2 / 2 for j in range(k)])
    else:
        base = np.ones((n, 1)) if Z is None else np.column_stack([np.ones(n), Z])

        def f2(g):
            # residual of g on the covariates decides whether g is in their span
            coef, *_ = np.linalg.lstsq(base, g, rcond=None)
            r = float(((g - base @ coef) ** 2).sum())
            if r < 1e-12:
                return np.zeros(k)
            if r < 1e-4:
                illcond.append(r)
            X = np.column_stack([base[:, :1], g, base[:, 1:]])
            b, *_ = np.linalg.lstsq(X, W, rcond=None)
            return b[1] ** 2 / 2
    e2, m2, _ = ref.general(eye, f2, windows, mode, False, span_normalise)
    return e1, m1, e2, m2, illcond


def check_trait_values(cs, stat, W, Z, windows, mode, span_normalise, got, what):
    ref, ctx = cs.ref, cs.ctx
    k = W.shape[1]
    got = np.asarray(got, dtype=float)
    e1, m1, e2, m2, illcond = trait_expected(ref, stat, W, Z, windows, mode, span_normalise)
    shapes = [e2.shape if windows is not None else e2.shape[1:]]
    if k == 1 and windows is None and mode != "node":
        shapes.append(())  # docstrings: "a numpy scalar is returned"; the code keeps a length-1 axis
    if got.shape not in shapes:
        ctx.count(f"trait:{mode}")
        ctx.violation(f"{stat}/{mode}/shape", f"{what}: shape {got.shape} expected {shapes[0]}", cs.detail())
        return
    g_full = got.reshape(e2.shape)
    scale = float(np.abs(W).sum() + 1) ** 2
    peak2 = float(np.max(m2)) if m2.size else 0.0
    ctx.feature(f"trait:{stat}")
    if stat == "trait_linear_model":
        if illcond:
            ctx.count("trait:ill-conditioned-skipped")
            return
        cs.check(f"trait:{mode}", f"{stat}/{mode}/least-squares-definition", g_full, e2,
                 1e-7 * (m2 + peak2 + 1e-6 * scale) + 1e-9, what + " vs numpy least squares")
        return
    peak1 = float(np.max(m1)) if m1.size else 0.0
    cs.check(f"trait:{mode}", f"{stat}/{mode}/summary-function", g_full, e1,
             1e-8 * (m1 + peak1 + 1e-6 * scale) + 1e-10, what)
    cs.check(f"trait-first-principles:{mode}", f"{stat}/{mode}/covariance-definition", g_full, e2,
             1e-8 * (m2 + peak2 + 1e-6 * scale) + 1e-10, what + " vs numpy cov/corrcoef")


# ---------------------------------------------------------------------------------------- family: topo


def rand_node_sets(rng, ref, k=None, samples_only=False):
    """Disjoint lists of node ids (reference sets of GNN / mean_descendants may hold any node)."""
    pool = list(ref.samples) if samples_only or rng.random() < 0.6 else list(range(ref.N))
    rng.shuffle(pool)
    k = k or rng.randint(1, 3)
    k = min(k, len(pool))
    cuts = sorted(rng.sample(range(1, len(pool)), k - 1)) if k > 1 else []
    parts = [pool[a:b] for a, b in zip([0] + cuts, cuts + [len(pool)])]
    out = []
    for p_ in parts:
        if rng.random() < 0.4 and len(p_) > 1:
            p_ = p_[:rng.randint(1, len(p_))]
        out.append(p_)
    return out


def check_gnn(cs, focal, sets, num_threads=0, monitor="gnn", exp=None):
    ts, ref, ctx = cs.ts, cs.ref, cs.ctx
    what = f"genealogical_nearest_neighbours(focal={focal}, sample_sets={sets}, num_threads={num_threads})"
    ok, got = call(ctx, ts.genealogical_nearest_neighbours, focal, sets, num_threads=num_threads)
    if not ok:
        unexpected_error(cs, "gnn", what, got)
        return None
    if exp is None:
        exp = ref.gnn(focal, sets)
    cs.check(monitor, "gnn/nearest-ancestor-definition" if monitor == "gnn" else "gnn/threads-differ",
             got, exp, 1e-9, what)
    return exp


def fam_topo(cs, rng):
    ts, ref, ctx = cs.ts, cs.ref, cs.ctx
    # ---- GNN
    for rep in range(2):
        sets = rand_node_sets(rng, ref)
        focal = [rng.randrange(ref.N) for _ in range(rng.randint(1, 5))]
        if rng.random() < 0.5:
            focal = rng.sample(ref.samples, rng.randint(1, ref.n))
        check_gnn(cs, focal, sets)
    # ---- mean descendants
    for rep in range(2):
        sets = rand_node_sets(rng, ref)
        what = f"mean_descendants(sample_sets={sets})"
        ok, got = call(ctx, ts.mean_descendants, sets)
        if not ok:
            unexpected_error(cs, "mean_descendants", what, got)
            continue
        got = np.asarray(got, dtype=float)
        e_refs = ref.mean_descendants(sets, "refs")
        e_samp = ref.mean_descendants(sets, "samples")
        ctx.count("mean_descendants")
        if got.shape != e_refs.shape:
            ctx.violation("mean_descendants/shape", f"{what}: shape {got.shape} expected {e_refs.shape}", cs.detail())
            continue
        # E4: row by row either normalisation
        same = np.array_equal(np.nan_to_num(e_refs, nan=-1), np.nan_to_num(e_samp, nan=-1))
        ctx.feature("mean_descendants:" + ("normalisations-coincide" if same else "normalisations-differ"))
        bad = None
        for u in range(ref.N):
            if mismatch(got[u], e_refs[u], 1e-9) is None:
                continue
            if not np.any(np.isnan(e_samp[u])) and mismatch(got[u], e_samp[u], 1e-9) is None:
                continue
            bad = u
            break
        if bad is not None:
            ctx.violation("mean_descendants/span-average-definition",
                          f"{what}: node {bad} got {_fmt(got[bad])} expected {_fmt(e_refs[bad])} "
                          f"(or {_fmt(e_samp[bad])} with the documented per-sample normalisation)", cs.detail())
    # ---- pair coalescence counts
    for rep in range(3):
        sets = rand_sample_sets(rng, ref.samples, k=rng.randint(1, 3), disjoint=True)
        ns = len(sets)
        r = rng.random()
        if r < 0.3 and ns <= 2:
            idx_arg, idx_list = None, [(0, 0)] if ns == 1 else [(0, 1)]
        else:
            idx_list = rand_indexes(rng, ns, 2, maxn=4)
            idx_arg = idx_list
        sets_arg = sets
        if ns == 1 and sorted(sets[0]) == list(ref.samples) and rng.random() < 0.5:
            sets_arg = None
        elif rng.random() < 0.15:
            sets_arg, sets = None, [list(ref.samples)]
            idx_arg, idx_list = None, [(0, 0)]
        windows = rand_windows(rng, ref, allow_special=False) if rng.random() < 0.75 else None
        span_normalise = rng.random() < 0.5
        pair_normalise = rng.random() < 0.4
        gaps = [t for t in ref.trees if not t.has_edges]
        if gaps and rng.random() < 0.6:
            # window breakpoints strictly inside edgeless trees (and some at their ends): the non-missing span of
            # such a window is only part of it
            pts = set(windows or [0.0, ref.L])
            for t in gaps:
                r2 = rng.random()
                if r2 < 0.7:
                    pts.add(t.left + (t.right - t.left) * rng.choice([0.5, 0.25, 0.75]))
                if r2 > 0.5 and rng.random() < 0.5:
                    pts.add(rng.choice([t.left, t.right]))
            windows = sorted(pts)
            span_normalise = span_normalise or rng.random() < 0.6
            ctx.feature("coalescence:window-breakpoint-inside-gap")
        times = sorted(set(ref.m.time(u) for u in range(ref.N)))
        if rng.random() < 0.5:
            tw_arg, bins = "nodes", None
        else:
            lo = times[0] - (1.0 if rng.random() < 0.7 else -0.25)
            cand = sorted(set(rng.sample([t_ + d for t_ in times for d in (0.0, 0.25, -0.25)],
                                         rng.randint(0, min(4, len(times))))))
            cand = [c for c in cand if c > lo]
            tw = [lo] + cand + ([math.inf] if rng.random() < 0.7 else [times[-1] + rng.choice([0.0, 0.5])])
            tw = sorted(set(tw))
            if len(tw) < 2:
                tw = [lo, math.inf]
            tw_arg = np.array(tw)
            bins = tw
        what = (f"pair_coalescence_counts(sample_sets={sets_arg}, indexes={idx_arg}, windows={windows}, "
                f"span_normalise={span_normalise}, pair_normalise={pair_normalise}, time_windows={bins or 'nodes'})")
        ok, got = call(ctx, ts.pair_coalescence_counts, sets_arg, indexes=idx_arg, windows=windows,
                       span_normalise=span_normalise, pair_normalise=pair_normalise, time_windows=tw_arg)
        if not ok:
            if bins is not None and not any(bins[0] <= t_ < bins[-1] for t_ in times):
                ctx.count("coalescence:all-nodes-outside-time-windows-refused")
                continue
            unexpected_error(cs, "pair_coalescence_counts", what, got)
            continue
        got = np.asarray(got, dtype=float)
        exps = []
        for count_ancestral in (False, True):  # E8
            raw, edge_span = ref.pair_coalescence_counts(sets, idx_list, windows, count_ancestral)
            if bins is not None:
                nb = len(bins) - 1
                binned = np.zeros(raw.shape[:2] + (nb,))
                for u in range(ref.N):
                    t_ = ref.m.time(u)
                    for b in range(nb):
                        if bins[b] <= t_ < bins[b + 1]:  # time window [a, b)
                            binned[:, :, b] += raw[:, :, u]
                raw = binned
            exp = raw.copy()
            for w in range(exp.shape[0]):
                for i, (j, k_) in enumerate(idx_list):
                    den = 1.0
                    if span_normalise:
                        den *= edge_span[w]  # "span of non-missing sequence in the window"
                    if pair_normalise:
                        den *= (len(sets[j]) * (len(sets[j]) - 1) / 2) if j == k_ else len(sets[j]) * len(sets[k_])
                    exp[w, i] = exp[w, i] / den if den != 0 else 0.0
            if idx_arg is None:
                exp = exp[:, 0]
            if windows is None:
                exp = exp[0]
            exps.append(exp)
        ctx.feature(f"coalescence:span={int(span_normalise)},pair={int(pair_normalise)},bins={int(bins is not None)}")
        if not np.array_equal(exps[0], exps[1]):
            ctx.feature("coalescence:ancestral-pairs-present")
        key = "pair_coalescence_counts/mrca-enumeration"
        if span_normalise and any(not t.has_edges for t in ref.trees):
            key = "pair_coalescence_counts/missing-span-normalisation"
        tol = 1e-9 * (np.abs(exps[1]).max() if exps[1].size else 0) + ATOL
        exp = exps[0]
        if got.shape == exps[1].shape and mismatch(got, exps[1], tol) is None:
            exp = exps[1]
        cs.check("pair_coalescence_counts", key, got, exp, tol, what)


# ---------------------------------------------------------------------------------------- family: ld


def gen_infinite_sites(rng, max_sites=8, big=False):
    """Topology + sites carrying exactly one non-silent mutation each (what LdCalculator supports).
    big: sample counts around the 32/64-bit word boundaries of the two-locus bit arrays."""
    m = None
    for attempt in range(20):
        if big:
            m = gen.gen_topology(rng, n=rng.choice([31, 32, 33, 34, 63, 64, 65, 66, 70, 127, 128, 129, 130, 255, 256, 257]),
                                 max_bp=2,
                                 sample_mode=rng.choice(["all", "any", "young"]), gaps=False)
        else:
            m = gen.gen_topology(rng, max_nodes=9, max_bp=4, sample_mode="all" if attempt > 3 else None,
                                 gaps=rng.random() < 0.3)
        if len(m.samples()) >= 2:
            break
    ns = rng.randint(2, max_sites)
    cand = [k * m.L / 32 for k in range(32)]
    rng.shuffle(cand)
    sites, muts = [], []
    for j, pos in enumerate(sorted(cand[:ns])):
        sites.append((pos, "A", b""))
        muts.append((j, rng.randrange(m.num_nodes), rng.choice(["C", "G", "T"]), NULL, None, b""))
    m.sites, m.mutations = sites, muts
    return m


def fam_ld(case, ctx, rng):
    r = rng.random()
    if r < 0.12:
        m = gen_infinite_sites(rng, max_sites=6, big=True)
        ctx.feature("ld:many-samples")
    elif r < 0.65:
        m = gen_infinite_sites(rng)
    else:
        m = gen_model(rng, max_sites=7)
    cs = Case(m, ctx)
    ts, ref = cs.ts, cs.ref
    ctx.sig(("C08", "ld", m.signature()), nontrivial=len(m.sites) >= 2)
    S = len(ref.sites)
    if S == 0:
        return
    # r2 is only documented for the classical biallelic case: one non-silent mutation at the site
    biallelic = [len(sx["alleles"]) == 2 and sx["nmut"] == 1 for sx in ref.sites]
    infinite = all(sx["nmut"] == 1 and len(sx["alleles"]) == 2 for sx in ref.sites)

    def r2_ref(j, k, idx=None):
        D, den = ref.biallelic_r2(j, k, idx)
        return (D * D / den) if den > 1e-12 else None

    # ---- ld_matrix: r2 and the other classical two-locus statistics of the derived alleles of biallelic
    # sites (D = p_AB - p_A p_B, D2 = D^2, r = D / sqrt(p_A q_A p_B q_B), Dz = D (1-2p_A)(1-2p_B),
    # pi2 = p_A q_A p_B q_B); D_prime and the *_unbiased variants have no documented weighting and are not checked
    def two_locus(stat, j, k, idx):
        D, den = ref.biallelic_r2(j, k, idx)
        sj, sk = ref.sites[j], ref.sites[k]
        ii = range(ref.n) if idx is None else idx
        pa = sum(1 for i in ii if sj["geno"][i] != 0) / len(ii)
        pb = sum(1 for i in ii if sk["geno"][i] != 0) / len(ii)
        if stat == "r2":
            return (D * D / den) if den > 1e-12 else None
        if stat == "r":
            return (D / math.sqrt(den)) if den > 1e-12 else None
        if stat == "D":
            return D
        if stat == "D2":
            return D * D
        if stat == "Dz":
            return D * (1 - 2 * pa) * (1 - 2 * pb)
        if stat == "pi2":
            return den
        raise KeyError(stat)

    for rep in range(3):
        stat = rng.choice(["r2", "r2", "D", "D2", "r", "Dz", "pi2"])
        r = rng.random()
        if r < 0.4:
            sets_arg, sets = None, [list(ref.samples)]
        elif r < 0.7:
            sets = rand_sample_sets(rng, ref.samples, k=1)
            sets_arg = sets[0]
        else:
            sets = rand_sample_sets(rng, ref.samples, k=rng.randint(1, 3))
            sets_arg = sets
        if rng.random() < 0.5:
            sites_arg, rows, cols = None, list(range(S)), list(range(S))
        elif rng.random() < 0.5:
            rows = sorted(rng.sample(range(S), rng.randint(1, S)))
            cols = rows
            sites_arg = [rows]
        else:
            rows = sorted(rng.sample(range(S), rng.randint(1, S)))
            cols = sorted(rng.sample(range(S), rng.randint(1, S)))
            sites_arg = [rows, cols]
        if sites_arg is not None:
            # documented containers: "a list of lists, tuples, or ndarrays"
            # (a 64-bit index array is refused with a TypeError - an error, not a wrong value: not generated)
            sform = rng.choice(["list", "tuple", "np.int32"])
            ctx.feature(f"ld_matrix:sites={sform}")
            conv = {"list": list, "tuple": tuple, "np.int32": lambda a: np.array(a, dtype=np.int32)}[sform]
            sites_arg = [conv(a) for a in sites_arg]
        what = f"ld_matrix(sample_sets={sets_arg}, sites={sites_arg}, stat={stat!r})"
        if stat == "r2" and rng.random() < 0.5:
            ctx.feature("ld_matrix:default-stat")  # documented defaults stat="r2", mode="site" left out
            ok, got = call(ctx, ts.ld_matrix, sets_arg, sites_arg)
        else:
            ok, got = call(ctx, ts.ld_matrix, sets_arg, sites=sites_arg, stat=stat, mode="site")
        if not ok:
            unexpected_error(cs, "ld_matrix", what, got)
            continue
        got = np.asarray(got, dtype=float)
        shape = (len(rows), len(cols)) if not isinstance(sets_arg, list) or not isinstance(sets_arg[0], list) \
            else (len(sets), len(rows), len(cols))
        ctx.count("ld_matrix:r2" if stat == "r2" else "ld_matrix:other-stats")
        ctx.feature(f"ld_matrix:{stat}")
        if got.shape != shape:
            ctx.violation("ld_matrix/shape", f"{what}: shape {got.shape} expected {shape}", cs.detail())
            continue
        g3 = got.reshape((len(sets), len(rows), len(cols)))
        compared = 0
        for si, A in enumerate(sets):
            idx = [ref.sidx[u] for u in A]
            for a, j in enumerate(rows):
                for b, k in enumerate(cols):
                    if not (biallelic[j] and biallelic[k]):
                        continue  # multi-allelic weighting is not documented
                    e = two_locus(stat, j, k, idx)
                    if e is None:
                        continue  # E6: monomorphic in the sample set
                    compared += 1
                    if not (abs(g3[si, a, b] - e) <= 1e-9):
                        ctx.violation(f"ld_matrix/{stat}-definition",
                                      f"{what}: {stat}(site {j}, site {k}) in set {A} = {g3[si, a, b]!r} expected {e!r}",
                                      cs.detail())
                        break
        ctx.count("ld_matrix:entries-compared", compared)
    # ---- LdCalculator
    if not infinite:
        return
    try:
        ldc = tskit.LdCalculator(ts)
    except Exception as e:
        unexpected_error(cs, "LdCalculator", "LdCalculator(ts)", e)
        return
    alias = rng.random() < 0.4  # deprecated aliases get_r2 / get_r2_array / get_r2_matrix
    if alias:
        ctx.feature("ldcalc:deprecated-aliases")
    ok, M = call(ctx, ldc.get_r2_matrix if alias else ldc.r2_matrix)
    if not ok:
        unexpected_error(cs, "LdCalculator", "r2_matrix()", M)
        return
    ctx.count("ldcalc:r2_matrix")
    bad = None
    for j in range(S):
        for k in range(S):
            e = 1.0 if j == k else r2_ref(j, k)
            if e is None:
                continue
            ctx.count("ldcalc:entries-compared")
            if not abs(M[j, k] - e) <= 1e-9:
                bad = (j, k, M[j, k], e)
    if bad:
        ctx.violation("LdCalculator/r2_matrix-definition",
                      f"r2_matrix()[{bad[0]},{bad[1]}] = {bad[2]!r} expected {bad[3]!r}", cs.detail())
    pos = [sx["pos"] for sx in ref.sites]
    for rep in range(4):
        a = rng.randrange(S)
        direction = rng.choice([tskit.FORWARD, tskit.REVERSE])
        others = list(range(a + 1, S)) if direction == tskit.FORWARD else list(range(a - 1, -1, -1))
        kw = {"direction": direction}
        lim = len(others)
        if rng.random() < 0.5:
            ms = rng.randint(0, S)
            kw["max_sites" if rng.random() < 0.7 else "max_mutations"] = ms
            lim = min(lim, ms)
        if rng.random() < 0.5:
            if others and rng.random() < 0.5:
                # EXACTLY the distance to one of the other sites: "the maximum absolute distance between the focal
                # sites and those for which r2 values are returned" - a site at that distance is within the maximum
                md = abs(pos[rng.choice(others)] - pos[a])
                ctx.feature("ldcalc:max_distance-equals-a-site-distance")
            else:
                md = rng.randint(0, 32) * ref.L / 32 + ref.L / 128  # never equal to a distance between sites
            kw["max_distance"] = md
            n_in = 0
            for b in others:  # the walk stops at the first site beyond the maximum
                if abs(pos[b] - pos[a]) <= md:
                    n_in += 1
                else:
                    break
            lim = min(lim, n_in)
        what = f"LdCalculator.{'get_' if alias else ''}r2_array({a}, {kw})"
        if alias and "max_sites" in kw:
            kw["max_mutations"] = kw.pop("max_sites")  # the alias only has the deprecated spelling
        ok, arr = call(ctx, ldc.get_r2_array if alias else ldc.r2_array, a, **kw)
        if not ok:
            unexpected_error(cs, "LdCalculator", what, arr)
            continue
        ctx.count("ldcalc:r2_array")
        if len(arr) != lim:
            ctx.violation("LdCalculator/r2_array-extent", f"{what} returned {len(arr)} values, expected {lim}",
                          cs.detail())
            continue
        for x, b in zip(arr, others):
            e = r2_ref(a, b)
            if e is not None and not abs(x - e) <= 1e-9:
                ctx.violation("LdCalculator/r2-definition", f"{what}: value for site {b} = {x!r} expected {e!r}",
                              cs.detail())
                break
        # single value
        b = rng.randrange(S)
        ok, x = call(ctx, ldc.get_r2 if alias else ldc.r2, a, b)
        e = r2_ref(a, b)
        if ok and e is not None:
            ctx.count("ldcalc:r2")
            if not abs(x - e) <= 1e-9:
                # r2(a, b) seeks from the tree of a to the tree of b with tracked samples set; with internal
                # samples this exposes the stale tracked counts of D13 (tsk_tree_clear)
                key = "LdCalculator/r2/stale-tracked-count-after-seek" if "internal-sample" in cs.tags \
                    else "LdCalculator/r2-definition"
                ctx.violation(key, f"r2({a},{b}) = {x!r} expected {e!r}", cs.detail())


fam_ld.own_input = True

# ---------------------------------------------------------------------------------------- family: meta


def additive_stat_thunks(cs, rng):
    """(name, fn(windows, span_normalise) -> array with windows on axis 0) for the sum-type statistics."""
    ts, ref = cs.ts, cs.ref
    n = ref.n
    mode = rng.choice(["site", "branch", "node"])
    mode2 = rng.choice(["site", "branch"])
    sets4 = rand_sample_sets(rng, ref.samples, k=4, max_size=4)
    dsets = rand_sample_sets(rng, ref.samples, k=rng.randint(1, 3), disjoint=True)
    W = rand_weights(rng, n, 2)
    Wc = rand_weights(rng, n, 1, kind="signed")
    if np.std(Wc) == 0:
        Wc[0, 0] += 1.0
    f = poly_f(rng, 2, 2)
    pol = rng.random() < 0.5
    idx2 = rand_indexes(rng, 4, 2, maxn=4)
    idx3 = rand_indexes(rng, 4, 3, maxn=3)
    idx4 = rand_indexes(rng, 4, 4, maxn=3)
    out = [
        (f"diversity[{mode}]", lambda w, sn: ts.diversity(sets4, windows=w, mode=mode, span_normalise=sn)),
        (f"segregating_sites[{mode}]",
         lambda w, sn: ts.segregating_sites(sets4, windows=w, mode=mode, span_normalise=sn)),
        (f"Y1[{mode}]", lambda w, sn: ts.Y1(sets4, windows=w, mode=mode, span_normalise=sn)),
        (f"divergence[{mode}]", lambda w, sn: ts.divergence(sets4, indexes=idx2, windows=w, mode=mode,
                                                            span_normalise=sn)),
        (f"Y2[{mode}]", lambda w, sn: ts.Y2(sets4, indexes=idx2, windows=w, mode=mode, span_normalise=sn)),
        (f"f2[{mode}]", lambda w, sn: ts.f2(sets4, indexes=idx2, windows=w, mode=mode, span_normalise=sn)),
        (f"Y3[{mode}]", lambda w, sn: ts.Y3(sets4, indexes=idx3, windows=w, mode=mode, span_normalise=sn)),
        (f"f3[{mode}]", lambda w, sn: ts.f3(sets4, indexes=idx3, windows=w, mode=mode, span_normalise=sn)),
        (f"f4[{mode}]", lambda w, sn: ts.f4(sets4, indexes=idx4, windows=w, mode=mode, span_normalise=sn)),
        (f"genetic_relatedness[{mode},pol={pol}]",
         lambda w, sn: ts.genetic_relatedness(sets4, indexes=idx2, windows=w, mode=mode, span_normalise=sn,
                                              polarised=pol, proportion=False, centre=rng_centre)),
        (f"genetic_relatedness_weighted[{mode}]",
         lambda w, sn: ts.genetic_relatedness_weighted(W, indexes=[(0, 1), (0, 0)], windows=w, mode=mode,
                                                       span_normalise=sn, polarised=pol, centre=rng_centre)),
        (f"general_stat[{mode},pol={pol}]",
         lambda w, sn: ts.general_stat(W, f, 2, windows=w, mode=mode, span_normalise=sn, polarised=pol,
                                       strict=False)),
        (f"trait_covariance[{mode}]", lambda w, sn: ts.trait_covariance(Wc, windows=w, mode=mode, span_normalise=sn)),
        (f"trait_correlation[{mode}]",
         lambda w, sn: ts.trait_correlation(Wc, windows=w, mode=mode, span_normalise=sn)),
        (f"trait_linear_model[{mode}]",
         lambda w, sn: ts.trait_linear_model(Wc, windows=w, mode=mode, span_normalise=sn)),
        (f"allele_frequency_spectrum[{mode2},pol={pol}]",
         lambda w, sn: ts.allele_frequency_spectrum(dsets, windows=w, mode=mode2, span_normalise=sn, polarised=pol)),
        (f"divergence_matrix[{mode2}]",
         lambda w, sn: ts.divergence_matrix(dsets, windows=w, mode=mode2, span_normalise=sn)),
        (f"genetic_relatedness_matrix[{mode2}]",
         lambda w, sn: ts.genetic_relatedness_matrix(dsets, windows=w, mode=mode2, span_normalise=sn)),
        ("genetic_relatedness_vector[branch]",
         lambda w, sn: ts.genetic_relatedness_vector(W, windows=w, mode="branch", span_normalise=sn, centre=rng_centre)),
        ("pair_coalescence_counts",
         lambda w, sn: ts.pair_coalescence_counts(dsets, indexes=[(0, 0)], windows=w, span_normalise=False)
         if sn is False else None),
    ]
    rng_centre = rng.random() < 0.5
    return out


def fam_meta(cs, rng):
    """(3) For a refinement of a window list the span-weighted recombination of the finer results equals
    the coarser result; 'trees' / 'sites' / None equal their documented explicit lists."""
    ts, ref, ctx = cs.ts, cs.ref, cs.ctx
    thunks = additive_stat_thunks(cs, rng)
    rng.shuffle(thunks)
    L = ref.L
    for name, fn in thunks[:6]:
        sn = rng.random() < 0.5
        coarse = rand_windows(rng, ref, allow_special=False)
        pool = sorted(set([k * L / 64 for k in range(1, 64)] + ref.bps[1:-1] + [sx["pos"] for sx in ref.sites
                                                                               if 0 < sx["pos"] < L]))
        extra = rng.sample(pool, rng.randint(1, min(8, len(pool))))
        fine = sorted(set(coarse + extra))
        ok1, c = call(ctx, fn, coarse, sn)
        ok2, f_ = call(ctx, fn, fine, sn)
        if ok1 and c is None:
            continue
        what = f"{name}(span_normalise={sn}) coarse windows {coarse} vs refinement {fine}"
        if not (ok1 and ok2):
            unexpected_error(cs, f"refinement/{name.split('[')[0]}", what, c if not ok1 else f_)
            continue
        c = np.asarray(c, dtype=float)
        f_ = np.asarray(f_, dtype=float)
        comb = np.zeros_like(c)
        mag = np.zeros_like(c)
        nanmask = np.zeros(c.shape, dtype=bool)
        for i in range(len(coarse) - 1):
            for j in range(len(fine) - 1):
                if coarse[i] <= fine[j] and fine[j + 1] <= coarse[i + 1]:
                    wgt = (fine[j + 1] - fine[j]) / (coarse[i + 1] - coarse[i]) if sn else 1.0
                    nanmask[i] |= ~np.isfinite(f_[j])
                    comb[i] += wgt * np.nan_to_num(f_[j])
                    mag[i] += np.abs(wgt * np.nan_to_num(f_[j]))
        nanmask |= ~np.isfinite(c)  # E1: nan entries are not subject to the additive law
        ctx.count("refinement:entries-skipped-nan", int(nanmask.sum()))
        peak = float(np.max(np.abs(np.nan_to_num(f_)))) if f_.size else 0.0
        tol = 1e-9 * (mag + np.abs(np.nan_to_num(c))) + 1e-10 * peak * (L if not sn else 1.0) * 64 + ATOL
        ctx.feature("refinement:" + name.split("[")[0])
        cs.check("refinement", f"refinement/{name.split('[')[0]}", np.where(nanmask, 0, c), np.where(nanmask, 0, comb),
                 tol, what)
    # documented window shortcuts
    for name, fn in thunks[6:9]:
        sn = rng.random() < 0.5
        for short, explicit in (("trees", list(ref.bps)), ("sites", ref.parse_windows("sites")), (None, [0.0, L])):
            if short is not None and name == "pair_coalescence_counts":
                continue  # documented for a list of breakpoints or None only
            ok1, a = call(ctx, fn, short, sn)
            ok2, b = call(ctx, fn, explicit, sn)
            if ok1 and a is None:
                continue
            what = f"{name}(span_normalise={sn}) windows={short!r} vs explicit {explicit}"
            if not (ok1 and ok2):
                unexpected_error(cs, f"window-shortcut/{short}", what, a if not ok1 else b)
                continue
            a, b = np.asarray(a, dtype=float), np.asarray(b, dtype=float)
            if short is None:
                b = b[0]
            ctx.count("window-shortcuts")
            bad = mismatch(a, b, 0.0)
            if bad is not None:
                ctx.violation(f"window-shortcut/{short}", f"{what}: {_fmt(a)} vs {_fmt(b)}", cs.detail())


# ---------------------------------------------------------------------------------------- family: threads

THREAD_COUNTS = [0, 1, 2, 3, 7, 16]


def fam_threads(case, ctx, rng):
    """(4a) num_threads fan-out of divergence_matrix / genetic_relatedness_matrix (by tree without windows,
    by window with windows) and of genealogical_nearest_neighbours equals the single-threaded result and the
    reference; (4b) Python threads calling the GIL-releasing methods concurrently on one shared tree
    sequence obtain the single-threaded results."""
    m = gen_model(rng, max_nodes=12, max_bp=10, max_sites=8)
    cs = Case(m, ctx)
    ts, ref = cs.ts, cs.ref
    ctx.sig(("C08", "threads", m.signature()), nontrivial=len(m.edges) > 0)
    for rep in range(2):
        mode = rng.choice(["site", "branch"])
        span_normalise = rng.random() < 0.5
        partial = rng.random() < 0.35
        if partial:
            # windows that do not span the sequence, very often a SINGLE partial window: the threaded dispatch chooses
            # between chunking by tree and by window from the window specification
            windows = rand_partial_windows(rng, ref)
            if rng.random() < 0.6:
                windows = windows[:2]
        else:
            windows = None if rng.random() < 0.4 else rand_windows(rng, ref, allow_special=rng.random() < 0.3)
        arg, sets = rand_matrix_sets(rng, ref)
        exp = ref.divergence_matrix(sets, windows, mode, span_normalise)
        if windows is None:
            exp = exp[0]
        scale = (np.nanmax(np.abs(exp)) if exp.size else 0.0)
        listarg = arg is None or isinstance(arg[0], list)
        base = {}
        for nt in THREAD_COUNTS:
            for meth in ("divergence_matrix", "genetic_relatedness_matrix"):
                if meth == "genetic_relatedness_matrix" and (not listarg or partial):
                    continue
                what = (f"{meth}(sample_sets={arg}, windows={windows}, mode={mode}, span_normalise={span_normalise}, "
                        f"num_threads={nt})")
                ok, got = call(ctx, getattr(ts, meth), arg, windows=windows, mode=mode, span_normalise=span_normalise,
                               num_threads=nt)
                if not ok:
                    unexpected_error(cs, f"threads/{meth}", what, got)
                    continue
                got = np.asarray(got, dtype=float)
                ctx.feature(f"threads:{meth},num_threads={nt},{'by-window' if windows is not None else 'by-tree'}")
                if nt == 0:
                    base[meth] = got
                    continue
                if meth in base:
                    chunking = "by-window" if windows is not None else "by-tree"
                    cs.check("threads:num_threads", f"threads/{meth}/{chunking}-differs-from-single-thread", got,
                             base[meth], 1e-11 * scale + 1e-13, what + " vs num_threads=0")
                if meth == "divergence_matrix":
                    e = exp.copy()
                    for i, A in enumerate(sets):  # E5
                        if len(A) == 1 and got.shape == e.shape:
                            gi = got[..., i, i]
                            e[..., i, i] = np.where(np.isnan(gi), gi, e[..., i, i])
                    cs.check("threads:vs-reference", f"threads/{meth}/differs-from-definition", got, e,
                             1e-9 * scale + ATOL, what)
    # GNN fan-out over focal nodes
    sets = rand_node_sets(rng, ref)
    focal = [rng.randrange(ref.N) for _ in range(rng.randint(1, 9))]
    exp = None
    for nt in THREAD_COUNTS:
        exp = check_gnn(cs, focal, sets, num_threads=nt, monitor="gnn" if nt == 0 else "threads:gnn", exp=exp)
        if exp is None:
            break
    # (4b) concurrent callers on a larger shared tree sequence
    if case["k"] % 3 == 0:
        from lib.props import c08_threads as T
        big = make_big_ts(rng)
        job_list = T.jobs(big, rng.randrange(1 << 30))
        expected = T.run_single(job_list)
        for e in expected:
            if isinstance(e, T.JobError):
                ctx.violation("threads/single-threaded-call-raised", e.text, {"case": case})
        nthreads = rng.choice([2, 4, 8])
        reps = 2
        calls, mism, errors = T.run_concurrent(job_list, expected, nthreads, reps)
        ctx.count("threads:concurrent-calls", calls)
        ctx.count("threads:concurrent-runs")
        ctx.count("threads:threads-x-repetitions", nthreads * reps)
        for e in errors:
            ctx.violation("threads/concurrent-call-raised", e, {"seed_case": case})
        for mm in mism[:3]:
            ctx.violation(f"threads/concurrent-result-differs/{mm['method']}",
                          f"{mm['method']}({mm['config']}) in thread {mm['thread']} rep {mm['rep']} returned "
                          f"{str(mm.get('got'))[:300]} but single-threaded {str(mm.get('expected'))[:300]}",
                          {"case": case})


fam_threads.own_input = True


def make_big_ts(rng, n=None):
    """A moderately large simulated tree sequence so that GIL-released calls overlap in time."""
    import msprime

    n = n or rng.choice([8, 12, 20])
    seed = rng.randrange(1, 1 << 30)
    ts = msprime.sim_ancestry(n, ploidy=1, sequence_length=200, recombination_rate=0.02, random_seed=seed)
    ts = msprime.sim_mutations(ts, rate=0.01, random_seed=seed)
    return ts


def parse_tsan(text):
    """TSan report blocks that have a frame inside _tskit, de-duplicated by the pair of innermost tskit
    function names of the two stacks."""
    import re

    blocks = re.split(r"(?m)^={18}\n", text)
    total = 0
    found = {}
    for b in blocks:
        if "WARNING: ThreadSanitizer" not in b:
            continue
        total += 1
        if "_tskit" not in b and "/c/tskit/" not in b and "_tskitmodule" not in b:
            continue
        kind = re.search(r"WARNING: ThreadSanitizer: ([^\(\n]+)", b).group(1).strip()
        fns = []
        for stack in re.split(r"\n\s*\n", b):
            fm = re.findall(r"#\d+ (\w+) [^\n]*(?:/c/tskit/|_tskitmodule\.c|_tskit\.)", stack)
            if fm:
                fns.append(fm[0])
        key = (kind.replace(" ", "-"),) + tuple(sorted(set(fns[:2])))
        found.setdefault(key, b[:3000])
    return total, found


def fam_tsan(case, ctx, rng):
    """(4c) the concurrent workload on the ThreadSanitizer build (subprocess under the pylaunch launcher)."""
    import json as _json
    import subprocess
    import tempfile

    tsandir = os.environ.get("VERIF_BUILD_TSAN")
    if not tsandir or not os.path.exists(os.path.join(tsandir, "pylaunch")):
        ctx.count("tsan:skipped-no-build")
        return
    import build as B

    big = make_big_ts(rng)
    ctx.sig(("C08", "tsan", case["k"], big.num_trees, big.num_sites))
    reps = 5 if case.get("tier") == "quick" else 12
    nthreads = rng.choice([4, 8, 16])
    seed = rng.randrange(1 << 30)
    env = B.run_env("tsan", tsandir, os.environ["VERIF_REPO"])
    for k_ in ("LD_PRELOAD", "ASAN_OPTIONS", "UBSAN_OPTIONS"):
        env.pop(k_, None)
    env["VERIF_BUILDDIR"] = tsandir
    with tempfile.TemporaryDirectory(prefix="c08-tsan-") as td:
        path = os.path.join(td, "in.trees")
        big.dump(path)
        script = os.path.join(os.path.dirname(os.path.abspath(__file__)), "c08_threads.py")
        cmd = [os.path.join(tsandir, "pylaunch"), script, path, str(seed), str(nthreads), str(reps)]
        try:
            r = subprocess.run(cmd, env=env, capture_output=True, text=True, timeout=300)
        except subprocess.TimeoutExpired:
            ctx.count("tsan:timeouts")
            return
    out = None
    for line in r.stdout.splitlines():
        if line.startswith("{"):
            try:
                out = _json.loads(line)
            except ValueError:
                pass
    if out is None or r.returncode not in (0, 66):
        ctx.count("tsan:failed-runs")
        ctx.violation("HARNESS-ERROR", f"TSan run failed rc={r.returncode}: {r.stderr[-1500:]}", {"case": case})
        return
    repo = os.path.realpath(os.environ["VERIF_REPO"])
    if not os.path.realpath(out["tskit"]).startswith(repo + "/"):
        ctx.violation("HARNESS-ERROR", f"TSan run imported {out['tskit']}", {"case": case})
        return
    total, found = parse_tsan(r.stderr)
    ctx.count("tsan:runs")
    ctx.count("tsan:threads-x-repetitions", nthreads * reps)
    ctx.count("tsan:calls", out["calls"])
    ctx.count("tsan:reports-seen", total)
    ctx.count("tsan:reports-with-tskit-frame", len(found))
    for c in out["configs"]:
        ctx.feature("tsan-config:" + c)
    for key, text in found.items():
        ctx.violation("threads/tsan/" + "/".join(key), f"ThreadSanitizer report with a _tskit frame "
                      f"({nthreads} threads x {reps} repetitions):\n{text}", {"case": case})
    for e in out["errors"]:
        ctx.violation("threads/concurrent-call-raised", "under TSan: " + e, {"case": case})
    for mm in out["mismatches"][:3]:
        ctx.violation(f"threads/concurrent-result-differs/{mm['method']}",
                      f"under TSan: {mm['method']}({mm['config']}) thread {mm['thread']} rep {mm['rep']} returned "
                      f"{str(mm.get('got'))[:300]} but single-threaded {str(mm.get('expected'))[:300]}",
                      {"case": case})


fam_tsan.own_input = True

# ---------------------------------------------------------------------------------------- family: msprime


def fam_msprime(case, ctx, rng):
    """Tolerance-only input class: simulated tree sequences with arbitrary double coordinates and times,
    pushed through the same oracles (all tolerances are relative to the magnitude of the summed terms)."""
    import msprime

    from lib.tsk import from_tables

    seed = rng.randrange(1, 1 << 30)
    n = rng.randint(3, 7)
    discrete = rng.random() < 0.3
    ts = msprime.sim_ancestry(n, ploidy=1, sequence_length=10, recombination_rate=rng.choice([0.05, 0.15]),
                              random_seed=seed, discrete_genome=discrete)
    ts = msprime.sim_mutations(ts, rate=rng.choice([0.02, 0.1]), random_seed=seed, discrete_genome=discrete)
    m = from_tables(ts.dump_tables())
    m.schemas = {}
    m.metadata_schema = ""
    m.provenances = []
    if len(m.sites) > 10:
        # keep the reference cheap: drop sites beyond the first ten (with their mutations)
        keep = 10
        m.sites = m.sites[:keep]
        muts = [x for x in m.mutations if x[0] < keep]
        old = [k for k, x in enumerate(m.mutations) if x[0] < keep]
        remap = {o: i for i, o in enumerate(old)}
        m.mutations = [(a, b, c, remap.get(d, NULL), e, f) for a, b, c, d, e, f in muts]
    m.populations = []
    m.individuals = []
    m.nodes = [(f, t, NULL, NULL, b"") for f, t, _, _, _ in m.nodes]
    cs = Case(m, ctx)
    ctx.sig(("C08", "msprime", m.signature()))
    ctx.feature("msprime:" + ("discrete" if discrete else "continuous"))
    fn = rng.choice([fam_general, fam_named, fam_named, fam_afs, fam_matrix, fam_topo, fam_meta, fam_trait,
                     WIDE.fam_forms, WIDE.fam_forms])
    ctx.count("msprime-inputs")
    fn(cs, rng)


fam_msprime.own_input = True

# ---------------------------------------------------------------------------------------- family: dist


def gen_coalescent_pair(rng):
    """Two tree sequences over the same sample nodes 0..n-1 whose trees all have a single root and no
    unary nodes (what kc_distance / rf_distance require); multifurcations allowed; with one tree per
    sequence an internal node may be a sample in both."""
    n = rng.randint(2, 6)
    L = rng.choice([4.0, 8.0, 16.0])
    single = rng.random() < 0.3
    out = []
    extra_sample = single and rng.random() < 0.5 and n >= 3
    for which in range(2):
        m = RowModel(L)
        leaf_times = [0.0 if rng.random() < 0.8 else rng.randint(0, 2) / 2 for _ in range(n)] if which == 0 else None
        if which == 1:
            leaf_times = [out[0].nodes[u][1] for u in range(n)]
        m.nodes = [(NODE_IS_SAMPLE, leaf_times[u], NULL, NULL, b"") for u in range(n)]
        nb = 0 if single else rng.randint(0, 2)
        pts = sorted(rng.sample([k * L / 8 for k in range(1, 8)], nb))
        bounds = [0.0] + pts + [L]
        edges = []
        for l, r in zip(bounds[:-1], bounds[1:]):
            lineages = list(range(n))
            t = max(leaf_times)
            first = True
            while len(lineages) > 1:
                kk = min(len(lineages), rng.choice([2, 2, 2, 3]))
                ch = rng.sample(lineages, kk)
                t += rng.randint(1, 4) / 2
                p_ = len(m.nodes)
                flags = NODE_IS_SAMPLE if (extra_sample and first and len(lineages) > kk) else 0
                first = False
                m.nodes.append((flags, t, NULL, NULL, b""))
                for c in ch:
                    edges.append((l, r, p_, c, b""))
                    lineages.remove(c)
                lineages.append(p_)
        m.edges = sorted(edges, key=lambda e: (m.nodes[e[2]][1], e[2], e[3], e[0]))
        out.append(m)
    if out[0].samples() != out[1].samples():
        # the extra internal sample must be the same node id in both sequences; otherwise drop it
        for m in out:
            m.nodes = [((f & ~NODE_IS_SAMPLE) if u >= n else f, t, p_, i, md) for u, (f, t, p_, i, md) in enumerate(m.nodes)]
    return out


def kc_vectors(ref, t):
    """Kendall & Colijn (2016): m = (edges from the root to the MRCA of each sample pair, then 1 per sample),
    M = (time from the root to the MRCA of each pair, then the branch length above each sample)."""
    fr = t.fr
    samples = ref.samples
    roots = [u for u in set(fr.parent.values()) | set(fr.parent) if u not in fr.parent]
    root = roots[0]
    mvec, Mvec = [], []
    for a, b in itertools.combinations(samples, 2):
        mr = fr.mrca(a, b)
        mvec.append(float(fr.depth(mr)))
        Mvec.append(ref.m.time(root) - ref.m.time(mr))
    for u in samples:
        mvec.append(1.0)
        Mvec.append(fr.branch_length(u))
    return np.array(mvec), np.array(Mvec)


def fam_dist(case, ctx, rng):
    m1, m2 = gen_coalescent_pair(rng)
    cs1, cs2 = Case(m1, ctx), Case(m2, ctx)
    ts1, ts2, r1, r2 = cs1.ts, cs2.ts, cs1.ref, cs2.ref
    ctx.sig(("C08", "dist", m1.signature(), m2.signature()))
    det = {"model1": m1.to_json(), "model2": m2.to_json()}
    lams = [0.0, 1.0, rng.randint(1, 7) / 8]
    if any(t.fr.kids(u) for r_ in (r1, r2) for t in r_.trees for u in r_.samples):
        # E9: how a pair (internal sample, its descendant) enters the KC vectors is not documented
        # ("treated identically to sample tips"): KC is only checked on trees whose samples are all tips
        lams = []
        ctx.feature("dist:internal-sample-kc-skipped")
    total = {lam: 0.0 for lam in lams}
    # how the Tree objects are obtained: at_index | copies of the trees of the iterator | a Tree seeked to the index
    how = rng.choice(["at_index", "iterator-copy", "seek_index"])
    ctx.feature(f"dist:trees-from={how}")
    if how == "iterator-copy":
        trees1 = [t.copy() for t in ts1.trees(sample_lists=True)]
        trees2 = [t.copy() for t in ts2.trees(sample_lists=True)]
    for i, t1 in enumerate(r1.trees):
        for j, t2 in enumerate(r2.trees):
            lo, hi = max(t1.left, t2.left), min(t1.right, t2.right)
            v1, v2 = kc_vectors(r1, t1), kc_vectors(r2, t2)
            if how == "at_index":
                a, b = ts1.at_index(i, sample_lists=True), ts2.at_index(j, sample_lists=True)
            elif how == "iterator-copy":
                a, b = trees1[i], trees2[j]
            else:
                a, b = tskit.Tree(ts1, sample_lists=True), tskit.Tree(ts2, sample_lists=True)
                a.seek_index(i)
                b.seek_index(j)
            for lam in lams:
                e = float(np.sqrt((((1 - lam) * v1[0] + lam * v1[1] - (1 - lam) * v2[0] - lam * v2[1]) ** 2).sum()))
                if hi > lo:
                    total[lam] += e * (hi - lo) / r1.L
                r = rng.random()
                if lam == 0.0 and r < 0.5:
                    ctx.feature("dist:default-lambda")  # documented default lambda_=0.0
                    ok, got = call(ctx, a.kc_distance, b)
                elif r < 0.75:
                    ok, got = call(ctx, a.kc_distance, b, lambda_=lam)
                else:
                    ok, got = call(ctx, a.kc_distance, b, lam)
                ctx.count("kc_distance:tree")
                if not ok:
                    ctx.violation("kc_distance/unexpected-error", f"Tree.kc_distance(lambda={lam}) raised {got}", det)
                elif not abs(got - e) <= 1e-9 * (1 + abs(e)):
                    ctx.violation("kc_distance/tree-definition",
                                  f"Tree.kc_distance(tree {i}, tree {j}, lambda={lam}) = {got!r} expected {e!r}", det)
            # Robinson-Foulds: clades (sets of samples below a node) present in one tree only
            c1 = set(frozenset(t1.below[u]) for u in range(r1.N) if t1.fr.in_tree(u))
            c2 = set(frozenset(t2.below[u]) for u in range(r2.N) if t2.fr.in_tree(u))
            e = len(c1 ^ c2)
            ok, got = call(ctx, a.rf_distance, b)
            ctx.count("rf_distance")
            if not ok:
                ctx.violation("rf_distance/unexpected-error", f"Tree.rf_distance raised {got}", det)
            elif got != e:
                ctx.violation("rf_distance/clade-definition",
                              f"Tree.rf_distance(tree {i}, tree {j}) = {got!r} expected {e!r}", det)
    # two trees of the SAME tree sequence (and a tree against itself)
    if len(r1.trees) >= 2 and lams:
        i, j = rng.sample(range(len(r1.trees)), 2)
        if rng.random() < 0.2:
            j = i
        a, b = ts1.at_index(i, sample_lists=True), ts1.at_index(j, sample_lists=True)
        v1, v2 = kc_vectors(r1, r1.trees[i]), kc_vectors(r1, r1.trees[j])
        lam = rng.choice(lams)
        e = float(np.sqrt((((1 - lam) * v1[0] + lam * v1[1] - (1 - lam) * v2[0] - lam * v2[1]) ** 2).sum()))
        ok, got = call(ctx, a.kc_distance, b, lam)
        ctx.count("kc_distance:same-treeseq")
        if not ok:
            ctx.violation("kc_distance/unexpected-error", f"Tree.kc_distance(lambda={lam}) raised {got}", det)
        elif not abs(got - e) <= 1e-9 * (1 + abs(e)):
            ctx.violation("kc_distance/tree-definition",
                          f"Tree.kc_distance(tree {i}, tree {j} of the same tree sequence, lambda={lam}) = {got!r} "
                          f"expected {e!r}", det)
    for lam in lams:
        r = rng.random()
        if lam == 0.0 and r < 0.5:
            ok, got = call(ctx, ts1.kc_distance, ts2)
        elif r < 0.75:
            ok, got = call(ctx, ts1.kc_distance, ts2, lambda_=lam)
        else:
            ok, got = call(ctx, ts1.kc_distance, ts2, lam)
        ctx.count("kc_distance:treeseq")
        if not ok:
            ctx.violation("kc_distance/unexpected-error", f"TreeSequence.kc_distance(lambda={lam}) raised {got}", det)
        elif not abs(got - total[lam]) <= 1e-9 * (1 + abs(total[lam])):
            ctx.violation("kc_distance/treeseq-span-weighted-average",
                          f"TreeSequence.kc_distance(lambda={lam}) = {got!r} expected {total[lam]!r}", det)


    # documented: rf_distance raises ValueError if either tree has multiple roots (an isolated extra sample is a root)
    if case["k"] % 4 == 0:
        m3 = m1.copy()
        m3.nodes = list(m3.nodes) + [(NODE_IS_SAMPLE, 0.0, NULL, NULL, b"")]
        ts3 = to_ts(m3)
        t3 = ts3.first()
        for x, y, desc in ((t3, t3, "multi-root vs itself"), (ts1.first(), t3, "single-root vs multi-root"),
                           (t3, ts1.first(), "multi-root vs single-root")):
            ok, got = call(ctx, x.rf_distance, y)
            ctx.count("rf_distance:multi-root-refused")
            if ok:
                ctx.violation("rf_distance/multi-root-accepted", f"Tree.rf_distance({desc}) returned {got!r} instead "
                              f"of raising ValueError", det)
            elif not isinstance(got, ValueError):
                ctx.violation("rf_distance/multi-root-wrong-exception",
                              f"Tree.rf_distance({desc}) raised {type(got).__name__}: {got} (documented: ValueError)", det)


fam_dist.own_input = True

# ---------------------------------------------------------------------------------------- dispatch

from lib.props import c08_wide as WIDE  # noqa: E402  (uses the helpers above; imported last on purpose)

FAM_FUNCS = {"forms": WIDE.fam_forms, "coal": WIDE.fam_coal, "big": WIDE.fam_big, "general": fam_general, "named": fam_named, "afs": fam_afs, "matrix": fam_matrix, "trait": fam_trait, "topo": fam_topo, "ld": fam_ld, "meta": fam_meta, "threads": fam_threads, "tsan": fam_tsan, "msprime": fam_msprime, "dist": fam_dist, "d16-witness": fam_d16}


def run_case(case, ctx):
    rng = case_rng(case)
    fam = case["fam"]
    fn = FAM_FUNCS[fam]
    if getattr(fn, "own_input", False):
        fn(case, ctx, rng)
        return
    m = gen_model(rng)
    cs = Case(m, ctx)
    ctx.sig(("C08", fam, m.signature()), nontrivial=len(m.edges) > 0 or len(m.sites) > 0)
    if case["k"] < 1:
        ctx.sample({"case": case, "model": m.to_json()})
    fn(cs, rng)
