from lib.props.meta_common import ASSUME_COMMON

ID = "C15"
META = dict(
    LEVEL="exploration",
    RULE=("(a) exhaustive: every tree of all_trees(n) / all_tree_shapes(n) / all_tree_labellings and every "
          "(shape, label) rank of n <= 6 leaves (quick) / n <= 7 (thorough, 39 208 trees) is unranked, re-ranked "
          "and reduced to a canonical nested-tuple form computed from the edge rows; cardinalities are compared with "
          "independently computed counts (A000669 by Euler transform, n!/|Aut| labellings per shape, A000311); "
          "(b) big-integer ranks: uniform for 8 <= n <= 15/16, low shape ranks for n <= 60, rank-then-unrank of random "
          "root-capped topologies for n <= 28/32, each with out-of-range probes; (c) rank invariance on re-built copies of a topology (permuted internal ids, interleaved junk "
          "nodes, rescaled/perturbed times, polytomies) and on simplified msprime / forest-walk trees against a "
          "canonical-form -> rank table taken from the position in all_trees(k); (d) Tree.count_topologies and "
          "TreeSequence.count_topologies against brute-force enumeration of one sample per set on forest-walk and "
          "msprime tree sequences with leaf samples x random disjoint sample-set families (k <= 4); (e) audit families "
          "(lib/props/c15_ext.py): `life` = forests built from per-node state scripts (internal with set samples below / "
          "childless leaf / absent / root) with a forced focus script in every case (W A+ D, W A+ W, W D W, root A+ root, "
          "D A W), gaps, breakpoints that change nothing for the set samples, unsquashed edges, permuted ids, "
          "delete_intervals / keep_intervals / decapitate output, default sets by population incl. empty populations, "
          "each through two ways of reaching the trees, six spellings of sample_sets, ten of the counter key and four "
          "ways of consuming the incremental generator; `bigcount` = >= 256 children / depth 300-600 / 120-250 trees / "
          "40 x 40 sets / k = 5 by case index against a contraction + class-weight reference that is cross-checked with "
          "the plain brute force; `rforms` = 13 spellings of Tree.unrank, generator keyword / numpy forms, the Rank "
          "named tuple, rank() on trees reached in eleven ways, leaves renumbered order-preservingly with internal ids "
          "below leaf ids; `big` mode wide = root with 255-400 children; non-existent node ids incl. negative aliases "
          "of real samples must be refused by both count_topologies entry points. A case is "
          "distinct by (generator, parameters / sha1 of rows + sample sets) and non-trivial when it ranks at least "
          "one tree with >= 3 leaves or counts at least one combination of >= 2 sample sets."),
    REQUIRED=["unrank-rank-roundtrip", "all_trees-order", "labellings-per-shape", "out-of-range-probe",
              "rank-invariance", "rank-vs-table", "count-topologies-bruteforce", "count-topologies-incremental",
              "count-topologies-bruteforce:life", "count-topologies-incremental:life", "count-topologies-tree-sources",
              "topology-counter-key-forms", "count-topologies-rejects-invalid-id", "unrank-argument-forms",
              "rank-result-type", "rank-invariance:spread-leaf-ids", "rank-tree-sources"],
    ASSUMPTIONS=ASSUME_COMMON + [
        "the canonical form (min-label-sorted nested tuples from the edge rows) identifies leaf-labelled topologies",
        "OEIS A000669/A000311 values for n <= 7 are the number of series-reduced shapes / leaf-labelled trees",
        "random shape ranks are uniform only for n <= 15 (quick) / 16 (thorough): Combination.with_replacement_unrank "
        "is linear in each child's shape rank and rank()/unrank() walk all partitions of n, so uniform ranks for "
        "larger n do not terminate in practice (n = 25: 770 s for one unrank); larger n use low shape ranks or "
        "topologies whose non-root subtrees have <= 12/13 leaves",
        "reducing a tree to a superset of the chosen samples first (dropping sample-free branches, suppressing unary "
        "nodes) and exchanging same-set sibling leaves do not change the embedded topology (bigcount reference; "
        "cross-checked against the plain brute force on ~30 % of the life cases)",
        "a combination of sample-set indexes is unordered: TopologyCounter[i, j] and [j, i] name the same counter",
    ],
    BUDGET={"quick": 50.0, "thorough": 840.0},
    CASE_TIMEOUT={"quick": 180, "thorough": 900},
    EXHAUSTIVE={"quick": False, "thorough": False},
)
