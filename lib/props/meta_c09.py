from lib.props.meta_common import ASSUME_COMMON

ID = "C09"
META = dict(
    LEVEL="exploration",
    RULE=("(sweep) a typed catalogue of public Tree/TreeSequence/TableCollection/table/low-level calls; for each call each "
          "argument slot is set to every boundary/adversarial value of its type (ids -2,-1,0,n-1,n,n+1,2^31-1,2^31,2^63; "
          "positions -1,-0.0,0,L-eps,L,L+1,nan,+-inf; empty/duplicate/unsorted/wrong-length/wrong-dtype/2-D arrays; "
          "out-of-order, overlapping, NaN windows and intervals) with the other slots valid, on five input kinds, followed by a "
          "follow-up use of the same objects; (program) random 3-10 step table-operation programs on table collections "
          "corrupted by 1-3 operators (out-of-range ids per reference column, NaN/inf/out-of-range coordinates, shuffled rows, "
          "stale/out-of-range/truncated index, dangling individual parents); (oom) every tsk allocation of ~34 calls "
          "failed in turn through an LD_PRELOAD shim; (memcheck) slices of the sweep and program workloads repeated on the plain "
          "gcc -O2 build under valgrind memcheck with origin tracking, every returned value branched on or written to /dev/null, "
          "reports kept when the error or origin stack has a frame in tskit's C sources. Oracle: process status + ASan/UBSan log, SystemError, hang watchdog, and "
          "'must raise' for identifiers outside the documented range. Distinct = sha1 of (call, input kind, input rows) or "
          "(rows, corruption list); trivial when no corruption applied."),
    REQUIRED=["calls", "program-ops", "id-clause-checks", "followup-probes", "oom-injections", "memcheck:runs"],
    ASSUMPTIONS=ASSUME_COMMON + [
        "UBSan nonnull-attribute is disabled (memcpy(NULL, .., 0) on empty columns is treated as defined)",
        "a watchdog firing counts only after an isolated re-run with 5x the budget hangs again",
    ],
    HANG_IS_VIOLATION=True,
    BUDGET={"quick": 55.0, "thorough": 1200.0},
    CASE_TIMEOUT={"quick": 90, "thorough": 180},
    SHIM=True,
    EXTRA_VARIANTS=["plain"],
)
