from lib.props.meta_common import ASSUME_COMMON

ID = "C09"
META = dict(
    LEVEL="exploration",
    RULE=("(sweep) a typed catalogue of public Tree/TreeSequence/TableCollection/table/low-level calls; for each call each "
          "argument slot is set to every boundary/adversarial value of its type (ids -2,-1,0,n-1,n,n+1,2^31-1,2^31,2^63; "
          "positions -1,-0.0,0,L-eps,L,L+1,nan,+-inf; empty/duplicate/unsorted/wrong-length/wrong-dtype/2-D arrays; "
          "out-of-order, overlapping, NaN windows and intervals) with the other slots valid, on five input kinds, followed by a "
          "follow-up use of the same objects; the catalogue extension (c09_ext.py) adds the low-level accessors a user reaches "
          "through ll_tree_sequence / ll_table / _ll_tables (get_<record>, get_row, update_row, extend, sample_set_sizes, newick buffer "
          "size), integer row indexes and add_row id fields of all eight tables, every table column replaced by a malformed array "
          "through nine entry forms, tables/collections compared and merged with OTHER objects (other row count, other class, self), "
          "low-level objects never initialised / re-initialised / with deleted attributes, object lifetimes (arrays, trees, variants, "
          "segment lists, tables used after their owner is gone), id lists as tuple/range/narrow/byte-swapped/read-only arrays and "
          "huge ids that would wrap onto a valid id (2^32 + id), sample-set indexes at and beyond the number of sets, tree sequences "
          "accepted with WRONG mutation parents (input kind + dedicated site-algorithm entry), and one structurally extreme input "
          "(261 children of one node, 300-node unary chain, 261 samples); (program) random 3-10 step table-operation programs on table collections "
          "corrupted by 1-3 operators (out-of-range ids per reference column, NaN/inf/out-of-range coordinates, shuffled rows, "
          "stale/out-of-range/truncated index, dangling individual parents, and - audit - in-range but inconsistent ids, individual "
          "parent cycles, degenerate coordinates and times, duplicated rows, truncated referenced tables, changed sequence_length, "
          "node flags, an index that is stale for the same number of edges, > 64 KiB blobs, wrong mutation parents; operators that do "
          "not apply are re-drawn; later calls also merge with / compare against the pristine collection and query an accepted tree "
          "sequence); (bulk) 14 cases that grow each table class by 2^21+1 / 2*2^21+1000 rows (one entry by 100 MiB) in ONE operation "
          "through set_columns / append_columns / extend / fromdict / copy / dump+load / tree_sequence and read the rows back; "
          "(oom) every tsk allocation of ~34 calls "
          "failed in turn through an LD_PRELOAD shim; (memcheck) slices of the sweep and program workloads repeated on the plain "
          "gcc -O2 build under valgrind memcheck with origin tracking, every returned value branched on or written to /dev/null, "
          "reports kept when the error or origin stack has a frame in tskit's C sources. Oracle: process status + ASan/UBSan log, SystemError, hang watchdog, and "
          "'must raise' for identifiers outside the documented range, and (ASan workers) no returned array element made of the "
          "allocator's 0xBE fill pattern (uninitialised heap handed to the caller). Distinct = sha1 of (call, input kind, input rows) or "
          "(rows, corruption list); trivial when no corruption applied."),
    REQUIRED=["calls", "program-ops", "id-clause-checks", "followup-probes", "oom-injections", "memcheck:runs", "fill-pattern-scans", "bulk-readbacks"],
    ASSUMPTIONS=ASSUME_COMMON + [
        "UBSan nonnull-attribute is disabled (memcpy(NULL, .., 0) on empty columns is treated as defined)",
        "a watchdog firing counts only after an isolated re-run with 5x the budget hangs again",
    ],
    HANG_IS_VIOLATION=True,
    BUDGET={"quick": 55.0, "thorough": 1200.0},
    CASE_TIMEOUT={"quick": 90, "thorough": 180},
    SHIM=True,
    EXTRA_VARIANTS=["plain"],
    # pymalloc serves every PyMem_Malloc / PyObject_Malloc request of <= 512 bytes from its own arenas: no ASan red zones,
    # no 0xBE fill.  The extension module allocates its argument scratch arrays that way, so for this check (where the
    # sanitizer is the deciding oracle) all Python allocations go to malloc; about 2x slower interpreter.
    ENV={"PYTHONMALLOC": "malloc"},
)
