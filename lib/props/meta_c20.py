from lib.props.meta_common import ASSUME_COMMON

ID = "C20"
META = dict(
    LEVEL="exploration",
    RULE=("Tree.map_mutations is called on (a) every rooted forest on <= 4 nodes (quick; <= 5 thorough, 6 sampled) "
          "with every non-empty sample-flag assignment, and every tree of tskit.all_trees(n) for n <= 4 (quick; <= 5 "
          "thorough, 6-7 sampled), each with ALL genotype vectors over {missing,0,1,2} x {free, every fixed ancestral "
          "state as index or string, incl. an unobserved one}; (b) marginal trees of forest-walk generated tree "
          "sequences (polytomies, unary chains, multiple roots, internal/isolated samples, dead leaves, 30-90 node "
          "'wide' trees) with random and evolved genotype vectors over up to 64 alleles (index 63 forced often), "
          "missingness 0-90 % drawn independently of the sample kind; (c) documented refusals. Each result is "
          "checked against an independent unit-cost DP optimum (itself cross-checked by brute force on tiny "
          "instances), read back per sample, parent links, unary-chain placement, and periodically loaded as a "
          "mutation table. A case is distinct by its tree (row tuples / enumeration index)."),
    REQUIRED=["oracle:reproduce", "oracle:optimum", "oracle:parents", "oracle:unary-chain",
              "oracle:fixed-ancestral-state", "oracle:must-raise", "oracle:dp-vs-bruteforce",
              "oracle:loads-as-mutation-table", "exhaustive-trees"],
    ASSUMPTIONS=ASSUME_COMMON + [
        "unit-cost small parsimony with one shared ancestral state for all roots is the cost model the docstring "
        "describes ('transitions between any of the non-missing states equally likely')",
        "trees are used with the default root_threshold=1",
    ],
    BUDGET={"quick": 50.0, "thorough": 840.0},
    CASE_TIMEOUT={"quick": 60, "thorough": 240},
    MIN_CASES={"quick": 50, "thorough": 2000},
)
