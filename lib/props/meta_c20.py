from lib.props.meta_common import ASSUME_COMMON

ID = "C20"
META = dict(
    LEVEL="exploration",
    RULE=("Tree.map_mutations is called on (a) every rooted forest on <= 4 nodes (quick; <= 5 thorough, 6 sampled) "
          "with every non-empty sample-flag assignment, and every tree of tskit.all_trees(n) for n <= 4 (quick; <= 5 "
          "thorough, 6-7 sampled), each with ALL genotype vectors over {missing,0,1,2} x {free, every fixed ancestral "
          "state as index or string, incl. an unobserved one}; (b) marginal trees of forest-walk generated tree "
          "sequences (polytomies, unary chains, multiple roots, internal/isolated samples, dead leaves, 30-90 node "
          "'wide' trees) with random and evolved genotype vectors over up to 64 alleles (index 63 forced often), "
          "missingness 0-90 % or exactly one observation, drawn independently of the sample kind; allele indexes "
          "31/32/63 forced; stars / root sets with 255-600 children (quick: also > 2^16 children) where one allele "
          "sits on exactly 255/256/257/511/512/513/65535/65536/65537 children; spines of depth 1000-3000; "
          "(c) documented refusals, also at the low-level method; (d) the live Variant.genotypes / Variant.alleles of "
          "generated sites (isolated_as_missing on and off) on the tree at the site; (e) every way of obtaining a "
          "Tree (at, at_index, trees(), aslist, Tree(ts)+seek/seek_index, first-next and last-prev sweeps of one "
          "reused object incl. the null state, copy, sample_lists/tracked_samples, root_threshold=2). Argument "
          "forms cycle through list/tuple/eight numpy dtypes/non-contiguous/big-endian/read-only genotypes, "
          "tuple/list/str alleles, int/str/numpy-scalar ancestral states, positional/keyword calls, and the "
          "low-level _tskit method. Each result is "
          "checked against an independent unit-cost DP optimum (itself cross-checked by brute force on tiny "
          "instances), read back per sample, parent links, unary-chain placement, and periodically loaded as a "
          "mutation table (plain add_row and the docstring recipe mutations.append(mutation.replace(...)) + sort on "
          "the tables of the tree sequence itself, also with a JSON mutation metadata schema). A case is distinct by "
          "its tree (row tuples / enumeration index)."),
    REQUIRED=["oracle:same-question-after-move", "oracle:call-after-refused-call", "oracle:reproduce", "oracle:optimum", "oracle:parents", "oracle:unary-chain",
              "oracle:fixed-ancestral-state", "oracle:must-raise", "oracle:dp-vs-bruteforce",
              "oracle:loads-as-mutation-table", "exhaustive-trees", "oracle:ll-direct", "oracle:docstring-route",
              "family:variants", "family:entry", "family:huge-fanout", "family:deep"],
    ASSUMPTIONS=ASSUME_COMMON + [
        "unit-cost small parsimony with one shared ancestral state for all roots is the cost model the docstring "
        "describes ('transitions between any of the non-missing states equally likely')",
        "with root_threshold > 1 the oracle is evaluated on the forest below tree.roots (samples outside it are "
        "unreachable for any placement)",
    ],
    BUDGET={"quick": 50.0, "thorough": 840.0},
    CASE_TIMEOUT={"quick": 60, "thorough": 240},
    MIN_CASES={"quick": 50, "thorough": 2000},
)
