"""C16 — VCF output states exactly the genotypes of the tree sequence.

Oracle: the text returned by as_vcf()/write_vcf() is parsed with the small parser below and compared field by
field with what the reference model (lib.props.c03.GenoRef: nearest-mutation walk + missing rule) and the
arguments predict: one data line per unmasked site in site order; POS = transformed position; ID = site id;
REF = ancestral state; ALT = the other states of the site; one '|'-joined GT field per output individual whose
indexes, read through [REF]+ALT, spell the allele of each node, '.' for missing or sample-masked calls;
header sample names, contig id and contig length.  Documented errors must be raised exactly when predicted.

Relations on top of the reference comparison:
  * mask-form metamorphism: the same logical site_mask / sample_mask given as bool array, list, tuple, int64,
    uint8, int list, 0/1 float array (and, for sample_mask, a callable returning any of them) must give
    byte-identical text or the same exception class; crossed with allow_position_zero in {default, True} and
    with a site at transformed position 0 masked / unmasked;
  * masked-site independence: replacing masked sites by sites with > 9 alleles, multi-letter alleles or
    position 0 must not change the output or the error behaviour;
  * as_vcf() == write_vcf() into a StringIO / a real file; `tskit vcf` CLI == reference.

EITHER zones:
  V1  which exception class is raised for a documented error.
  V2  contig length when it would be decided by the transformed position of a *masked* last site.
  V3  individuals whose nodes are all non-samples, requested explicitly with isolated_as_missing=False
      (docs: "an error"; the variants() machinery can decode them): error or correct genotypes.
  V4  tree sequences without any sample node and individuals=None: error or a VCF without sample columns.
  V5  a wrong-length sample_mask when every site is masked (the mask is never looked at).
  V6  sample_mask index j refers to the j-th node in output order (the order of Variant.samples handed to a
      callable mask); the docs say "sample j" without fixing an order when individuals reorder the nodes.
"""
import contextlib
import io
import os
import re
import tempfile

import numpy as np
import tskit

from lib import gen
from lib.harness import case_rng
from lib.model import NULL, forest, mutation_parents
from lib.props.c03 import GenoRef, attempt, build_msprime, exc_name, model_features
from lib.tsk import to_ts

ID = "C16"


def cases(tier, seed):
    n = 60000 if tier == "quick" else 6000000
    for k in range(n):
        yield {"gen": ("msprime" if k % 40 == 7 else "walk"), "k": k}


# ------------------------------------------------------------------------------------ generator

MANY = list("ACGTRYKMSWBDHVXZ")
LAYOUTS = ["none", "none", "unused", "all", "all", "all", "partial", "mixed", "nonsample-only"]


def assign_individuals(rng, m, layout):
    n = m.num_nodes
    if layout == "none":
        return
    nind = rng.randint(1, 5)
    m.individuals = [(0, (), (), b"") for _ in range(nind)]
    ind = [NULL] * n
    samples = m.samples()
    nonsamples = [u for u in range(n) if not m.is_sample(u)]
    if layout == "unused":
        for u in nonsamples:
            if rng.random() < 0.5:
                ind[u] = rng.randrange(nind)
    else:
        # every sample gets an individual (random, non contiguous, mixed ploidy); usually one individual is
        # kept free of samples so that "no nodes" / "non-sample only" individuals exist
        free = rng.randrange(nind) if nind > 1 and rng.random() < 0.6 else None
        usable = [i for i in range(nind) if i != free]
        for u in samples:
            ind[u] = rng.choice(usable)
        if layout == "partial" and samples:
            for u in rng.sample(samples, rng.randint(1, max(1, len(samples) // 2))):
                ind[u] = NULL
        if layout == "mixed" and nonsamples and samples:
            ind[rng.choice(nonsamples)] = ind[rng.choice(samples)] if ind[rng.choice(samples)] != NULL else usable[0]
        if layout == "nonsample-only" and nonsamples and free is not None:
            for u in rng.sample(nonsamples, rng.randint(1, min(2, len(nonsamples)))):
                ind[u] = free
    m.nodes = [(f, t, p, ind[u], md) for u, (f, t, p, _, md) in enumerate(m.nodes)]


def site_rows(rng, m, j, pos, pool, k, known_times):
    """Mutation rows for one site in a valid order (as lib.gen.decorate_sites does)."""
    fr = forest(m, pos)
    lst = []
    for d in pool[:k]:
        u = rng.randrange(m.num_nodes)
        p = fr.par(u)
        if known_times:
            lo = m.time(u)
            hi = m.time(p) if p != NULL else lo + 2.0
            t = lo + rng.randint(0, 7) * (hi - lo) / 8
        else:
            t = None
        lst.append([u, d, t])
    if known_times:
        lst.sort(key=lambda z: (-z[2], -m.time(z[0])))
    else:
        lst.sort(key=lambda z: -m.time(z[0]))
    return [(j, u, d, NULL, t, b"") for u, d, t in lst]


def nastify(rng, m, masked, kinds):
    """Copy of m in which every masked site is replaced by a site that would break write_vcf if looked at."""
    m2 = m.copy()
    by_site = {j: [r for r in m.mutations if r[0] == j] for j in range(len(m.sites))}
    sites = list(m.sites)
    used = []
    for j in masked:
        kind = rng.choice(kinds)
        pos, anc, md = sites[j]
        if kind == "position-zero":
            if j != 0 or pos == 0.0:
                kind = "many-alleles"
            else:
                sites[j] = (0.0, anc, md)
                old = [r[2] for r in by_site[j]]
                by_site[j] = site_rows(rng, m, j, 0.0, old, len(old), False)
        if kind == "many-alleles":
            pool = list(MANY)
            rng.shuffle(pool)
            sites[j] = (sites[j][0], "q", md)
            by_site[j] = site_rows(rng, m, j, pos, pool, rng.randint(10, 13), False)
        elif kind == "multi-letter":
            sites[j] = (sites[j][0], rng.choice(["ACGT", "", "é"]), md)
            by_site[j] = site_rows(rng, m, j, pos, ["TT", "", "Aé", "GGG"], rng.randint(1, 4), False)
        used.append(kind)
    m2.sites = sites
    m2.mutations = [r for j in range(len(sites)) for r in by_site[j]]
    par = mutation_parents(m2)
    m2.mutations = [(s, u, d, par[k], t, md) for k, (s, u, d, _, t, md) in enumerate(m2.mutations)]
    return m2, used


def build(case):
    rng = case_rng(case)
    if case["gen"] == "msprime":
        # diploid/haploid individuals as simulators write them, finite-sites mutations
        return rng, build_msprime(rng), "all"
    discrete = rng.random() < 0.5
    sm = rng.choice(["young", "young", "young", "all", "any", "any", "few", "none"])
    if sm == "none" and rng.random() < 0.6:
        sm = "young"
    m = gen.gen_topology(rng, n=rng.randint(1, 10), max_bp=4, discrete=discrete, sample_mode=sm)
    layout = rng.choice(LAYOUTS)
    assign_individuals(rng, m, layout)
    r = rng.random()
    if r < 0.5:
        pool = gen.SIMPLE_ALLELES
    elif r < 0.65:
        pool = ["0", "1"]
    elif r < 0.8:
        pool = gen.ALLELES
    else:
        pool = MANY
    many = pool is MANY and rng.random() < 0.5
    for _ in range(3):
        gen.decorate_sites(rng, m, max_sites=rng.choice([1, 2, 3, 5, 8]), alleles=pool, discrete=discrete,
                           max_muts=12 if many else rng.choice([4, 8]))
        if m.sites or rng.random() < 0.15:
            break
    if m.sites and rng.random() < 0.15:
        # a site with exactly 8..11 distinct alleles: the "> 9 alleles" boundary
        j = rng.randrange(len(m.sites))
        k = rng.choice([8, 9, 9, 10, 10, 11])
        pool = list(MANY)
        rng.shuffle(pool)
        rows = {i: [r for r in m.mutations if r[0] == i] for i in range(len(m.sites))}
        m.sites[j] = (m.sites[j][0], pool[0], m.sites[j][2])
        rows[j] = site_rows(rng, m, j, m.sites[j][0], pool[1:], k - 1, False)
        m.mutations = [r for i in range(len(m.sites)) for r in rows[i]]
        par = mutation_parents(m)
        m.mutations = [(s_, u, d, par[i], t, md) for i, (s_, u, d, _, t, md) in enumerate(m.mutations)]
    return rng, m, layout


# ------------------------------------------------------------------------------------ position transforms


def py_round(x):
    return int(round(x))  # round-half-even, like numpy.round


def legacy_ref(xs):
    out = []
    last = 0
    for x in xs:
        p = py_round(x)
        if p <= last:
            p = last + 1
        out.append(p)
        last = p
    return out


# name -> (argument passed to write_vcf, pure-python reference on a list of floats, pointwise?)
TRANSFORMS = {
    "default": (None, lambda xs: [py_round(x) for x in xs], True),
    "legacy": ("legacy", legacy_ref, False),
    "np.round": (np.round, lambda xs: [py_round(x) for x in xs], True),
    "floor": (lambda x: np.floor(np.asarray(x)), lambda xs: [int(x // 1) for x in xs], True),
    "floor+1": (lambda x: np.floor(np.asarray(x)).astype(np.int64) + 1, lambda xs: [int(x // 1) + 1 for x in xs], True),
    "fmax1": (lambda x: np.fmax(1, np.round(x)), lambda xs: [max(1, py_round(x)) for x in xs], True),
    "times2-list": (lambda x: [int(2 * v // 1) for v in x], lambda xs: [int(2 * x // 1) for x in xs], True),
    "const5": (lambda x: np.full(len(x), 5), lambda xs: [5 for _ in xs], True),
    "zero": (lambda x: np.zeros(len(x), dtype=np.int32), lambda xs: [0 for _ in xs], True),
    "too-long": (lambda x: np.append(np.round(x), 7), None, True),
    "too-short": (lambda x: np.round(x)[:-1], None, True),
    # the form recommended by write_vcf's own position-zero error message
    "1+x": (lambda x: 1 + x, lambda xs: [1 + py_round(x) for x in xs], True),
}
TRANSFORM_WEIGHTS = (["default"] * 8 + ["legacy"] * 3 + ["np.round", "floor", "floor+1", "floor+1", "fmax1",
                     "times2-list", "const5", "zero"] * 2 + ["too-long", "too-short"])

# ------------------------------------------------------------------------------------ mask forms

FORMS = ["bool-array", "list-bool", "tuple-bool", "int64-array", "uint8-array", "list-int", "float-array",
         "int8-array"]


def mask_form(logical, form):
    if form == "bool-array":
        return np.array(logical, dtype=bool)
    if form == "list-bool":
        return [bool(x) for x in logical]
    if form == "tuple-bool":
        return tuple(bool(x) for x in logical)
    if form == "int64-array":
        return np.array([int(x) for x in logical], dtype=np.int64)
    if form == "uint8-array":
        return np.array([int(x) for x in logical], dtype=np.uint8)
    if form == "int8-array":
        return np.array([int(x) for x in logical], dtype=np.int8)
    if form == "list-int":
        return [int(x) for x in logical]
    if form == "float-array":
        return np.array([float(x) for x in logical])
    raise AssertionError(form)


class DynMask:
    """Callable sample mask: one logical row per site; records how it was called."""

    def __init__(self, rows, form):
        self.rows = rows
        self.form = form
        self.calls = []

    def __call__(self, variant):
        j = variant.site.id
        self.calls.append((j, [int(u) for u in variant.samples]))
        return mask_form(self.rows[j], self.form)


# ------------------------------------------------------------------------------------ expectation


def vcf_groups(R, a):
    """Sample-to-individual mapping: (must, may, groups or None, effective isolated_as_missing)."""
    m = R.m
    n = m.num_nodes
    must, may = set(), set()
    nind = len(m.individuals)
    samples = R.samples
    node_ind = [row[3] for row in m.nodes]
    iam = True if a.get("iam") is None else bool(a["iam"])
    ploidy = a.get("ploidy")
    individuals = a.get("individuals")
    groups = None
    if nind > 0 and ploidy is not None:
        must.add("ploidy-with-individuals")
    inds = None
    if individuals is None:
        refd = sorted({node_ind[u] for u in samples})
        if not samples:
            may.add("zero-samples")  # V4
        if refd and refd != [NULL]:
            if NULL in refd:
                must.add("samples-partly-in-individuals")
            else:
                inds = refd
    else:
        if len(individuals) == 0:
            must.add("empty-individuals")
        inds = list(individuals)
    if inds is not None:
        groups = []
        for i in inds:
            if i < 0 or i >= nind:
                must.add("individual-out-of-bounds")
                continue
            nodes = [u for u in range(n) if node_ind[u] == i]
            if not nodes:
                must.add("individual-without-nodes")
                continue
            kinds = {m.is_sample(u) for u in nodes}
            if len(kinds) == 2:
                must.add("individual-mixes-samples-and-non-samples")
            elif kinds == {False}:
                if iam:
                    must.add("non-sample-nodes-with-isolated_as_missing")
                else:
                    may.add("non-sample-individual")  # V3
            groups.append(nodes)
    else:
        p = 1 if ploidy is None else ploidy
        if p < 1:
            must.add("ploidy-below-one")
        elif len(samples) % p != 0:
            must.add("ploidy-not-dividing-sample-size")
        else:
            groups = [samples[i:i + p] for i in range(0, len(samples), p)]
    if must:
        groups = None
    return must, may, groups, iam


def vcf_expect(R, a):
    """a: logical arguments.  Returns (must, may, exp)."""
    m = R.m
    must, may, groups, iam = vcf_groups(R, a)
    apz = bool(a.get("apz"))
    names = a.get("names")
    if groups is not None and names is not None and len(names) != len(groups):
        must.add("individual_names-length")
    tname = a.get("transform", "default")
    _, tref, _ = TRANSFORMS[tname]
    if tref is None:
        must.add("transform-wrong-length")
    ns = len(R.sites)
    smask = a.get("site_mask")
    if smask is not None and len(smask) != ns:
        must.add("site_mask-length")
    if must or groups is None:
        return must, may, None
    logical_site = [False] * ns if smask is None else [bool(x) for x in smask]
    pos = tref([s["pos"] for s in R.sites])
    TL = tref([m.L])[0]
    contig = max(1, TL)
    contigs = {contig}
    if ns:
        contigs = {max(contig, pos[-1])}
        unmasked = [j for j in range(ns) if not logical_site[j]]
        if logical_site[-1]:
            contigs.add(max([contig] + [pos[j] for j in unmasked[-1:]]))  # V2
    out_nodes = [u for g in groups for u in g]
    samp = a.get("sample_mask")  # None | ("static", row) | ("dynamic", rows)
    lines = []
    for j in range(ns):
        if logical_site[j]:
            continue
        s = R.sites[j]
        if len(s["states"]) > 9:
            must.add("more-than-9-alleles")
        if pos[j] == 0 and not apz:
            must.add("position-zero")
        row = None
        if samp is not None:
            row = samp[1] if samp[0] == "static" else samp[1][j]
            if len(row) != len(out_nodes):
                must.add("sample_mask-length")
                row = None
        al, mi = R.expected(j, out_nodes, iam)
        calls = []
        for k in range(len(out_nodes)):
            calls.append(None if (mi[k] or (row is not None and row[k])) else al[k])
        gts = []
        k = 0
        for g in groups:
            gts.append(calls[k:k + len(g)])
            k += len(g)
        lines.append({"site": j, "pos": pos[j], "ref": s["anc"], "alts": s["states"] - {s["anc"]}, "gts": gts})
    if samp is not None and not lines:
        row = samp[1] if samp[0] == "static" else (samp[1][0] if samp[1] else [])
        if samp[0] == "static" and len(row) != len(out_nodes):
            may.add("sample_mask-length-never-used")  # V5
    if must:
        return must, may, None
    exp = {
        "names": list(names) if names is not None else [f"tsk_{i}" for i in range(len(groups))],
        "contig_id": "1" if a.get("contig_id") is None else a["contig_id"],
        "contig_lengths": contigs,
        "lines": lines,
        "out_nodes": out_nodes,
    }
    return must, may, exp


FIXED_COLS = ["#CHROM", "POS", "ID", "REF", "ALT", "QUAL", "FILTER", "INFO", "FORMAT"]


def vcf_compare(text, exp):
    """List of (key, message) differences between VCF text and the expectation."""
    bad = []
    if not text.endswith("\n"):
        return [("vcf/format", f"output does not end with a newline: {text[-60:]!r}")]
    rows = text[:-1].split("\n")
    meta = [r for r in rows if r.startswith("##")]
    rest = [r for r in rows if not r.startswith("##")]
    if not rows or not rows[0].startswith("##fileformat=VCFv4"):
        bad.append(("vcf/format", f"first line {rows[:1]}"))
    if rows[: len(meta)] != meta or not rest or not rest[0].startswith("#CHROM"):
        return bad + [("vcf/format", f"meta lines / #CHROM header misplaced: {rows[:8]}")]
    contig = [re.fullmatch(r"##contig=<ID=(.*),length=(-?\d+)>", r) for r in meta]
    contig = [c for c in contig if c]
    if len(contig) != 1:
        bad.append(("vcf/contig", f"contig header lines: {[r for r in meta if 'contig' in r]}"))
    else:
        cid, clen = contig[0].group(1), int(contig[0].group(2))
        if cid != exp["contig_id"]:
            bad.append(("vcf/contig-id", f"header contig ID {cid!r} expected {exp['contig_id']!r}"))
        if clen not in exp["contig_lengths"]:
            bad.append(("vcf/contig-length", f"header contig length {clen} expected {sorted(exp['contig_lengths'])}"))
    if not any(r.startswith("##FORMAT=<ID=GT,") for r in meta):
        bad.append(("vcf/format", "no ##FORMAT=<ID=GT line"))
    hdr = rest[0].split("\t")
    if hdr[:9] != FIXED_COLS or hdr[9:] != exp["names"]:
        bad.append(("vcf/header-names", f"header columns {hdr} expected sample names {exp['names']}"))
    data = rest[1:]
    if len(data) != len(exp["lines"]):
        ids = [d.split("\t")[2:3] for d in data]
        bad.append(("vcf/line-count", f"{len(data)} data lines (IDs {ids}) expected sites "
                    f"{[ln['site'] for ln in exp['lines']]}"))
        return bad
    for d, e in zip(data, exp["lines"]):
        f = d.split("\t")
        w = f"line {d!r}"
        if len(f) != 9 + len(e["gts"]):
            bad.append(("vcf/columns", f"{w}: {len(f)} columns expected {9 + len(e['gts'])}"))
            break
        if f[0] != exp["contig_id"]:
            bad.append(("vcf/contig-id", f"{w}: CHROM {f[0]!r} expected {exp['contig_id']!r}"))
        if f[2] != str(e["site"]):
            bad.append(("vcf/site-id", f"{w}: ID {f[2]!r} expected site {e['site']} (order of unmasked sites)"))
            break
        if f[1] != str(e["pos"]):
            bad.append(("vcf/pos", f"{w}: POS {f[1]!r} expected {e['pos']}"))
        if f[3] != e["ref"]:
            bad.append(("vcf/ref", f"{w}: REF {f[3]!r} expected ancestral state {e['ref']!r}"))
        alts = [] if (f[4] == "." and not e["alts"]) else f[4].split(",")
        if sorted(alts) != sorted(e["alts"]):
            bad.append(("vcf/alt", f"{w}: ALT {f[4]!r} expected the states {sorted(e['alts'])}"))
            break
        if f[8] != "GT":
            bad.append(("vcf/format", f"{w}: FORMAT column {f[8]!r}"))
        alleles = [f[3]] + alts
        for i, (field, calls) in enumerate(zip(f[9:], e["gts"])):
            toks = field.split("|")
            if len(toks) != len(calls):
                bad.append(("vcf/gt-ploidy", f"{w}: individual {i} field {field!r} expected ploidy {len(calls)}"))
                break
            dec = []
            for t in toks:
                if t == ".":
                    dec.append(None)
                elif t.isdigit() and int(t) < len(alleles):
                    dec.append(alleles[int(t)])
                else:
                    dec.append(("?", t))
            if dec != calls:
                bad.append(("vcf/gt", f"{w}: individual {i} field {field!r} decodes to {dec} expected {calls}"))
                break
        if bad:
            break
    return bad


# ------------------------------------------------------------------------------------ drawing arguments


def draw_args(rng, R, layout):
    """Logical arguments + how to pass them."""
    m = R.m
    nind = len(m.individuals)
    ns = len(R.sites)
    a = {}
    # ploidy
    r = rng.random()
    nsamp = len(R.samples)
    if nind == 0:
        if r < 0.75:
            div = [p for p in (1, 2, 3, 4) if nsamp % p == 0]
            r2 = rng.random()
            a["ploidy"] = rng.choice(div) if r2 < 0.8 else (rng.choice([1, 2, 3, 4]) if r2 < 0.93 else rng.choice([0, -1, 5]))
    elif r < (0.15 if layout == "unused" else 0.05):
        a["ploidy"] = rng.choice([1, 2])
    # individuals
    if nind and rng.random() < (0.7 if layout in ("partial", "mixed", "nonsample-only") else 0.4):
        node_ind = [row[3] for row in m.nodes]
        good = [i for i in range(nind) if any(node_ind[u] == i for u in range(m.num_nodes))
                and all(m.is_sample(u) for u in range(m.num_nodes) if node_ind[u] == i)]
        withnodes = [i for i in range(nind) if any(node_ind[u] == i for u in range(m.num_nodes))]
        r = rng.random()
        if r < 0.72 and good:
            a["individuals"] = rng.sample(good, rng.randint(1, len(good)))
        elif r < 0.86 and withnodes:
            a["individuals"] = rng.sample(withnodes, rng.randint(1, len(withnodes)))
        elif r < 0.93:
            a["individuals"] = rng.sample(range(nind), rng.randint(1, nind))
        elif r < 0.96:
            a["individuals"] = []
        else:
            a["individuals"] = [rng.choice([-1, nind, nind + 2])] + rng.sample(range(nind), rng.randint(0, nind))
    if rng.random() < 0.3:
        a["iam"] = rng.choice([True, False, False])
    if rng.random() < 0.5:
        a["apz"] = rng.choice([True, True, False])
    if rng.random() < 0.25:
        a["contig_id"] = rng.choice(["chr1", "X", "contig_7", "2"])
    a["transform"] = rng.choice(TRANSFORM_WEIGHTS)
    if rng.random() < 0.55 and ns:
        p = rng.choice([0.2, 0.5, 0.8])
        a["site_mask"] = [rng.random() < p for _ in range(ns)]
        if rng.random() < 0.06:
            a["site_mask"] = a["site_mask"] + [False] if rng.random() < 0.5 else a["site_mask"][:-1]
    elif rng.random() < 0.1:
        a["site_mask"] = [False] * ns
    return a


def draw_names_and_sample_mask(rng, R, a):
    """Needs the number of output individuals / nodes, so it is drawn after a first expectation pass."""
    _, _, groups, _ = vcf_groups(R, a)
    ngroups = len(groups) if groups is not None else rng.randint(0, 3)
    nout = sum(len(g) for g in groups) if groups is not None else len(R.samples)
    if rng.random() < 0.3:
        k = ngroups if rng.random() < 0.85 else max(0, ngroups + rng.choice([-1, 1]))
        a["names"] = [rng.choice(["a", "ind", "s_", "NA"]) + str(i * 7 % 11) for i in range(k)]
    if rng.random() < 0.45:
        k = nout if rng.random() < 0.9 else max(0, nout + rng.choice([-1, 1]))
        p = rng.choice([0.2, 0.5, 0.9])
        if rng.random() < 0.5:
            a["sample_mask"] = ("static", [rng.random() < p for _ in range(k)])
        else:
            a["sample_mask"] = ("dynamic", [[rng.random() < p for _ in range(k)] for _ in range(len(R.sites))])
    return a


def to_kwargs(rng, a, site_form=None, sample_form=None, positional_ploidy=False):
    """Concrete keyword arguments for write_vcf; returns (args, kwargs, dynmask or None)."""
    kw = {}
    args = []
    if "ploidy" in a:
        if positional_ploidy:
            args.append(a["ploidy"])
        else:
            kw["ploidy"] = a["ploidy"]
    if "individuals" in a:
        kw["individuals"] = list(a["individuals"]) if rng.random() < 0.6 else np.array(a["individuals"], dtype=np.int64)
    if a.get("names") is not None:
        kw["individual_names"] = list(a["names"])
    if "iam" in a:
        kw["isolated_as_missing"] = a["iam"]
    if "apz" in a:
        kw["allow_position_zero"] = a["apz"]
    if "contig_id" in a:
        kw["contig_id"] = a["contig_id"]
    t = TRANSFORMS[a.get("transform", "default")][0]
    if t is not None:
        kw["position_transform"] = t
    if a.get("site_mask") is not None:
        kw["site_mask"] = mask_form(a["site_mask"], site_form or "bool-array")
    dyn = None
    if a.get("sample_mask") is not None:
        kind, rows = a["sample_mask"]
        if kind == "static":
            kw["sample_mask"] = mask_form(rows, sample_form or "bool-array")
        else:
            dyn = DynMask(rows, sample_form or "bool-array")
            kw["sample_mask"] = dyn
    return args, kw, dyn


def describe(a, site_form, sample_form):
    d = dict(a)
    if "sample_mask" in d and d["sample_mask"] is not None:
        d["sample_mask"] = (d["sample_mask"][0], d["sample_mask"][1])
    return f"write_vcf(logical args {d}, site_mask form {site_form}, sample_mask form {sample_form})"


# ------------------------------------------------------------------------------------ monitors


class Mon:
    def __init__(self, ctx, m, R):
        self.ctx = ctx
        self.m = m
        self.R = R
        self._detail = None

    def bad(self, key, msg, model=None):
        if model is not None:
            detail = {"model": model.to_json()}
        else:
            if self._detail is None:
                self._detail = {"model": self.m.to_json()}
            detail = self._detail
        self.ctx.violation(key, msg, detail)


def run_vcf(ts, args, kw):
    return attempt(lambda: ts.as_vcf(*args, **kw))


def judge(ok, out, must, may, exp, dyn=None):
    """None if the outcome agrees with the expectation, else (key, msg)."""
    if must:
        if ok:
            return (f"vcf/error-not-raised/{sorted(must)[0]}", f"returned normally, predicted errors {sorted(must)}; "
                    f"output tail {out[-300:]!r}")
        return None
    if not ok:
        if may:
            return None
        return (f"vcf/unexpected-error/{exc_name(out)}", f"raised {exc_name(out)}: {out}")
    if exp is None:
        return None
    diffs = vcf_compare(out, exp)
    if diffs:
        return (diffs[0][0], "; ".join(msg for _, msg in diffs[:3]) + f" || full output {out!r}")
    if dyn is not None:
        want = [(ln["site"], exp["out_nodes"]) for ln in exp["lines"]]
        if dyn.calls != want:
            return ("vcf/sample-mask-callable-calls", f"sample_mask callable was called with (site, variant.samples) "
                    f"{dyn.calls} expected {want}")
    return None


def mon_general(rng, mon, ts, layout):
    R, ctx = mon.R, mon.ctx
    a = draw_args(rng, R, layout)
    a = draw_names_and_sample_mask(rng, R, a)
    must, may, exp = vcf_expect(R, a)
    site_form = rng.choice(FORMS) if a.get("site_mask") is not None else None
    sample_form = rng.choice(FORMS) if a.get("sample_mask") is not None else None
    args, kw, dyn = to_kwargs(rng, a, site_form, sample_form, positional_ploidy=rng.random() < 0.3)
    ok, out = run_vcf(ts, args, kw)
    ctx.count("vcf:calls")
    ctx.feature("transform:" + a.get("transform", "default"))
    if must:
        ctx.count("vcf:error-predicted")
        for t in must:
            ctx.feature("error:" + t)
    elif ok:
        ctx.count("vcf:compared")
        ctx.count("vcf:lines-compared", len(exp["lines"]) if exp else 0)
        if exp and exp["lines"]:
            ctx.count("vcf:nonempty-compared")
    elif may:
        ctx.count("vcf:either-zone-error")
    if site_form:
        ctx.feature("site_mask:" + site_form)
    if sample_form:
        ctx.feature("sample_mask:" + ("callable->" if dyn else "") + sample_form)
    v = judge(ok, out, must, may, exp, dyn)
    if v is not None:
        key, msg = v
        # a disagreement that disappears when the same logical masks are passed as boolean arrays is a
        # mask-form defect, not a genotype defect: name it by that mechanism
        for which, form in (("site", site_form), ("sample", sample_form)):
            if form in (None, "bool-array"):
                continue
            sf = "bool-array" if which == "site" else site_form
            pf = "bool-array" if which == "sample" else sample_form
            args2, kw2, dyn2 = to_kwargs(rng, a, sf, pf)
            ok2, out2 = run_vcf(ts, args2, kw2)
            if judge(ok2, out2, must, may, exp, dyn2) is None:
                key = f"vcf/{which}-mask-form"
                msg = f"{which}_mask given as {form}: {msg}; the same mask as a boolean array behaves as documented"
                break
        mon.bad(key, f"{describe(a, site_form, sample_form)}: {msg}")
        return
    if ok and rng.random() < 0.25:
        # as_vcf == write_vcf (StringIO and a real file)
        args2, kw2, _ = to_kwargs(rng, a, site_form, sample_form)
        buf = io.StringIO()
        ok2, r2 = attempt(lambda: ts.write_vcf(buf, *args2, **kw2))
        ctx.count("vcf:write_vcf-vs-as_vcf")
        if not ok2 or buf.getvalue() != out:
            mon.bad("vcf/write_vcf-differs-from-as_vcf", f"{describe(a, site_form, sample_form)}: write_vcf -> "
                    f"{r2 if not ok2 else buf.getvalue()!r}, as_vcf -> {out!r}")
        if rng.random() < 0.3:
            with tempfile.TemporaryDirectory(prefix="c16-") as d:
                p = os.path.join(d, "x.vcf")
                args3, kw3, _ = to_kwargs(rng, a, site_form, sample_form)
                with open(p, "w") as f:
                    ok3, r3 = attempt(lambda: ts.write_vcf(f, *args3, **kw3))
                got = open(p).read()
                ctx.count("vcf:write_vcf-file")
                if not ok3 or got != out:
                    mon.bad("vcf/write_vcf-differs-from-as_vcf", f"{describe(a, site_form, sample_form)}: file "
                            f"output {r3 if not ok3 else got!r}, as_vcf -> {out!r}")


def outcome(ok, out):
    return ("ok", out) if ok else ("error", exc_name(out))


def mon_mask_forms(rng, mon, ts, layout):
    """Mask-form metamorphism crossed with allow_position_zero and a (un)masked site at position 0."""
    R, ctx = mon.R, mon.ctx
    ns = len(R.sites)
    if ns == 0:
        return
    a = draw_args(rng, R, layout)
    # keep the rest of the call valid most of the time so that the masks decide the outcome
    a.pop("names", None)
    if a.get("transform") in ("too-long", "too-short"):
        a["transform"] = "default"
    if rng.random() < 0.5:
        a["transform"] = rng.choice(["default", "default", "floor", "zero"])
    p = rng.choice([0.3, 0.5, 0.7])
    logical = [rng.random() < p for _ in range(ns)]
    logical[0] = rng.random() < 0.5
    a["site_mask"] = logical
    a = draw_names_and_sample_mask(rng, R, a)
    a.pop("names", None)
    for apz in (None, True):
        b = dict(a)
        b.pop("apz", None)
        if apz is not None:
            b["apz"] = apz
        must, may, exp = vcf_expect(R, b)
        pos0 = TRANSFORMS[b["transform"]][1] is not None and TRANSFORMS[b["transform"]][1]([R.sites[0]["pos"]])[0] == 0
        ctx.feature(f"maskform:apz={apz},pos0={'masked' if logical[0] else 'unmasked'}" if pos0 else
                    f"maskform:apz={apz},no-pos0")
        base_args, base_kw, base_dyn = to_kwargs(rng, b, "bool-array", "bool-array")
        ok0, out0 = run_vcf(ts, base_args, base_kw)
        ctx.count("maskform:base")
        v = judge(ok0, out0, must, may, exp, base_dyn)
        if v is not None:
            mon.bad(v[0], f"{describe(b, 'bool-array', 'bool-array')}: {v[1]}")
            continue
        for form in FORMS[1:]:
            args1, kw1, _ = to_kwargs(rng, b, form, "bool-array")
            ok1, out1 = run_vcf(ts, args1, kw1)
            ctx.count("maskform:site-form")
            if outcome(ok1, out1) != outcome(ok0, out0):
                mon.bad("vcf/site-mask-form", f"{describe(b, form, 'bool-array')}: site_mask {kw1['site_mask']!r} -> "
                        f"{outcome(ok1, out1)[0]} {out1 if not ok1 else out1[-200:]!r}; the same mask as a boolean "
                        f"array -> {outcome(ok0, out0)[0]} {out0 if not ok0 else out0[-200:]!r}")
                break
        if b.get("sample_mask") is not None:
            for form in FORMS[1:]:
                args1, kw1, _ = to_kwargs(rng, b, "bool-array", form)
                ok1, out1 = run_vcf(ts, args1, kw1)
                ctx.count("maskform:sample-form")
                if outcome(ok1, out1) != outcome(ok0, out0):
                    mon.bad("vcf/sample-mask-form", f"{describe(b, 'bool-array', form)}: sample_mask form {form} -> "
                            f"{outcome(ok1, out1)[0]} {out1 if not ok1 else out1[-200:]!r}; boolean array -> "
                            f"{outcome(ok0, out0)[0]} {out0 if not ok0 else out0[-200:]!r}")
                    break


def mon_masked_independence(rng, mon, ts, layout):
    R, ctx = mon.R, mon.ctx
    ns = len(R.sites)
    if ns == 0:
        return
    a = draw_args(rng, R, layout)
    if a.get("transform") in ("too-long", "too-short"):
        a["transform"] = "default"
    p = rng.choice([0.3, 0.6])
    logical = [rng.random() < p for _ in range(ns)]
    logical[rng.randrange(ns)] = True
    if rng.random() < 0.5:
        logical[0] = True
    a["site_mask"] = logical
    a = draw_names_and_sample_mask(rng, R, a)
    masked = [j for j in range(ns) if logical[j]]
    m2, kinds = nastify(rng, mon.m, masked, ["many-alleles", "multi-letter", "position-zero"])
    ok_b, ts2 = attempt(lambda: to_ts(m2))
    if not ok_b:
        raise RuntimeError(f"nastified model invalid: {ts2}")
    R2 = GenoRef(m2)
    must1, may1, exp1 = vcf_expect(R, a)
    must2, may2, exp2 = vcf_expect(R2, a)
    form = rng.choice(FORMS)
    args1, kw1, dyn1 = to_kwargs(rng, a, form, "bool-array")
    args2, kw2, dyn2 = to_kwargs(rng, a, form, "bool-array")
    ok1, out1 = run_vcf(ts, args1, kw1)
    ok2, out2 = run_vcf(ts2, args2, kw2)
    ctx.count("masked-independence:pairs")
    for k in kinds:
        ctx.feature("masked-site-replaced-by:" + k)
    v1 = judge(ok1, out1, must1, may1, exp1, dyn1)
    v2 = judge(ok2, out2, must2, may2, exp2, dyn2)
    if v1 is not None and form != "bool-array":
        # leave mask-form defects to mon_mask_forms / mon_general (named there)
        args1, kw1, dyn1 = to_kwargs(rng, a, "bool-array", "bool-array")
        ok1b, out1b = run_vcf(ts, args1, kw1)
        if judge(ok1b, out1b, must1, may1, exp1, dyn1) is None:
            mon.bad("vcf/site-mask-form", f"{describe(a, form, 'bool-array')}: {v1[1]}; the same mask as a boolean "
                    f"array behaves as documented")
            return
    if v1 is not None:
        mon.bad(v1[0], f"{describe(a, form, 'bool-array')}: {v1[1]}")
        return
    if v2 is not None and form != "bool-array":
        args2, kw2, dyn2 = to_kwargs(rng, a, "bool-array", "bool-array")
        ok2b, out2b = run_vcf(ts2, args2, kw2)
        if judge(ok2b, out2b, must2, may2, exp2, dyn2) is None:
            mon.bad("vcf/site-mask-form", f"{describe(a, form, 'bool-array')} with masked sites {masked} of kinds "
                    f"{kinds}: {v2[1]}; the same mask as a boolean array behaves as documented", model=m2)
            return
    if v2 is not None:
        mon.bad("vcf/masked-site-looked-at", f"{describe(a, form, 'bool-array')} after replacing the masked sites "
                f"{masked} by {kinds}: {v2[0]}: {v2[1]}", model=m2)
        return
    pointwise = TRANSFORMS[a.get("transform", "default")][2]
    if pointwise and not must1 and ok1 and ok2:
        ctx.count("masked-independence:text-compared")
        strip = (lambda t: re.sub(r"##contig=<[^\n]*>\n", "", t)) if logical[-1] else (lambda t: t)  # V2
        if strip(out1) != strip(out2):
            mon.bad("vcf/masked-site-changes-output", f"{describe(a, form, 'bool-array')}: output changed when the "
                    f"masked sites {masked} were replaced by {kinds}: {out1!r} vs {out2!r}", model=m2)


def mon_transform_receives_list(rng, mon, ts):
    """write_vcf's position-zero error message recommends `position_transform = lambda x: 1 + x`."""
    R, ctx = mon.R, mon.ctx
    if not (float(R.m.L).is_integer() and all(float(s["pos"]).is_integer() for s in R.sites)):
        return  # a transform must return integers: `1 + x` does so only for integral positions
    a = {"transform": "1+x", "apz": rng.choice([None, True])}
    if a["apz"] is None:
        a.pop("apz")
    if len(R.m.individuals) == 0 and rng.random() < 0.5:
        a["ploidy"] = 1
    must, may, exp = vcf_expect(R, a)
    args, kw, _ = to_kwargs(rng, a)
    ok, out = run_vcf(ts, args, kw)
    ctx.count("vcf:documented-1+x-transform")
    v = judge(ok, out, must, may, exp)
    if v is not None:
        key = "vcf/position-transform-given-a-list" if (not ok and isinstance(out, TypeError)) else v[0]
        mon.bad(key, f"as_vcf(position_transform=lambda x: 1 + x, {a}): {v[1]}")


def mon_cli(rng, mon, ts):
    """`python -m tskit vcf` (in process) against the reference."""
    from tskit import cli

    R, ctx = mon.R, mon.ctx
    a = {}
    argv = []
    if rng.random() < 0.5:
        a["ploidy"] = rng.choice([1, 2, 3])
        argv += [rng.choice(["-P", "--ploidy"]), str(a["ploidy"])]
    if rng.random() < 0.5:
        a["contig_id"] = rng.choice(["chrX", "7"])
        argv += [rng.choice(["-c", "--contig-id"]), a["contig_id"]]
    if rng.random() < 0.6:
        a["apz"] = True
        argv += [rng.choice(["-0", "--allow-position-zero"])]
    must, may, exp = vcf_expect(R, a)
    with tempfile.TemporaryDirectory(prefix="c16-") as d:
        p = os.path.join(d, "x.trees")
        ts.dump(p)
        buf = io.StringIO()

        def go():
            with contextlib.redirect_stdout(buf), contextlib.redirect_stderr(io.StringIO()):
                try:
                    cli.tskit_main(["vcf", p] + argv)
                except SystemExit as e:
                    raise RuntimeError(f"SystemExit({e.code})")
            return buf.getvalue()

        ok, out = attempt(go)
    ctx.count("vcf:cli")
    v = judge(ok, out, must, may, exp)
    if v is not None:
        mon.bad("cli/" + v[0], f"tskit vcf {argv}: {v[1]}")


def run_case(case, ctx):
    rng, m, layout = build(case)
    R = GenoRef(m)
    mon = Mon(ctx, m, R)
    for t in gen.topo_tags(m) | model_features(m, R):
        ctx.feature(t)
    ctx.feature("individuals-layout:" + layout)
    ctx.feature("gen:" + case["gen"])
    for s in R.sites:
        if len(s["states"]) >= 8:
            ctx.feature(f"site-with-{len(s['states'])}-alleles")
    if any(s["pos"] == 0 for s in R.sites):
        ctx.feature("site-at-position-0")
    ctx.sig(m.signature(), nontrivial=len(m.sites) > 0 and len(R.samples) > 0)
    if case["k"] < 2:
        ctx.sample({"case": case, "model": m.to_json()})
    ts = to_ts(m)
    for _ in range(5):
        mon_general(rng, mon, ts, layout)
    mon_mask_forms(rng, mon, ts, layout)
    mon_masked_independence(rng, mon, ts, layout)
    if rng.random() < 0.4:
        mon_transform_receives_list(rng, mon, ts)
    if rng.random() < 0.06:
        mon_cli(rng, mon, ts)
